"""Shared helpers for C06: VMF generator, field-wise dump and export -> parse -> export round-trip oracle.

Bounded tier; run natively with  PYTHONPATH=/repo/src:/verif/shim /venv/bin/python contracts/c06_vmf_support.py [N]

Oracle conventions (what is *not* counted as a difference; see `_normalise`):
  * export is called with inc_version=False (the default increments mapversion on every export by design).
  * minimal=True drops viewsettings (grid flags, spacing, Strata instance visibility / viewports), cameras
    (active_cam) and cordons (cordon_enabled): the re-parsed map must hold the constructor defaults for those.
  * disp_multiblend=False, or a displacement whose multi_blend values are all zero, drops multi_blend /
    multi_alpha / multi_colors (Side._export_displacement: `any(vert.multi_blend ...)`); with multiblend written,
    multi_colors=None re-reads as four Vec(1, 1, 1).
  * no cameras -> active_cam == -1; no cordons -> cordon_enabled False; quickhide_count <= 0 -> 0.
  * worldspawn: only id, keys (without 'mapversion'), fixups, outputs, solids, editor colour and comments are written.
  * solids inside brush entities: group_id / visgroup_ids are "not allowed inside brush entities" (Solid.export
    docstring), they are not compared there (the generator does not set them).
  * triangle tags of the last displacement row / column are "ignored" (DispVertex comment), not compared.
  * Output.inst_in / inst_out: '' is equivalent to None.
  * the second export is compared with the first byte for byte when preserve_ids=True, otherwise with the
    `"id" "N"` lines masked (parse(preserve_ids=False) renumbers even unique IDs: the placeholder worldspawn made by
    VMF() occupies entity ID 1 while the real one is read); the dumps are then compared with with_ids=False.
Generator restrictions (not representable in the format, so never generated): entity keys `id`, `mapversion`,
  `nodeid`, `replace*`; newlines / carriage returns in keyvalue *names* (entity keys, output names: Keyvalues.parse
  rejects them unless newline_keys=True); the active separator inside output fields other than params (and \x1b
  anywhere in an output); output / input names starting with `instance:`, `;` in instance names; spaces or a leading
  `$` in fixup variable names; an empty logical_pos; group_id / visgroup_ids on solids of brush entities; 2D viewport
  coordinates of exactly +-65536; non-finite numbers; format_version other than 100; duplicate visgroup / group IDs
  (duplicate entity, solid and face IDs are generated, in maps built with VMF(preserve_ids=True)).
  * numbers: abs 5e-7 everywhere (coordinates, axes, colours, distances, zoom ...), six significant digits for
    ham_rot, delay, multi_blend, multi_alpha; angles modulo 360.
"""
import math
import random
import re
from typing import Any, Callable, List, Optional, Tuple

# ------------------------------------------------------------------------------------------------ generators

PLAIN_CHARS = 'abcdefXYZ0189 _-./:;<>()[]!?#$%&*+=@^~|,\'`'
NASTY_CHARS = '"\\\n\t{}'
RARE_CHARS = '\r\x0b\x08'  # also have escapes in the keyvalues syntax
UNI_CHARS = 'é✓λß日本\U0001f600'
IDENT_CHARS = 'abcdefgXYZ_0123456789'

FLOAT_SPECIALS = [
    0.0, -0.0, 1.0, -1.0, 0.5, -0.25, 0.1 + 0.2, 1 / 3, -2 / 3, 1e-7, -1e-7, 4e-7, -4.9e-7, 5.1e-7, 1e-6, -1.5e-6,
    0.0000125, 123456.5, -123456.789012, 1e9, -1e9, 16384.0, -16384.0, 65536.0, 1234567.891, 0.999999499, 0.9999996,
    359.9999997, 128.0000004, 1e15, -3.14159265358979, 2.718281828459045e-3,
]


def gen_float(rng: random.Random) -> float:
    k = rng.randrange(8)
    if k == 0:
        return float(rng.choice([0, 0, 1, -1, 64, -128, 512]))
    if k == 1:
        return float(rng.randint(-4096, 4096))
    if k == 2:
        return rng.uniform(-1, 1)
    if k == 3:
        return rng.uniform(-1e5, 1e5)
    if k == 4:
        return rng.choice(FLOAT_SPECIALS)
    if k == 5:
        return round(rng.uniform(-1000, 1000), rng.randrange(0, 7))
    if k == 6:
        return rng.uniform(-1e-5, 1e-5)
    return rng.randint(-16384, 16384) / 8.0


def gen_vec(rng: random.Random):
    from srctools.math import Vec
    return Vec(gen_float(rng), gen_float(rng), gen_float(rng))


def gen_color(rng: random.Random):
    from srctools.math import Vec
    if rng.random() < 0.15:
        return Vec(gen_float(rng), gen_float(rng), gen_float(rng))
    return Vec(rng.randrange(256), rng.randrange(256), rng.randrange(256))


def gen_text(rng: random.Random, nasty: float = 0.5, maxlen: int = 8, minlen: int = 0) -> str:
    """Random text; with probability `nasty` drawn from the alphabet with quotes, backslashes, newlines, braces etc."""
    n = rng.choice([minlen, 1, 1, 2, 3, 5, maxlen])
    n = max(n, minlen)
    pool = PLAIN_CHARS
    if rng.random() < nasty:
        pool = PLAIN_CHARS + NASTY_CHARS * 4 + UNI_CHARS * 2 + RARE_CHARS
    return ''.join(rng.choice(pool) for _ in range(n))


def gen_ident(rng: random.Random, minlen: int = 1) -> str:
    return ''.join(rng.choice(IDENT_CHARS) for _ in range(rng.randint(minlen, 8)))


def _strip(text: str, banned: str) -> str:
    return ''.join(c for c in text if c not in banned)


def _key_ok(key: str, used: set) -> bool:
    """Entity keys which the format can represent: `id` is the entity ID, `replaceNN` are fixups."""
    fold = key.casefold()
    if fold in used or fold == 'id' or fold == 'mapversion' or fold == 'nodeid':
        return False
    if fold.startswith('replace'):
        return False
    return True


def gen_output(rng: random.Random):
    from srctools.vmf import Output
    comma = rng.random() < 0.4
    # A field containing the separator in use cannot be represented (params may hold commas: Output.parse rejoins them);
    # the \x1b separator takes precedence when parsing, so it may never appear in comma mode either.
    banned = '\x1b' + (',' if comma else '')

    def field(nasty: float = 0.4, minlen: int = 0) -> str:
        return _strip(gen_text(rng, nasty, minlen=minlen), banned)

    # The output name is a keyvalue *name*: Keyvalues.parse() rejects newlines there unless newline_keys=True.
    out = _strip(field(), '\n\r')
    while out.casefold().startswith('instance:'):
        out = _strip(field(), '\n\r')
    inp = field()
    while inp.casefold().startswith('instance:'):
        inp = field()
    inst_out = inst_in = None
    if rng.random() < 0.3:
        inst_out = _strip(field(minlen=1), ';\n\r') or 'rl'
    if rng.random() < 0.3:
        inst_in = _strip(field(minlen=1), ';') or 'in_rl'
    param = _strip(gen_text(rng, 0.5), '\x1b')
    if comma and rng.random() < 0.5:
        param += ',' + _strip(gen_text(rng, 0.3), '\x1b') + (',' if rng.random() < 0.3 else '')
    delay = rng.choice([0.0, 0.0, 0.1, 1.0, 2.5, 1e-7, 0.0123456, 0.000789012, 2.5e-7, 123456.789, 0.333333333,
                        abs(gen_float(rng))])
    times = rng.choice([-1, -1, 1, 0, 5, rng.randint(-3, 1000)])
    return Output(out, field(), inp, param, delay, times=times, inst_out=inst_out, inst_in=inst_in, comma_sep=comma)


def gen_uvaxis(rng: random.Random):
    from srctools.vmf import UVAxis
    if rng.random() < 0.3:
        return UVAxis(*rng.choice([(1, 0, 0), (0, 1, 0), (0, 0, -1), (0, -1, 0)]), rng.choice([0, 16, -32.5]), 0.25)
    return UVAxis(gen_float(rng), gen_float(rng), gen_float(rng), gen_float(rng),
                  rng.choice([0.25, 1.0, 0.125, 1e-7, gen_float(rng)]))


def gen_vec4(rng: random.Random, nonzero: bool = False):
    from srctools.vmf import Vec4
    vals = [rng.choice([0.0, 1.0, 0.5, rng.random(), gen_float(rng)]) for _ in range(4)]
    if nonzero and not any(vals):
        vals[rng.randrange(4)] = 0.75
    return Vec4(*vals)


def fill_disp(rng: random.Random, side, multiblend: Optional[bool] = None) -> None:
    """Give a displacement face (made with Side(..., disp_power=N)) arbitrary vertex data."""
    from array import array
    from srctools.vmf import DispFlag, TriangleTag
    side.disp_pos = gen_vec(rng)
    side.disp_elevation = rng.choice([0.0, 0.0, 1.5, gen_float(rng)])
    flags = DispFlag(0)
    for flag in (DispFlag.COLL_PHYSICS, DispFlag.COLL_PLAYER_NPC, DispFlag.COLL_BULLET, DispFlag.SUBDIV):
        if rng.random() < 0.5:
            flags |= flag
    side.disp_flags = flags
    side.disp_allowed_vert = array('i', [
        rng.choice([-1, -1, 0, 2 ** 31 - 1, -2 ** 31, rng.randint(-2 ** 31, 2 ** 31 - 1)]) for _ in range(10)
    ])
    if multiblend is None:
        multiblend = rng.random() < 0.35
    sparse = rng.random() < 0.5  # most vertices untouched
    colors = multiblend and rng.random() < 0.7
    tags = [TriangleTag.STEEP, TriangleTag.WALKABLE, TriangleTag.BUILDABLE]
    size = side.disp_size
    verts = [side[x, y] for y in range(size) for x in range(size)]
    for vert in verts:
        if colors:
            vert.multi_colors = [gen_vec(rng) if rng.random() < 0.3 else _vec(1, 1, 1) for _ in range(4)]
        if sparse and rng.random() < 0.7:
            continue
        vert.normal = gen_vec(rng)
        vert.distance = gen_float(rng)
        vert.offset = gen_vec(rng)
        vert.offset_norm = gen_vec(rng)
        vert.alpha = rng.choice([0.0, 255.0, gen_float(rng)])
        vert.triangle_a = rng.choice(tags)
        vert.triangle_b = rng.choice(tags)
        if multiblend:
            vert.multi_blend = gen_vec4(rng)
            vert.multi_alpha = gen_vec4(rng)
    if multiblend and not any(vert.multi_blend for vert in verts):
        # All-zero multi_blend means "no multiblend" to the exporter; keep the data representable.
        rng.choice(verts).multi_blend = gen_vec4(rng, nonzero=True)


def _vec(x: float, y: float, z: float):
    from srctools.math import Vec
    return Vec(x, y, z)


def gen_side(rng: random.Random, vmf, des_id: int = -1, disp: Optional[int] = None):
    from srctools.vmf import Side
    if disp is None:
        disp = rng.choice([1, 1, 1, 2, 2, 3, 4]) if rng.random() < 0.25 else 0
    mat = rng.choice(['tools/toolsnodraw', 'BRICK/brickwall001a', 'dev/dev_measuregeneric01', ''])
    r = rng.random()
    if r < 0.06:
        mat = gen_text(rng, 1.0, minlen=1)  # quotes, backslashes, newlines ...
    elif r < 0.2:
        mat = gen_text(rng, 0.0)
    side = Side(
        vmf, [gen_vec(rng), gen_vec(rng), gen_vec(rng)], des_id,
        lightmap=rng.choice([16, 16, 1, 32, rng.randint(-2, 256)]),
        smoothing=rng.choice([0, 0, 1, 2 ** 31, rng.randrange(2 ** 16)]),
        mat=mat,
        rotation=rng.choice([0, 0.0, 90.0, 45.5, 123456.789, 1e-7, -33.3333333, gen_float(rng)]),
        uaxis=gen_uvaxis(rng), vaxis=gen_uvaxis(rng),
        disp_power=disp,
    )
    if disp:
        fill_disp(rng, side)
    if rng.random() < 0.15:
        side.strata_points = [gen_vec(rng) for _ in range(rng.choice([0, 3, 4, 5]))]
    return side


def gen_solid(rng: random.Random, vmf, ctx: dict, in_entity: bool):
    from srctools.vmf import Solid
    des_id = -1
    if ctx['dup'] and ctx['solid_ids'] and rng.random() < 0.5:
        des_id = rng.choice(ctx['solid_ids'])
    if rng.random() < 0.45:
        p1 = gen_vec(rng)
        p2 = p1 + _vec(*(rng.choice([1, -1]) * rng.choice([1.0, 64.0, 0.5, 128.25]) for _ in range(3)))
        prism = vmf.make_prism(p1, p2, mat=rng.choice(['tools/toolsnodraw', 'a/b c', gen_text(rng, 0.0)]),
                               set_points=rng.random() < 0.3)
        solid = prism.solid
        if des_id != -1:
            solid.id = vmf.solid_id.get_id(des_id)
        if rng.random() < 0.3:
            side = gen_side(rng, vmf, disp=rng.choice([1, 2, 2, 3, 4]))
            solid.sides[rng.randrange(6)] = side
    else:
        sides = []
        for _ in range(rng.choice([0, 1, 2, 4])):
            face_id = -1
            if ctx['dup'] and ctx['face_ids'] and rng.random() < 0.5:
                face_id = rng.choice(ctx['face_ids'])
            sides.append(gen_side(rng, vmf, face_id))
        solid = Solid(vmf, des_id, sides)
    ctx['solid_ids'].append(solid.id)
    ctx['face_ids'].extend(side.id for side in solid.sides)
    solid.hidden = rng.random() < 0.25
    solid.vis_shown = rng.random() < 0.7
    solid.vis_auto_shown = rng.random() < 0.7
    solid.is_cordon = rng.random() < 0.15
    solid.editor_color = gen_color(rng)
    if not in_entity:
        # Not allowed inside brush entities (Solid.export docstring).
        if ctx['vis_ids'] and rng.random() < 0.5:
            solid.visgroup_ids = set(rng.sample(ctx['vis_ids'], rng.randint(1, min(3, len(ctx['vis_ids'])))))
        elif rng.random() < 0.08:
            solid.visgroup_ids = {rng.randint(50, 60)}  # dangling reference
        if ctx['group_ids'] and rng.random() < 0.5:
            solid.group_id = rng.choice(ctx['group_ids'])
    return solid


def gen_keys(rng: random.Random, ent, count: int) -> None:
    used = {k.casefold() for k in ent}
    stock = ['targetname', 'origin', 'angles', 'model', 'spawnflags', 'message', 'rendercolor', 'Skin', 'solid',
             'editor', 'connections', 'hidden', 'group', 'file']
    for _ in range(count):
        r = rng.random()
        if r < 0.55:
            key = rng.choice(stock)
        elif r < 0.9:
            key = gen_ident(rng)
        else:
            # Sometimes quotes / backslashes / tabs in the key itself. No newlines: Keyvalues.parse() rejects them in
            # names by default (newline_keys=False), whatever the writer does.
            key = _strip(gen_text(rng, 0.6), '\n\r')
        if not _key_ok(key, used):
            continue
        used.add(key.casefold())
        r = rng.random()
        if r < 0.6:
            ent[key] = gen_text(rng, 0.6, maxlen=12)
        elif r < 0.7:
            ent[key] = gen_vec(rng)
        elif r < 0.8:
            ent[key] = gen_float(rng)
        elif r < 0.9:
            ent[key] = rng.randint(-5, 4096)
        else:
            ent[key] = rng.random() < 0.5


def gen_fixups(rng: random.Random, ent) -> None:
    from srctools.vmf import EntityFixup, FixupValue
    r = rng.random()
    if r < 0.6:
        count = rng.randint(1, 4)
    elif r < 0.85:
        count = rng.randint(10, 14)
    else:
        count = rng.randint(100, 104)
    names: set = set()
    for i in range(count):
        name = gen_ident(rng) + str(i)
        if rng.random() < 0.04:
            name = _strip(gen_text(rng, 1.0, minlen=1), ' $') or 'q'  # quotes etc. in the variable name
        if name.casefold() in names:
            continue
        names.add(name.casefold())
        ent.fixup[('$' if rng.random() < 0.5 else '') + name] = gen_text(rng, 0.5, maxlen=10)
    if rng.random() < 0.25:
        # Explicit, non-contiguous replaceNN indexes (as read from a file where some were deleted).
        vals = ent.fixup.copy_values()
        idx = rng.sample(range(1, 140), len(vals)) if len(vals) < 100 else rng.sample(range(1, 400), len(vals))
        ent._fixup = EntityFixup([FixupValue(v.var, v.value, i) for v, i in zip(vals, idx)])


def gen_entity(rng: random.Random, vmf, ctx: dict):
    from srctools.vmf import Entity
    ent_id = -1
    if ctx['dup'] and ctx['ent_ids'] and rng.random() < 0.5:
        ent_id = rng.choice(ctx['ent_ids'])
    brush = rng.random() < 0.3
    solids = [gen_solid(rng, vmf, ctx, True) for _ in range(rng.choice([1, 1, 2]))] if brush else []
    groups: List[int] = []
    vis: List[int] = []
    if ctx['group_ids'] and rng.random() < 0.4:
        groups = rng.sample(ctx['group_ids'], rng.randint(1, len(ctx['group_ids'])))
    if ctx['vis_ids'] and rng.random() < 0.4:
        vis = rng.sample(ctx['vis_ids'], rng.randint(1, min(3, len(ctx['vis_ids']))))
    logical = None
    r = rng.random()
    if r < 0.3:
        logical = f'[{rng.randint(-5000, 5000)} {rng.randint(-5000, 5000)}]'
    elif r < 0.36:
        logical = gen_text(rng, 1.0, minlen=1)
    ent = Entity(
        vmf,
        keys={'classname': rng.choice(['info_target', 'func_brush', 'logic_relay', 'func_instance',
                                       'prop_static', gen_text(rng, 0.3, minlen=1)])},
        ent_id=ent_id,
        outputs=[gen_output(rng) for _ in range(rng.choice([0, 0, 1, 2, 4]))],
        solids=solids,
        hidden=rng.random() < 0.2,
        groups=groups,
        vis_ids=vis,
        vis_shown=rng.random() < 0.7,
        vis_auto_shown=rng.random() < 0.7,
        logical_pos=logical,
        editor_color=gen_color(rng),
        comments=gen_text(rng, 0.7, maxlen=20) if rng.random() < 0.4 else '',
    )
    gen_keys(rng, ent, rng.choice([0, 1, 2, 3, 6]))
    if rng.random() < 0.35:
        gen_fixups(rng, ent)
    ctx['ent_ids'].append(ent.id)
    vmf.add_ent(ent)
    return ent


def gen_visgroup(rng: random.Random, vmf, ctx: dict, depth: int):
    from srctools.vmf import VisGroup
    children = []
    if depth < 3:
        children = [gen_visgroup(rng, vmf, ctx, depth + 1) for _ in range(rng.choice([0, 0, 0, 1, 2]))]
    vis = VisGroup(vmf, gen_text(rng, 0.5), -1, gen_color(rng), children)
    ctx['vis_ids'].append(vis.id)
    return vis


def gen_viewports(rng: random.Random) -> list:
    from srctools.math import Angle
    from srctools.vmf import Strata2DViewport, Strata3DViewport

    def coord() -> float:
        val = rng.choice([0.0, 0.0, 128.0, -512.5, gen_float(rng)])
        return 1.0 if abs(val) == 65536.0 else val  # +-65536 is the file's marker for the view axis

    ports: list = []
    for axis in rng.choice(['3xyz', '3xyz', 'xyz3', 'zzyx', '33xy']):
        if axis == '3':
            ports.append(Strata3DViewport(gen_vec(rng), Angle(
                rng.uniform(-89, 89), rng.choice([0.0, 359.5, rng.uniform(0, 359)]), rng.choice([0.0, 12.5]),
            )))
        else:
            ports.append(Strata2DViewport(axis, coord(), coord(), rng.choice([1.0, 0.25, 2.0, abs(gen_float(rng)) + 0.001])))
    return ports


def gen_map(rng: random.Random):
    """A small arbitrary map: 0..4 entities, 0..3 world brushes, sometimes displacements, groups, visgroups,
    cameras, cordons, Strata viewports; sometimes built with preserve_ids=True and duplicate IDs."""
    from srctools.vmf import VMF, Camera, Cordon, EntityGroup, StrataInstanceVisibility
    dup = rng.random() < 0.15
    vmf = VMF(
        preserve_ids=dup,
        hammer_version=rng.choice([400, 400, rng.randint(0, 1000)]),
        hammer_build=rng.choice([5304, 8864, rng.randint(0, 100000)]),
        is_prefab=rng.random() < 0.3,
        cordon_enabled=rng.random() < 0.5,
        map_version=rng.choice([0, 1, rng.randint(0, 10000)]),
        show_grid=rng.random() < 0.5,
        show_3d_grid=rng.random() < 0.5,
        snap_grid=rng.random() < 0.5,
        show_logic_grid=rng.random() < 0.5,
        grid_spacing=rng.choice([64, 1, 16, 512, rng.randint(-1, 1024)]),
        active_cam=rng.choice([-1, 0, 1, 2]),
        quickhide_count=rng.choice([0, 0, 0, 2, 17]),
        strata_inst_visibility=rng.choice([None, None, *StrataInstanceVisibility]),
    )
    # half of the maps set the plain settings as attributes after construction (the other public way to build a map):
    # a constructor that mangles a value would otherwise mangle the original and the re-parsed map alike
    if rng.random() < 0.5:
        vmf.active_cam = rng.choice([-1, 0, 0, 1, 2])
        vmf.grid_spacing = rng.choice([64, 0, 1, 512])
        vmf.hammer_ver = rng.choice([400, 0, 7])
        vmf.hammer_build = rng.choice([8864, 0, 1])
        vmf.map_ver = rng.choice([0, 1, 5])
        vmf.quickhide_count = rng.choice([0, 0, 3])
        vmf.is_prefab = rng.random() < 0.3
        vmf.cordon_enabled = rng.random() < 0.5
        vmf.show_grid = rng.random() < 0.5
        vmf.snap_grid = rng.random() < 0.5
        vmf.show_3d_grid = rng.random() < 0.5
        vmf.show_logic_grid = rng.random() < 0.5
    ctx = {'dup': dup, 'vis_ids': [], 'group_ids': [], 'ent_ids': [vmf.spawn.id], 'solid_ids': [], 'face_ids': []}
    if rng.random() < 0.5:
        for _ in range(rng.randint(1, 3)):
            vmf.vis_tree.append(gen_visgroup(rng, vmf, ctx, 0))
    if rng.random() < 0.4:
        for _ in range(rng.randint(1, 2)):
            grp = EntityGroup(vmf, -1, rng.random() < 0.6, rng.random() < 0.6, gen_color(rng))
            vmf.groups[grp.id] = grp
            ctx['group_ids'].append(grp.id)
    for _ in range(rng.choice([0, 1, 1, 2, 3])):
        vmf.add_brush(gen_solid(rng, vmf, ctx, False))
    gen_keys(rng, vmf.spawn, rng.choice([0, 0, 1, 3]))
    if rng.random() < 0.2:
        vmf.spawn.comments = gen_text(rng, 0.7, maxlen=20)
    if rng.random() < 0.3:
        vmf.spawn.editor_color = gen_color(rng)
    if rng.random() < 0.1:
        vmf.spawn.outputs.append(gen_output(rng))
    for _ in range(rng.choice([0, 1, 2, 3, 4])):
        gen_entity(rng, vmf, ctx)
    for _ in range(rng.choice([0, 0, 1, 2])):
        Camera(vmf, gen_vec(rng), gen_vec(rng))
    for _ in range(rng.choice([0, 0, 1, 2])):
        Cordon(vmf, gen_vec(rng), gen_vec(rng), rng.random() < 0.5, gen_text(rng, 0.5))
    if rng.random() < 0.2:
        vmf.strata_viewports = gen_viewports(rng)
    return vmf


# ------------------------------------------------------------------------------------------------------ dump

def _v3(vec: Any) -> Optional[Tuple[float, float, float]]:
    return None if vec is None else (vec.x, vec.y, vec.z)


def _v4(vec: Any) -> Tuple[float, float, float, float]:
    return (vec.x, vec.y, vec.z, vec.w)


class _IdMaps:
    """with_ids=False: every object's own ID becomes its ordinal in traversal order (per ID space); references to
    group / visgroup IDs are resolved to the ordinal of the first object carrying that ID."""
    def __init__(self, vmf: Any, with_ids: bool) -> None:
        self.with_ids = with_ids
        self.counters = {'ent': 0, 'solid': 0, 'face': 0}
        self.vis: dict = {}
        self.group: dict = {}
        if not with_ids:
            def walk(groups: list) -> None:
                for vis in groups:
                    self.vis.setdefault(vis.id, len(self.vis_list))
                    self.vis_list.append(vis)
                    walk(vis.child_groups)
            self.vis_list: list = []
            walk(vmf.vis_tree)
            for i, grp in enumerate(vmf.groups.values()):
                self.group.setdefault(grp.id, i)

    def own(self, space: str, ident: int) -> int:
        if self.with_ids:
            return ident
        self.counters[space] += 1
        return self.counters[space] - 1

    def ref(self, table: dict, ident: Any) -> Any:
        if self.with_ids:
            return ident
        return table[ident] if ident in table else ('unresolved', ident)


def _dump_side(side: Any, ids: _IdMaps) -> dict:
    disp = None
    if side.disp_power > 0:
        verts = []
        for vert in side._disp_verts:
            verts.append({
                'x': vert.x, 'y': vert.y,
                'normal': _v3(vert.normal), 'distance': vert.distance, 'offset': _v3(vert.offset),
                'offset_norm': _v3(vert.offset_norm), 'alpha': vert.alpha,
                'triangle_a': vert.triangle_a.value, 'triangle_b': vert.triangle_b.value,
                'multi_blend': _v4(vert.multi_blend), 'multi_alpha': _v4(vert.multi_alpha),
                'multi_colors': None if vert.multi_colors is None else [_v3(c) for c in vert.multi_colors],
            })
        disp = {
            'power': side.disp_power, 'pos': _v3(side.disp_pos), 'elevation': side.disp_elevation,
            'flags': side.disp_flags.value,
            'allowed_vert': None if side.disp_allowed_vert is None else list(side.disp_allowed_vert),
            'verts': verts,
        }
    return {
        'id': ids.own('face', side.id),
        'planes': [_v3(p) for p in side.planes],
        'lightmap': side.lightmap, 'smooth': side.smooth, 'mat': side.mat, 'ham_rot': side.ham_rot,
        'uaxis': (side.uaxis.x, side.uaxis.y, side.uaxis.z, side.uaxis.offset, side.uaxis.scale),
        'vaxis': (side.vaxis.x, side.vaxis.y, side.vaxis.z, side.vaxis.offset, side.vaxis.scale),
        'strata_points': None if side.strata_points is None else [_v3(p) for p in side.strata_points],
        'disp': disp,
    }


def _dump_solid(solid: Any, ids: _IdMaps) -> dict:
    return {
        'id': ids.own('solid', solid.id),
        'sides': [_dump_side(side, ids) for side in solid.sides],
        'visgroup_ids': sorted((ids.ref(ids.vis, i) for i in solid.visgroup_ids), key=repr),
        'hidden': solid.hidden,
        'group_id': None if solid.group_id is None else ids.ref(ids.group, solid.group_id),
        'vis_shown': solid.vis_shown, 'vis_auto_shown': solid.vis_auto_shown,
        'is_cordon': solid.is_cordon, 'editor_color': _v3(solid.editor_color),
    }


def _dump_output(out: Any) -> dict:
    return {
        'output': out.output, 'inst_out': out.inst_out, 'target': out.target, 'input': out.input,
        'inst_in': out.inst_in, 'params': out.params, 'delay': out.delay, 'times': out.times,
        'comma_sep': out.comma_sep,
    }


def _dump_entity(ent: Any, ids: _IdMaps) -> dict:
    fixups = []
    if ent._fixup is not None:
        fixups = sorted(((fix.id, fix.var, fix.value) for fix in ent._fixup._fixup.values()), key=lambda t: t[0])
    return {
        'id': ids.own('ent', ent.id),
        'keys': {key: ent[key] for key in ent},
        'fixups': {var: {'index': i, 'value': val} for i, var, val in fixups},
        'outputs': [_dump_output(out) for out in ent.outputs],
        'solids': [_dump_solid(solid, ids) for solid in ent.solids],
        'hidden': ent.hidden,
        'groups': sorted((ids.ref(ids.group, i) for i in ent.groups), key=repr),
        'visgroup_ids': sorted((ids.ref(ids.vis, i) for i in ent.visgroup_ids), key=repr),
        'vis_shown': ent.vis_shown, 'vis_auto_shown': ent.vis_auto_shown,
        'editor_color': _v3(ent.editor_color), 'logical_pos': ent.logical_pos, 'comments': ent.comments,
    }


def _dump_view(port: Any) -> dict:
    if hasattr(port, 'axis'):
        return {'kind': '2d', 'axis': port.axis, 'u': port.u, 'v': port.v, 'zoom': port.zoom}
    ang = port.angle
    return {'kind': '3d', 'position': _v3(port.position), 'angle': (ang.pitch, ang.yaw, ang.roll)}


def dump_map(vmf: Any, with_ids: bool) -> dict:
    """Field-wise dump (plain dicts / lists / tuples / scalars) of everything a VMF stores."""
    ids = _IdMaps(vmf, with_ids)
    vis_counter = [0]

    def dump_vis(vis: Any) -> dict:
        ident = vis.id
        if not with_ids:
            ident = vis_counter[0]
            vis_counter[0] += 1
        return {'name': vis.name, 'id': ident, 'color': _v3(vis.color),
                'children': [dump_vis(child) for child in vis.child_groups]}

    viewports = getattr(vmf, 'strata_viewports', None)
    inst_vis = getattr(vmf, 'strata_instance_vis', None)
    return {
        'header': {
            'format_ver': vmf.format_ver, 'hammer_ver': vmf.hammer_ver, 'hammer_build': vmf.hammer_build,
            'map_ver': vmf.map_ver, 'is_prefab': vmf.is_prefab,
        },
        'view': {
            'snap_grid': vmf.snap_grid, 'show_grid': vmf.show_grid, 'show_logic_grid': vmf.show_logic_grid,
            'grid_spacing': vmf.grid_spacing, 'show_3d_grid': vmf.show_3d_grid,
            'strata_instance_vis': None if inst_vis is None else inst_vis.value,
            'strata_viewports': None if viewports is None else [_dump_view(port) for port in viewports],
        },
        'visgroups': [dump_vis(vis) for vis in vmf.vis_tree],
        'cameras': {'active_cam': vmf.active_cam,
                    'list': [{'pos': _v3(cam.pos), 'target': _v3(cam.target)} for cam in vmf.cameras]},
        'cordons': {'enabled': vmf.cordon_enabled,
                    'list': [{'name': c.name, 'active': c.active, 'min': _v3(c.bounds_min), 'max': _v3(c.bounds_max)}
                             for c in vmf.cordons]},
        'quickhide_count': vmf.quickhide_count,
        'groups': [{'id': i if not with_ids else grp.id, 'shown': grp.shown, 'auto_shown': grp.auto_shown,
                    'color': _v3(grp.color)} for i, grp in enumerate(vmf.groups.values())],
        'world': _dump_entity(vmf.spawn, ids),
        'entities': [_dump_entity(ent, ids) for ent in vmf.entities],
    }


# ---------------------------------------------------------------------------------------------------- oracle

_VIEW_DEFAULTS = {
    'snap_grid': True, 'show_grid': True, 'show_logic_grid': False, 'grid_spacing': 64, 'show_3d_grid': False,
    'strata_instance_vis': None, 'strata_viewports': None,
}
_SIG6 = {'ham_rot', 'delay', 'multi_blend', 'multi_alpha'}
_TOL = {**{k: 'sig6' for k in _SIG6}, 'angle': 'angle'}


def _normalise(dump: dict, expected: bool, minimal: bool, disp_multiblend: bool) -> dict:
    """Apply the by-design losses (module docstring). `expected` is True for the dump of the original map."""
    world = dump['world']
    for field in ('hidden', 'groups', 'visgroup_ids', 'vis_shown', 'vis_auto_shown', 'logical_pos'):
        world.pop(field, None)
    for key in list(world['keys']):
        if key.casefold() == 'mapversion':
            del world['keys'][key]
    for ent in dump['entities']:
        for solid in ent['solids']:
            solid.pop('group_id', None)
            solid.pop('visgroup_ids', None)
    for ent in [world, *dump['entities']]:
        for out in ent['outputs']:
            out['inst_in'] = out['inst_in'] or None
            out['inst_out'] = out['inst_out'] or None
        for solid in ent['solids']:
            for side in solid['sides']:
                disp = side['disp']
                if disp is None:
                    continue
                last = 2 ** disp['power']
                has_blend = disp_multiblend and any(any(v['multi_blend']) for v in disp['verts'])
                for vert in disp['verts']:
                    if vert['x'] == last or vert['y'] == last:
                        vert.pop('triangle_a', None)
                        vert.pop('triangle_b', None)
                    if not expected:
                        continue
                    if not has_blend:
                        vert['multi_blend'] = vert['multi_alpha'] = (0.0, 0.0, 0.0, 0.0)
                        vert['multi_colors'] = None
                    elif vert['multi_colors'] is None:
                        vert['multi_colors'] = [(1.0, 1.0, 1.0)] * 4
    if expected:
        if minimal:
            dump['view'] = dict(_VIEW_DEFAULTS)
            dump['cameras'] = {'active_cam': -1, 'list': []}
            dump['cordons'] = {'enabled': False, 'list': []}
        if not dump['cameras']['list']:
            dump['cameras']['active_cam'] = -1
        if not dump['cordons']['list']:
            dump['cordons']['enabled'] = False
        if dump['quickhide_count'] <= 0:
            dump['quickhide_count'] = 0
    return dump


def _num(val: Any) -> bool:
    return isinstance(val, (int, float)) and not isinstance(val, bool)


def _close(exp: float, got: float, tol: str) -> bool:
    if exp == got:
        return True
    if math.isnan(exp) or math.isnan(got) or math.isinf(exp) or math.isinf(got):
        return False
    diff = abs(exp - got)
    if tol == 'sig6':
        return diff <= 5.0000001e-6 * max(abs(exp), abs(got)) or diff <= 1e-300
    if tol == 'angle':
        diff = min(diff, abs(360.0 - diff))
    # "within 5e-7": the exported text has 6 decimals, i.e. an error of at most 5e-7 in exact arithmetic; the double
    # nearest to that text, and the subtraction itself, add a few units in the last place of the value
    return diff <= 5e-7 + 4 * math.ulp(max(abs(exp), abs(got), 1.0))


def _short(val: Any) -> str:
    text = repr(val)
    return text if len(text) <= 60 else text[:57] + '...'


def _diff(exp: Any, got: Any, path: str, sig: str, tol: str, out: list, limit: int) -> None:
    """Collect (signature, message) pairs for every difference between two dumps."""
    if len(out) >= limit:
        return
    if isinstance(exp, dict) and isinstance(got, dict):
        free = path.endswith(('.keys', '.fixups'))
        for key in exp:
            sub = f'{path}[{key!r}]' if free else f'{path}.{key}'
            subsig = f'{sig}[*]' if free else f'{sig}.{key}'
            if key not in got:
                out.append((subsig + ':missing', f'{sub}: missing, expected {_short(exp[key])}'))
            else:
                _diff(exp[key], got[key], sub, subsig, _TOL.get(key, tol) if not free else tol, out, limit)
        for key in got:
            if key not in exp:
                sub = f'{path}[{key!r}]' if free else f'{path}.{key}'
                out.append(((f'{sig}[*]' if free else f'{sig}.{key}') + ':extra', f'{sub}: unexpected {_short(got[key])}'))
    elif isinstance(exp, (list, tuple)) and isinstance(got, (list, tuple)):
        if len(exp) != len(got):
            out.append((sig + ':len', f'{path}: {len(exp)} items expected, got {len(got)}: {_short(exp)} vs {_short(got)}'))
            return
        for i, (sub_exp, sub_got) in enumerate(zip(exp, got)):
            _diff(sub_exp, sub_got, f'{path}[{i}]', f'{sig}[*]', tol, out, limit)
    elif _num(exp) and _num(got):
        if not _close(exp, got, tol):
            out.append((sig, f'{path}: expected {exp!r}, got {got!r} (tolerance {tol})'))
    elif type(exp) is not type(got) or exp != got:
        out.append((sig, f'{path}: expected {_short(exp)}, got {_short(got)}'))


_ID_LINE = re.compile(r'^(\s*"id" )"-?\d+"$', re.MULTILINE)


def _text_diff(first: str, second: str) -> str:
    lines_a = first.split('\n')
    lines_b = second.split('\n')
    for i, (line_a, line_b) in enumerate(zip(lines_a, lines_b)):
        if line_a != line_b:
            return f'line {i + 1}: {_short(line_a.strip())} became {_short(line_b.strip())}'
    return f'{len(lines_a)} lines became {len(lines_b)}'


def _unescaped_fields(vmf: Any) -> list:
    """Diagnosis only: which kinds of field that Entity/Side.export write verbatim hold characters needing an escape."""
    from srctools.keyvalues import escape_text
    found = set()
    for ent in [vmf.spawn, *vmf.entities]:
        if any(escape_text(key) != key for key in ent):
            found.add('entity key')
        if ent is not vmf.spawn and escape_text(ent.logical_pos) != ent.logical_pos:
            found.add('logical_pos')
        if ent._fixup is not None and any(escape_text(fix.var) != fix.var for fix in ent._fixup._fixup.values()):
            found.add('fixup variable name')
        for solid in ent.solids:
            if any(escape_text(side.mat) != side.mat for side in solid.sides):
                found.add('material')
    return sorted(found)


def _parse(text: str, preserve_ids: bool) -> Any:
    from srctools.keyvalues import Keyvalues
    from srctools.vmf import VMF
    return VMF.parse(Keyvalues.parse(text), preserve_ids=preserve_ids)


def roundtrip_diffs(vmf: Any, minimal: bool, disp_multiblend: bool, preserve_ids: bool, limit: int = 40) -> list:
    """All differences as (signature, one-line message) pairs; an exception is a single pair."""
    out: list = []
    stage = 'dump'
    try:
        expected = _normalise(dump_map(vmf, preserve_ids), True, minimal, disp_multiblend)
        stage = 'export'
        text = vmf.export(inc_version=False, minimal=minimal, disp_multiblend=disp_multiblend)
        stage = 'parse'
        parsed = _parse(text, preserve_ids)
        stage = 'dump of re-parsed map'
        got = _normalise(dump_map(parsed, preserve_ids), False, minimal, disp_multiblend)
        stage = 're-export'
        text2 = parsed.export(inc_version=False, minimal=minimal, disp_multiblend=disp_multiblend)
    except Exception as exc:
        msg = ' '.join(str(exc).split())
        suspects = _unescaped_fields(vmf) if stage == 'parse' and 'KeyValError' in type(exc).__name__ else []
        if suspects:
            sig = 'text broken by unescaped ' + ' / '.join(suspects)
        else:
            sig = re.sub(r'\d+', 'N', msg.split('"')[0])[:70]
        return [(f'{stage}: {type(exc).__name__}: {sig}', f'{type(exc).__name__}: {msg[:200]} (during {stage})')]

    # Hidden entities are read after all visible ones; report that once, then compare in the order the parser uses.
    flags = [bool(ent.hidden) for ent in vmf.entities]
    if flags != sorted(flags) and [ent['hidden'] for ent in got['entities']] == sorted(flags):
        out.append(('entities:order', 'entities: order changed, hidden entities moved behind the visible ones'))
        original = vmf.entities[:]
        vmf.entities[:] = [e for e in original if not e.hidden] + [e for e in original if e.hidden]
        try:
            expected = _normalise(dump_map(vmf, preserve_ids), True, minimal, disp_multiblend)
        finally:
            vmf.entities[:] = original
    _diff(expected, got, 'map', 'map', 'abs', out, limit)

    if text != text2:
        if preserve_ids or _ID_LINE.sub(r'\1"#"', text) != _ID_LINE.sub(r'\1"#"', text2):
            masked = (text, text2) if preserve_ids else (_ID_LINE.sub(r'\1"#"', text), _ID_LINE.sub(r'\1"#"', text2))
            detail = _text_diff(*masked)
            if not (out and out[0][0] == 'entities:order'):
                out.append(('text:not a fixed point', f'second export differs: {detail}'))
            elif len(masked[0]) != len(masked[1]) or sorted(masked[0].split('\n')) != sorted(masked[1].split('\n')):
                out.append(('text:not a fixed point', f'second export differs (beyond entity order): {detail}'))
    return out


def check_roundtrip(vmf: Any, minimal: bool = False, disp_multiblend: bool = True, preserve_ids: bool = True) -> Optional[str]:
    """export -> parse -> export: None if the text is a fixed point and the re-parsed map dumps like the original,
    otherwise a one-line description of the first difference (or 'ExceptionType: message')."""
    diffs = roundtrip_diffs(vmf, minimal, disp_multiblend, preserve_ids, limit=1)
    return diffs[0][1] if diffs else None


# ------------------------------------------------------------------------------------------ targeted corner cases

def _new():
    from srctools.vmf import VMF
    return VMF()


def _ent(vmf: Any, **keys: Any):
    return vmf.create_ent('info_target', **keys)


def _t_key(key: str) -> Callable[[], Any]:
    def make():
        vmf = _new()
        _ent(vmf)[key] = 'value'
        return vmf
    return make


def _t_value(value: str) -> Callable[[], Any]:
    def make():
        vmf = _new()
        _ent(vmf, message=value)
        vmf.spawn['skyname'] = value
        return vmf
    return make


def _t_material(mat: str) -> Callable[[], Any]:
    def make():
        vmf = _new()
        vmf.add_brush(vmf.make_prism(_vec(0, 0, 0), _vec(64, 64, 64), mat=mat))
        return vmf
    return make


def _t_logicalpos():
    vmf = _new()
    _ent(vmf).logical_pos = '[0 "500"] \\n'
    return vmf


def _t_comments():
    vmf = _new()
    _ent(vmf).comments = 'line one\nline "two"\twith \\ backslash {and braces}'
    vmf.spawn.comments = 'world\ncomment'
    return vmf


def _t_output(**kw: Any) -> Callable[[], Any]:
    def make():
        from srctools.vmf import Output
        vmf = _new()
        args = {'out': 'OnTrigger', 'targ': 'relay', 'inp': 'Trigger', 'param': '', 'delay': 0.0}
        args.update(kw)
        _ent(vmf).add_out(Output(args.pop('out'), args.pop('targ'), args.pop('inp'), args.pop('param'),
                                 args.pop('delay'), **args))
        return vmf
    return make


def _t_fixups(count: int) -> Callable[[], Any]:
    def make():
        vmf = _new()
        ent = vmf.create_ent('func_instance', file='inst.vmf')
        for i in range(count):
            ent.fixup[f'$var{i}'] = f'value {i}'
        return vmf
    return make


def _t_fixup_indexes(*indexes: int) -> Callable[[], Any]:
    def make():
        from srctools.vmf import Entity, FixupValue
        vmf = _new()
        ent = Entity(vmf, {'classname': 'func_instance'},
                     fixup=[FixupValue(f'var{i}', f'val {i}', i) for i in indexes])
        vmf.add_ent(ent)
        return vmf
    return make


def _t_fixup_text(var: str, value: str) -> Callable[[], Any]:
    def make():
        vmf = _new()
        vmf.create_ent('func_instance').fixup[var] = value
        return vmf
    return make


def _disp_map(power: int, filler: Optional[Callable[[Any], None]] = None, seed: Optional[int] = None):
    from srctools.vmf import Side, Solid
    vmf = _new()
    side = Side(vmf, [_vec(0, 0, 0), _vec(64, 0, 0), _vec(64, 64, 0)], disp_power=power)
    if seed is not None:
        fill_disp(random.Random(seed), side, multiblend=False)
    if filler is not None:
        filler(side)
    vmf.add_brush(Solid(vmf, sides=[side]))
    return vmf


def _t_disp_plain(power: int) -> Callable[[], Any]:
    return lambda: _disp_map(power)


def _t_disp_data(power: int) -> Callable[[], Any]:
    return lambda: _disp_map(power, seed=power)


def _t_disp_tags():
    from srctools.vmf import TriangleTag

    def fill(side: Any) -> None:
        tags = [TriangleTag.STEEP, TriangleTag.WALKABLE, TriangleTag.BUILDABLE]
        for y in range(17):
            for x in range(17):
                side[x, y].triangle_a = tags[(x + y) % 3]
                side[x, y].triangle_b = tags[(x * 2 + y) % 3]
    return _disp_map(4, fill)


def _t_disp_multiblend(colors: bool) -> Callable[[], Any]:
    def make():
        from srctools.vmf import Vec4

        def fill(side: Any) -> None:
            for y in range(3):
                for x in range(3):
                    vert = side[x, y]
                    vert.multi_blend = Vec4(0.25 * x, 1.0, 0.0, 1 / 3)
                    vert.multi_alpha = Vec4(1.0, 0.5 * y, 123456.789, 0.0)
                    if colors:
                        vert.multi_colors = [_vec(1, 0.5, 0.25), _vec(0, 0, 0), _vec(1, 1, 1), _vec(x, y, 0.1)]
        return _disp_map(1, fill)
    return make


def _t_disp_multiblend_only_w():
    from srctools.vmf import Vec4

    def fill(side: Any) -> None:
        for y in range(3):
            for x in range(3):
                vert = side[x, y]
                vert.multi_blend = Vec4(0.0, 0.0, 0.0, 0.5)       # only the fourth blend texture is painted
                vert.multi_alpha = Vec4(0.0, 0.0, 0.0, 1.0)
    return _disp_map(1, fill)


def _t_active_camera_zero():
    from srctools.vmf import Camera
    from srctools.math import Vec
    vmf = _new()
    Camera(vmf, Vec(0, 0, 0), Vec(64, 0, 0))
    Camera(vmf, Vec(0, 16, 0), Vec(64, 16, 0))
    vmf.active_cam = 0
    vmf.grid_spacing = 0
    return vmf


def _t_disp_flags():
    from array import array
    from srctools.vmf import DispFlag

    def fill(side: Any) -> None:
        side.disp_flags = DispFlag.COLL_BULLET | DispFlag.SUBDIV
        side.disp_elevation = 12.345678901
        side.disp_pos = _vec(1.5, -2.25, 1 / 3)
        side.disp_allowed_vert = array('i', [-1, 0, 1, 2 ** 31 - 1, -2 ** 31, 5, 6, 7, 8, 9])
    return _disp_map(2, fill)


def _t_groups():
    from srctools.vmf import EntityGroup
    vmf = _new()
    grp = EntityGroup(vmf, shown=False, auto_shown=False, color=_vec(10, 20, 30))
    vmf.groups[grp.id] = grp
    _ent(vmf).groups.add(grp.id)
    return vmf


def _t_group_brush():
    from srctools.vmf import EntityGroup
    vmf = _new()
    grp = EntityGroup(vmf, color=_vec(10, 20, 30))
    vmf.groups[grp.id] = grp
    prism = vmf.make_prism(_vec(0, 0, 0), _vec(64, 64, 64))
    prism.solid.group_id = grp.id
    vmf.add_brush(prism)
    return vmf


def _t_visgroups():
    vmf = _new()
    outer = vmf.create_visgroup('Outer "group"', (10, 20, 30))
    from srctools.vmf import VisGroup
    inner = VisGroup(vmf, 'inner\\one', -1, _vec(1, 2, 3), [VisGroup(vmf, 'leaf\nname')])
    outer.child_groups.append(inner)
    vmf.create_visgroup('second')
    prism = vmf.make_prism(_vec(0, 0, 0), _vec(64, 64, 64))
    prism.solid.visgroup_ids = {inner.id}
    prism.solid.vis_shown = False
    vmf.add_brush(prism)
    ent = _ent(vmf)
    ent.visgroup_ids = {outer.id, inner.id}
    ent.vis_shown = False
    ent.vis_auto_shown = False
    return vmf


def _t_hidden_brushes():
    vmf = _new()
    first = vmf.make_prism(_vec(0, 0, 0), _vec(64, 64, 64))
    first.solid.hidden = True
    vmf.add_brush(first)
    vmf.add_brush(vmf.make_prism(_vec(64, 0, 0), _vec(128, 64, 64)))
    ent = vmf.create_ent('func_brush')
    ent.solids.append(vmf.make_prism(_vec(0, 0, 64), _vec(64, 64, 128)).solid)
    hid = vmf.make_prism(_vec(0, 0, 128), _vec(64, 64, 192)).solid
    hid.hidden = True
    ent.solids.append(hid)
    return vmf


def _t_hidden_entities(hidden_first: bool) -> Callable[[], Any]:
    def make():
        vmf = _new()
        first = _ent(vmf, targetname='first')
        second = _ent(vmf, targetname='second')
        (first if hidden_first else second).hidden = True
        return vmf
    return make


def _t_cameras_cordons():
    from srctools.vmf import Camera, Cordon
    vmf = _new()
    Camera(vmf, _vec(1.5, 2, 3), _vec(0, 64, 1 / 3))
    Camera(vmf, _vec(-1, -2, -3), _vec(0, 0, 0)).set_active()
    Cordon(vmf, _vec(-128, -128, -128), _vec(128, 128, 128.5), True, 'main "cordon"\\')
    Cordon(vmf, _vec(0, 0, 0), _vec(1, 1, 1), False, 'second\nline')
    vmf.cordon_enabled = True
    vmf.quickhide_count = 3
    return vmf


def _t_settings():
    from srctools.vmf import VMF, StrataInstanceVisibility
    return VMF(
        hammer_version=401, hammer_build=9999, is_prefab=True, map_version=77, show_grid=False, show_3d_grid=True,
        snap_grid=False, show_logic_grid=True, grid_spacing=8, strata_inst_visibility=StrataInstanceVisibility.NORMAL,
    )


def _t_viewports(u: float, v: float) -> Callable[[], Any]:
    def make():
        from srctools.math import Angle
        from srctools.vmf import Strata2DViewport, Strata3DViewport
        vmf = _new()
        vmf.strata_viewports = [
            Strata3DViewport(_vec(1.5, -200, 300), Angle(10, 270.5, 0)),
            Strata2DViewport('x', u, v, 2.0), Strata2DViewport('y', 5.5, -6, 1.0), Strata2DViewport('z', 7, 8, 0.25),
        ]
        return vmf
    return make


def _t_strata_points():
    vmf = _new()
    vmf.add_brush(vmf.make_prism(_vec(0, 0, 0), _vec(64.5, 64, 1 / 3), set_points=True))
    return vmf


def _t_dup_ids():
    from srctools.vmf import VMF, Entity, Side, Solid
    vmf = VMF(preserve_ids=True)
    sides = [Side(vmf, [_vec(0, 0, 0), _vec(1, 0, 0), _vec(0, 1, 0)], des_id=7) for _ in range(2)]
    vmf.add_brush(Solid(vmf, 4, sides[:1]))
    vmf.add_brush(Solid(vmf, 4, sides[1:]))
    for name in 'ab':
        vmf.add_ent(Entity(vmf, {'classname': 'info_target', 'targetname': name}, ent_id=9))
    return vmf


def _t_numbers():
    from srctools.vmf import Output, Side, Solid, UVAxis
    vmf = _new()
    side = Side(
        vmf, [_vec(1e-7, -4.9e-7, 5.1e-7), _vec(123456789.123456, -1e9, 1 / 3), _vec(0.1 + 0.2, -0.0, 16384)],
        rotation=123456.789, uaxis=UVAxis(1 / 3, -2 / 3, 0.999999499, 1234567.891, 1e-7),
        vaxis=UVAxis(0.70710678118, -0.70710678118, 0, -0.0000125, 0.333333333),
    )
    vmf.add_brush(Solid(vmf, sides=[side]))
    ent = _ent(vmf)
    ent.add_out(Output('OnUser1', 't', 'FireUser1', delay=1e-7), Output('OnUser2', 't', 'FireUser2', delay=1234567.891))
    ent.editor_color = _vec(0.5, 255, 1 / 3)
    return vmf


TARGETED: List[Tuple[str, Callable[[], Any]]] = [
    ('empty_map', _new),
    ('settings', _t_settings),
    ('disp_multiblend_only_fourth_weight', _t_disp_multiblend_only_w),
    ('active_camera_zero', _t_active_camera_zero),
    ('key_with_quote', _t_key('a"b')),
    ('key_with_backslash', _t_key('path\\name')),
    ('key_with_tab', _t_key('two\twords')),
    ('key_braces', _t_key('{}')),
    ('key_empty', _t_key('')),
    ('value_quote_backslash_newline', _t_value('say "hi"\\ then\nnext\tline {x} é日本')),
    ('value_trailing_backslash', _t_value('C:\\dir\\')),
    ('material_with_backslash', _t_material('tools\\toolsnodraw')),
    ('material_with_quote', _t_material('odd"name')),
    ('logicalpos_with_quote', _t_logicalpos),
    ('comments_multiline', _t_comments),
    ('output_plain_esc', _t_output(param='1', delay=0.5, times=1)),
    ('output_plain_comma', _t_output(param='1', delay=0.5, comma_sep=True)),
    ('output_comma_in_param_comma_sep', _t_output(param='a,b,,c,', comma_sep=True)),
    ('output_commas_everywhere_esc_sep', _t_output(out='On,A', targ='t,1', inp='In,put', param='1,2,3')),
    ('output_inst_in_out', _t_output(inst_out='rl_out', inst_in='rl_in', comma_sep=True)),
    ('output_inst_esc_sep', _t_output(inst_out='a-b', inst_in='c d', param='x')),
    ('output_param_newline_quote', _t_output(param='say "x"\nnext \\ line')),
    ('output_name_with_quote', _t_output(out='On"Quote', targ='t"', inp='In\\put')),
    ('fixup_count_3', _t_fixups(3)),
    ('fixup_count_12', _t_fixups(12)),
    ('fixup_count_120', _t_fixups(120)),
    ('fixup_index_100_alone', _t_fixup_indexes(100)),
    ('fixup_index_gap_3_17_250', _t_fixup_indexes(3, 17, 250)),
    ('fixup_value_quotes_spaces', _t_fixup_text('$text', '  two  "words"\\ \n')),
    ('fixup_var_with_quote', _t_fixup_text('va"r', 'x')),
    ('disp_power_1', _t_disp_plain(1)),
    ('disp_power_2_data', _t_disp_data(2)),
    ('disp_power_3_data', _t_disp_data(3)),
    ('disp_power_4_triangle_tags', _t_disp_tags),
    ('disp_flags_allowed_verts', _t_disp_flags),
    ('disp_multiblend_colors', _t_disp_multiblend(True)),
    ('disp_multiblend_no_colors', _t_disp_multiblend(False)),
    ('entity_in_group', _t_groups),
    ('world_brush_in_group', _t_group_brush),
    ('nested_visgroups_members', _t_visgroups),
    ('hidden_brushes', _t_hidden_brushes),
    ('hidden_entity_last', _t_hidden_entities(False)),
    ('hidden_entity_first', _t_hidden_entities(True)),
    ('cameras_cordons_quickhide', _t_cameras_cordons),
    ('strata_viewports', _t_viewports(3.5, -5)),
    ('strata_viewport_at_origin', _t_viewports(0, 0)),
    ('strata_points', _t_strata_points),
    ('duplicate_ids', _t_dup_ids),
    ('numbers_tiny_large', _t_numbers),
]


def sample_files() -> List[str]:
    """The .vmf files shipped under <repo>/tests (repo root = two levels above the package's parent `src`)."""
    import os
    import srctools
    pkg = os.path.dirname(os.path.abspath(srctools.__file__))
    root = os.path.dirname(os.path.dirname(pkg))
    found = []
    for folder, _dirs, files in os.walk(os.path.join(root, 'tests')):
        found.extend(os.path.join(folder, name) for name in files if name.lower().endswith('.vmf'))
    return sorted(found)


def load_sample(path: str, preserve_ids: bool = True):
    from srctools.keyvalues import Keyvalues
    from srctools.vmf import VMF
    with open(path, encoding='utf8', errors='replace') as file:
        tree = Keyvalues.parse(file, path)
    return VMF.parse(tree, preserve_ids=preserve_ids)


OPTION_COMBOS = [(m, d, p) for m in (False, True) for d in (True, False) for p in (True, False)]


if __name__ == '__main__':
    import sys
    import time
    import warnings
    warnings.simplefilter('ignore')
    count = int(sys.argv[1]) if len(sys.argv) > 1 else 300
    seen: dict = {}
    stats = {'maps': 0, 'failed': 0}
    worst = 0.0

    def record(label: str, vmf_maker: Callable[[], Any], combos: list) -> None:
        for minimal, multiblend, preserve in combos:
            vmf = vmf_maker()
            stats['maps'] += 1
            diffs = roundtrip_diffs(vmf, minimal, multiblend, preserve)
            if diffs:
                stats['failed'] += 1
            for sig, msg in diffs:
                if sig not in seen:
                    seen[sig] = f'{label} minimal={minimal} disp_multiblend={multiblend} preserve_ids={preserve}: {msg}'

    for name, maker in TARGETED:
        record(f'targeted {name}', maker, OPTION_COMBOS)
    for path in sample_files():
        record(f'file {path}', lambda: load_sample(path), OPTION_COMBOS)
    for seed in range(count):
        start = time.perf_counter()
        combo = OPTION_COMBOS[seed % len(OPTION_COMBOS)]
        record(f'seed {seed}', lambda: gen_map(random.Random(seed)), [combo])
        worst = max(worst, time.perf_counter() - start)
    print(f'{stats["maps"]} checks, {stats["failed"]} with differences, {len(seen)} distinct signatures; '
          f'slowest generated map {worst * 1000:.0f} ms')
    for sig, example in sorted(seen.items()):
        print(f'- {sig}\n    {example}')
