"""Shared native helpers for the bounded BSP stand-ins (C10, C11): structural dumps and generated lump values."""
from __future__ import annotations

import enum
import io
import os
import random
import shutil
import struct
import tempfile
import zipfile

SAMPLE = 'tests/test_vec/rot_main.bsp'

VIEWS = ['pakfile', 'ents', 'textures', 'texinfo', 'cubemaps', 'overlays', 'bmodels', 'brushes', 'visleafs',
         'water_leaf_info', 'nodes', 'visibility', 'vertexes', 'surfedges', 'planes', 'faces', 'orig_faces',
         'hdr_faces', 'primitives', 'props', 'detail_props']


def f32(x: float) -> float:
    return struct.unpack('<f', struct.pack('<f', x))[0]


def dump(obj, memo=None, depth=0):
    """Deep structural dump: equal dumps <=> equal parsed content (object identity replaced by first-visit index)."""
    import attrs
    from srctools.math import Vec, FrozenVec, Angle, FrozenAngle, Matrix, FrozenMatrix
    from srctools.vmf import VMF, Entity
    from srctools.keyvalues import Keyvalues
    if memo is None:
        memo = {}
    if obj is None or isinstance(obj, (bool, int, str, bytes)):
        return obj
    if isinstance(obj, float):
        return round(obj, 4)
    if isinstance(obj, bytearray):
        return bytes(obj)
    if isinstance(obj, (Vec, FrozenVec, Angle, FrozenAngle)):
        return tuple(round(v, 3) for v in obj)
    if isinstance(obj, enum.Enum):
        return (type(obj).__name__, obj.value if not isinstance(obj.value, tuple) else obj.name)
    if isinstance(obj, (list, tuple)):
        return [dump(x, memo, depth + 1) for x in obj]
    if isinstance(obj, (set, frozenset)):
        # sets iterate in address order: dump each element with its own memo so that the result (and the shared
        # first-visit numbering) does not depend on that order
        return sorted((dump(x, {}, depth + 1) for x in obj), key=repr)
    if isinstance(obj, VMF):
        # VMF.export() writes to the map (mapversion bookkeeping), so the entity lump is dumped without it
        return ('VMF', [dump(e, memo, depth + 1) for e in [obj.spawn] + list(obj.entities)])
    if isinstance(obj, Entity):
        return ('Entity', list(obj.items()),
                [(o.output, o.target, o.input, o.params, o.delay, o.times, o.inst_out, o.inst_in) for o in obj.outputs])
    if isinstance(obj, Keyvalues):
        return obj.serialise()
    if isinstance(obj, zipfile.ZipFile):
        return sorted((n, obj.read(n)) for n in obj.namelist())
    if hasattr(obj, 'items') and not attrs.has(type(obj)):
        return sorted(((dump(k, memo, depth + 1), dump(v, memo, depth + 1)) for k, v in obj.items()), key=repr)
    key = id(obj)
    if key in memo:
        return ('ref', memo[key])
    memo[key] = len(memo)
    if attrs.has(type(obj)):
        if depth > 40:
            return ('deep', type(obj).__name__)
        return (type(obj).__name__, [(a.name, dump(getattr(obj, a.name), memo, depth + 1))
                                     for a in attrs.fields(type(obj))])
    if hasattr(obj, '__slots__') or hasattr(obj, '__dict__'):
        names = list(getattr(obj, '__slots__', [])) or sorted(vars(obj))
        return (type(obj).__name__, [(n, dump(getattr(obj, n, None), memo, depth + 1)) for n in names
                                     if not n.startswith('__')])
    return repr(obj)


def open_sample(repo: str):
    from srctools.bsp import BSP
    return BSP(os.path.join(repo, SAMPLE))


def save_and_reopen(bsp, tmpdir: str, name: str = 'out.bsp'):
    from srctools.bsp import BSP
    path = os.path.join(tmpdir, name)
    bsp.save(path)
    return BSP(path), path


def raw_state(bsp):
    return {
        'version': dump(bsp.version), 'map_revision': bsp.map_revision,
        'lumps': {l.type.name: (l.version, bytes(l.data), getattr(l, 'flags', None)) for l in bsp.lumps.values()},
        'game': {bytes(g.id): (g.flags, g.version, bytes(g.data)) for g in bsp.game_lumps.values()},
    }


# ---------------------------------------------------------------------------------------------------------------
# generated lump values (well-formed, float32-representable)

def gen_vec(rng, scale=4096.0, integral=False):
    from srctools.math import Vec
    if integral:
        return Vec(rng.randint(-4096, 4096), rng.randint(-4096, 4096), rng.randint(-4096, 4096))
    return Vec(f32(rng.uniform(-scale, scale)), f32(rng.uniform(-scale, scale)), f32(rng.uniform(-scale, scale)))


def gen_value(bsp, view: str, rng: random.Random, n: int, variant=None):
    """A well-formed value for the given view with n elements (None when the view is not generated)."""
    from srctools import bsp as B
    from srctools.math import Vec, Angle
    if view == 'planes':
        return [B.Plane(gen_vec(rng, 1.0), f32(rng.uniform(-9999, 9999))) for _ in range(n)]
    if view == 'vertexes':
        return [gen_vec(rng) for _ in range(n)]
    if view == 'cubemaps':
        return [B.Cubemap(gen_vec(rng, integral=True), rng.choice([0, 1, 5, 9, 13])) for _ in range(n)]
    if view == 'textures':
        # names that are prefixes / suffixes / substrings of each other and repeats: the string block shares storage
        pool = ['tools/toolsnodraw', 'toolsnodraw', 'nodraw', 'nodraw2', 'tools/tools', 'Dev/Dev_Measuregeneric01', 'a', 'ab',
                'b', 'aba', '', 'x/y/z_' + str(n)]
        out = [rng.choice(pool) if rng.random() < 0.6 else rng.choice(pool) + str(i) for i in range(n)]
        if n >= 2:
            # always one pair "longer name first, then a proper prefix / suffix / infix of it"
            base = rng.choice(['brick/brickwall001a', 'nodraw', 'ab'])
            longer = base + '_b' if rng.random() < 0.5 else 'x' + base + 'y'
            out[0], out[1] = longer, base
            if n >= 3:
                out[2] = 'x/' + base        # a name ending in an earlier one (may legitimately share its tail)
        return out
    if view == 'visibility':
        clusters = [0, 1, 8, 9, 37, 300][n % 6] if variant is None else variant
        if clusters == 0:
            return None
        size = (clusters + 7) // 8

        def row():
            kind = rng.randrange(4)
            if kind == 0:
                return bytearray(size)
            if kind == 1:
                return bytearray(rng.randrange(256) for _ in range(size))
            r = bytearray(size)
            for _ in range(max(1, size // 4)):
                r[rng.randrange(size)] = rng.randrange(1, 256)
            return r
        return B.Visibility([row() for _ in range(clusters)], [row() for _ in range(clusters)])
    if view == 'props':
        leafs = list(bsp.visleafs)
        props = []
        flags_all = [f for f in B.StaticPropFlags if 0 < f.value < (1 << 32)]
        for i in range(n):
            fl = B.StaticPropFlags.NONE
            for f in rng.sample(flags_all, rng.randint(0, min(4, len(flags_all)))):
                fl |= f
            props.append(B.StaticProp(
                model='models/props/p%d.mdl' % rng.randrange(3),
                origin=gen_vec(rng), angles=Angle(f32(rng.uniform(0, 359)), f32(rng.uniform(0, 359)), f32(rng.uniform(0, 359))),
                scaling=Vec(1.0, 1.0, 1.0), visleafs=set(rng.sample(leafs, rng.randint(0, min(3, len(leafs))))),
                solidity=rng.choice([0, 2, 6]), flags=fl, skin=rng.randint(0, 5), min_fade=f32(rng.uniform(-1, 500)),
                max_fade=f32(rng.uniform(0, 2000)), lighting=gen_vec(rng), fade_scale=1.0,
                min_dx_level=0, max_dx_level=0, min_cpu_level=0, max_cpu_level=0, min_gpu_level=0, max_gpu_level=0,
                tint=Vec(255, 255, 255), renderfx=255, disable_on_xbox=False, lightmap_x=32, lightmap_y=32))
        return props
    if view == 'water_leaf_info':
        tex = list(bsp.texinfo)
        if not tex:
            return None
        return [B.LeafWaterInfo(f32(rng.uniform(-100, 100)), f32(rng.uniform(-200, 0)), rng.choice(tex)) for _ in range(n)]
    if view == 'detail_props':
        out = []
        for i in range(n):
            common = dict(origin=gen_vec(rng), angles=Angle(0, f32(rng.uniform(0, 359)), 0),
                          orientation=rng.choice(list(B.DetailPropOrientation)), leaf=rng.randrange(0, 20),
                          lighting=(rng.randrange(256), rng.randrange(256), rng.randrange(256), rng.randrange(256)),
                          light_styles=(0, 0), sway_amount=rng.randrange(256))
            kind = rng.randrange(3)
            if kind == 0:
                out.append(B.DetailPropModel(**common, model='models/d%d.mdl' % rng.randrange(2)))
            elif kind == 1:
                out.append(B.DetailPropSprite(**common, sprite_scale=f32(rng.uniform(0.5, 4)),
                                              dims_upper_left=(f32(-8.0), f32(16.0)), dims_lower_right=(f32(8.0), f32(0.0)),
                                              texcoord_upper_left=(f32(0.25), f32(0.5)), texcoord_lower_right=(f32(0.5), f32(0.75))))
            else:
                out.append(B.DetailPropShape(**common, sprite_scale=f32(rng.uniform(0.5, 4)),
                                             dims_upper_left=(f32(-8.0), f32(16.0)), dims_lower_right=(f32(8.0), f32(0.0)),
                                             texcoord_upper_left=(f32(0.25), f32(0.5)), texcoord_lower_right=(f32(0.5), f32(0.75)),
                                             is_cross=bool(rng.randrange(2)), shape_angle=rng.randrange(256),
                                             shape_size=rng.randrange(256)))
        return out
    if view == 'overlays':
        tex = list(bsp.texinfo)
        if not tex:
            return None
        return [B.Overlay(id=i + 1, origin=gen_vec(rng), normal=gen_vec(rng, 1.0), texture=rng.choice(tex),
                          face_count=0, faces=[], render_order=rng.randrange(4), u_min=f32(0.0), u_max=f32(1.0),
                          v_min=f32(0.25), v_max=f32(0.75), fade_min_sq=f32(-1.0), fade_max_sq=f32(100.0),
                          min_cpu=rng.randrange(3), max_cpu=rng.randrange(3), min_gpu=rng.randrange(3),
                          max_gpu=rng.randrange(3)) for i in range(n)]
    if view == 'primitives':
        return [B.Primitive(bool(rng.randrange(2)), [rng.randrange(100) for _ in range(rng.randrange(4))],
                            [gen_vec(rng) for _ in range(rng.randrange(3))]) for _ in range(n)]
    return None


GENERATED_VIEWS = ['planes', 'vertexes', 'cubemaps', 'textures', 'visibility', 'props', 'water_leaf_info',
                   'detail_props', 'overlays', 'primitives']
