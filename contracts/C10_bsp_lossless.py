"""C10 -- saving an unmodified BSP is lossless whichever lumps were looked at.

Proof tier: (1) the lazy-view protocol of ParsedLump.__get__/__set__ by symbolic execution against a contract;
(2) effect / ordering contracts of every lump reader and writer, decided on the AST of bsp.py (frame conditions):
they make the 2^21 access subsets collapse to one argument -- a view's value does not depend on which other views
were parsed before it, and a writer only consumes views that are rebuilt after it.
Bounded tier: real read -> touch subsets -> save -> re-read on the (enriched) sample BSP.
"""
import ast
import itertools
import os
import random
import shutil
import tempfile

import z3

from pyvc import extract, smt
from pyvc.driver import bounded
from pyvc.symexec import Obj, PDict, UninterpFn, to_z3
from pyvc.vc import Contract, Registry, native

REG = Registry()
PROP = 'C10'
LEVEL = 'other'
EXPLANATION = ('ParsedLump.__get__/__set__ proved against the lazy-view contract (cached value returned unchanged; '
               'otherwise reader called on the raw data, result cached, exactly the to_clear lumps emptied, other lumps '
               'untouched); per-lump effect and ordering obligations decided syntactically for all 21 views (writer '
               'takes its value from its argument, reads only views rebuilt later, reassigns every secondary lump it '
               'cleared; reader touches raw data only of its own lumps or of lumps no view clears). The byte-level law '
               'is a bounded stand-in over single views, ordered pairs and seeded subsets on the sample BSP and an '
               'enriched copy of it.')
TRUSTED = ['zipfile / lzma modules', 'AST effect analysis sees direct attribute accesses and the helper calls '
           'find_or_insert/find_or_extend(self.<view>); access through other helpers is followed one level']
UNVERIFIED = ['BSP.read/save header arithmetic beyond the bounded family', 'lump layouts other than the sample file']


# ------------------------------------------------------------------------------------------------ view table from AST
def view_table():
    mod = extract.load('bsp')
    cls = mod.classdef('BSP')
    order_node = None
    for st in mod.tree.body:
        if isinstance(st, ast.AnnAssign) and isinstance(st.target, ast.Name) and st.target.id == 'LUMP_REBUILD_ORDER':
            order_node = st.value
    order = [ast.unparse(e) for e in order_node.elts]
    views = {}
    for st in cls.body:
        if isinstance(st, ast.AnnAssign) and isinstance(st.value, ast.Call) \
                and isinstance(st.value.func, ast.Name) and st.value.func.id == 'ParsedLump':
            views[st.target.id] = [ast.unparse(a) for a in st.value.args]
    return mod, cls, order, views


def _method(cls, name):
    for st in cls.body:
        if isinstance(st, ast.FunctionDef) and st.name == name:
            return st
    return None


def _self_attrs(fn, names, cls=None, depth=1):
    """Names of `self.<name>` loads in fn (following self.<helper>() calls `depth` levels)."""
    out = {}
    for node in ast.walk(fn):
        if isinstance(node, ast.Attribute) and isinstance(node.value, ast.Name) and node.value.id == 'self' \
                and node.attr in names and isinstance(node.ctx, ast.Load):
            out.setdefault(node.attr, node.lineno)
        if depth and cls is not None and isinstance(node, ast.Call) and isinstance(node.func, ast.Attribute) \
                and isinstance(node.func.value, ast.Name) and node.func.value.id == 'self':
            helper = _method(cls, node.func.attr)
            if helper is not None and helper is not fn and not helper.name.startswith('_lmp_'):
                for k, v in _self_attrs(helper, names, cls, depth - 1).items():
                    out.setdefault(k, node.lineno)
    return out


def _raw_lumps(fn, ctx_type):
    """Lumps whose raw data is read (Load) / assigned (Store) as self.lumps[X].data in fn."""
    out = {}
    for node in ast.walk(fn):
        if isinstance(node, ast.Attribute) and node.attr == 'data' and isinstance(node.ctx, ctx_type) \
                and isinstance(node.value, ast.Subscript) and ast.unparse(node.value.value) == 'self.lumps':
            out.setdefault(ast.unparse(node.value.slice), node.lineno)
    return out


def _res(name, ok, line, note=''):
    return smt.Result(name, 'proved' if ok else 'refuted', 'ast-effects', 0.0, {}, line, 0, note)


def static_effects(repo):
    mod, cls, order, views = view_table()
    out = []
    lump_of_view = {v: args[0] for v, args in views.items()}
    cleared_by = {}
    for v, args in views.items():
        for l in args:
            cleared_by.setdefault(l, v)
    out.append(_res('views.table_nonempty', len(views) >= 20, cls.lineno, f'{len(views)} views'))
    for v, args in sorted(views.items()):
        main = args[0]
        suffix = v.lstrip('_')
        reader = _method(cls, '_lmp_read_' + suffix)
        writer = _method(cls, '_lmp_write_' + suffix)
        out.append(_res(f'view.{v}.main_lump_in_rebuild_order', main in order, cls.lineno, main))
        out.append(_res(f'view.{v}.has_reader_and_writer', reader is not None and writer is not None, cls.lineno))
        if reader is None or writer is None or main not in order:
            continue
        # --- writer ---------------------------------------------------------------------------------------------
        used = _self_attrs(writer, set(views), cls)
        r = _res(f'writer.{v}.value_from_argument', v not in used, used.get(v, writer.lineno),
                 f'reads self.{v} at line {used.get(v)}' if v in used else '')
        r.replay_fn = (lambda view: lambda model, ob: _native_view_roundtrip(view))(v)
        out.append(r)
        late = [(o, ln) for o, ln in used.items() if o != v and lump_of_view[o] in order
                and order.index(lump_of_view[o]) <= order.index(main)]
        r = _res(f'writer.{v}.reads_only_views_rebuilt_later', not late, late[0][1] if late else writer.lineno,
                 f'reads {[o for o, _ in late]} which are rebuilt before {main}' if late else
                 f'reads {sorted(o for o in used if o != v)}')
        out.append(r)
        stored = _raw_lumps(writer, ast.Store)
        for extra in args[1:]:
            out.append(_res(f'writer.{v}.reassigns.{extra.split(".")[-1]}', extra in stored, writer.lineno,
                            f'{extra} is cleared when the view is parsed and must be rebuilt by the writer'))
        foreign = [l for l in stored if l not in args and l != 'BSP_LUMPS.FACEIDS']
        out.append(_res(f'writer.{v}.assigns_no_foreign_lump', not foreign, writer.lineno, str(foreign)))
        # --- reader ---------------------------------------------------------------------------------------------
        loaded = _raw_lumps(reader, ast.Load)
        bad = [l for l in loaded if l not in args and l in cleared_by]
        out.append(_res(f'reader.{v}.raw_reads_within_own_lumps', not bad, reader.lineno,
                        f'reads raw {bad} owned by view(s) {[cleared_by[l] for l in bad]}' if bad else str(sorted(loaded))))
        rstored = _raw_lumps(reader, ast.Store)
        out.append(_res(f'reader.{v}.assigns_only_own_lumps', all(l in args for l in rstored), reader.lineno,
                        str(sorted(rstored))))
    return out


def _native_view_roundtrip(view):
    """Native witness: assign a non-empty value to the view of the sample BSP, save, re-read, compare."""
    from contracts import bsp_support as S
    repo = os.environ.get('VERIF_REPO', '/repo')
    bsp = S.open_sample(repo)
    val = S.gen_value(bsp, view, random.Random(1), 2)
    if val is None:
        return {'failed': False, 'note': 'no generator for this view'}
    setattr(bsp, view, val)
    want = S.dump(val)
    d = tempfile.mkdtemp(prefix='c10w_')
    try:
        back, _ = S.save_and_reopen(bsp, d)
        got = S.dump(getattr(back, view))
        return {'failed': got != want, 'view': view, 'wrote': str(want)[:200], 'read': str(got)[:200]}
    finally:
        shutil.rmtree(d, ignore_errors=True)


STATIC = [static_effects]


# ------------------------------------------------------------------------------------------------ ParsedLump protocol
READ = UninterpFn('reader', z3.StringSort(), z3.IntSort())   # raw lump data stands in as an opaque string


class _Noop:
    pass


def _get_harness(cached):
    def setup(h):
        from pyvc.symexec import Builtin
        lumpA = Obj('BSP_LUMPS', {'name': 'A', 'value': 1}, module='bsp')
        lumpB = Obj('BSP_LUMPS', {'name': 'B', 'value': 2}, module='bsp')
        lumpC = Obj('BSP_LUMPS', {'name': 'C', 'value': 3}, module='bsp')
        dA, dB, dC = h.str('dataA'), h.str('dataB'), h.str('dataC')
        LA, LB, LC = (Obj('Lump', {'data': d}, module='bsp') for d in (dA, dB, dC))
        lumps = PDict({lumpA: LA, lumpB: LB, lumpC: LC})
        parsed = PDict({lumpA: h.int('cachedA')} if cached else {})
        inst = Obj('BSP', {'lumps': lumps, '_parsed_lumps': parsed, 'game_lumps': PDict({})}, module='bsp')
        reader = Builtin('_lmp_read_x', lambda instance, data: READ.decl(
            to_z3(data.decode('latin-1') if isinstance(data, bytes) else data)))
        desc = Obj('ParsedLump', {'lump': lumpA, 'to_clear': (lumpA, lumpB), '_read': reader, '_check': None,
                                  '__name__': 'x'}, module='bsp')
        return {'args': [desc, inst, None],
                'ghost': dict(LA=LA, LB=LB, LC=LC, parsed=parsed, lumpA=lumpA, dA=dA, dB=dB, dC=dC,
                              cachedA=z3.Int('cachedA'), HARNESS='cached' if cached else 'first_access')}
    return setup


pl_get = REG.add(Contract('bsp:ParsedLump.__get__', PROP, modular=False))
pl_get.setup(_get_harness(True), label='cached')
pl_get.setup(_get_harness(False), label='first_access')


@native
def empty_bytes(I, v):
    return isinstance(v, bytes) and v == b''


@native
def same(I, a, b):
    from pyvc.builtins_model import equal
    return equal(I, a, b)


@native
def reader_of(I, d):
    return READ.decl(to_z3(d))


@native
def has_key(I, d, k):
    return k in d.items


@native
def get_key(I, d, k):
    return d.items[k]


@pl_get.ensures
def cached_value_returned_and_nothing_touched(result, parsed, lumpA, cachedA, LA, LB, LC, dA, dB, dC, HARNESS):
    return implies(HARNESS == 'cached',
                   same(result, cachedA) and same(LA.data, dA) and same(LB.data, dB) and same(LC.data, dC))


@pl_get.ensures
def first_access_parses_caches_and_clears(result, parsed, lumpA, LA, LB, LC, dA, dC, HARNESS):
    return implies(HARNESS == 'first_access',
                   same(result, reader_of(dA)) and has_key(parsed, lumpA) and same(get_key(parsed, lumpA), result)
                   and empty_bytes(LA.data) and empty_bytes(LB.data) and same(LC.data, dC))


pl_set = REG.add(Contract('bsp:ParsedLump.__set__', PROP, modular=False))


@pl_set.setup
def _(h):
    spec = _get_harness(True)(h)
    desc, inst, _ = spec['args']
    spec['args'] = [desc, inst, h.int('value')]
    spec['ghost']['value'] = z3.Int('value')
    return spec


@pl_set.ensures
def value_stored_and_own_lumps_cleared(parsed, lumpA, value, LA, LB, LC, dC):
    return (has_key(parsed, lumpA) and same(get_key(parsed, lumpA), value)
            and empty_bytes(LA.data) and empty_bytes(LB.data) and same(LC.data, dC))


from pyvc.symexec import Noop
for _c in (pl_get, pl_set):
    _c.globals['LOGGER'] = Noop()
# The visibility view is rewritten through runlength_encode / runlength_decode; "an unchanged save keeps the view" rests on
# those two being inverse for rows of any length.  The C11 lemmas about them are re-run here (as C17 re-runs C09's).
from contracts import C11_lumps as _C11      # noqa: E402
RLE_ENC = REG.add(_C11.enc)
RLE_DEC = REG.add(_C11.dec)
PROOFS = [pl_get, pl_set, RLE_ENC, RLE_DEC]


# ------------------------------------------------------------------------------------------------ bounded subsets
_BASE = {}
_ASSIGNED = {}       # what was put into the enriched input through the public API, per view


def _enriched(repo, tmp):
    """The sample BSP plus generated content in the views it leaves empty (built through the public API)."""
    from contracts import bsp_support as S
    from srctools import bsp as B
    bsp = S.open_sample(repo)
    rng = random.Random(7)
    bsp.props
    bsp.static_prop_version = B.StaticPropVersion.V10
    bsp.game_lumps[B.LMP_ID_STATIC_PROPS].version = 10
    for view, n in (('cubemaps', 3), ('props', 3), ('visibility', 4), ('overlays', 2), ('detail_props', 12),
                    ('water_leaf_info', 2), ('primitives', 2)):
        val = S.gen_value(bsp, view, rng, n)
        if val is not None:
            setattr(bsp, view, val)
            if view != 'props':         # (props refer to visleaf objects: compared by C11 through leaf positions)
                _ASSIGNED[view] = S.dump(val)
    bsp.pakfile.writestr('materials/test/a.vmt', b'"LightmappedGeneric"\n{\n}\n')
    path = os.path.join(tmp, 'enriched.bsp')
    bsp.save(path)
    # second pass on a fresh object, with no view parsed, so the raw lumps written by hand are saved as they are
    bsp = B.BSP(path)
    # texture names that are prefixes / infixes / suffixes of earlier ones (common in real maps): rewritten at the raw
    # lump level, by hand, so that no library writer is involved in building this input
    import struct
    table_l = bsp.lumps[B.BSP_LUMPS.TEXDATA_STRING_TABLE]
    data_l = bsp.lumps[B.BSP_LUMPS.TEXDATA_STRING_DATA]
    offs = struct.unpack(f'<{len(table_l.data) // 4}i', table_l.data)
    names = [bytes(data_l.data)[o:bytes(data_l.data).index(b'\0', o)] for o in offs]
    special = [b'brick/brickwall001a_b', b'brick/brickwall001a', b'xnodrawy', b'nodraw', b'tools/nodraw']
    names += special        # (extra table entries; texdata refers to names by index, the new ones are simply unused)
    block, table = b'', b''
    for nm in names:
        table += struct.pack('<i', len(block))
        block += nm + b'\0'
    table_l.data, data_l.data = table, block
    # two TEXDATA records for one material (legal; seen where a material is used at two sizes), the second used by an
    # extra TEXINFO record: a copy of record 0 with other sizes and reflectivity, appended by hand
    td_l, ti_l = bsp.lumps[B.BSP_LUMPS.TEXDATA], bsp.lumps[B.BSP_LUMPS.TEXINFO]
    td, ti = bytes(td_l.data), bytes(ti_l.data)
    if len(td) % 32 == 0 and len(ti) % 72 == 0 and td and ti:
        refl = struct.unpack_from('<3f', td, 0)
        name_ind, w, h = struct.unpack_from('<3i', td, 12)
        td_l.data = td + struct.pack('<3f5i', refl[0] * 0.5, refl[1], refl[2] * 0.25, name_ind, w * 2, h + 16, w * 2, h + 16)
        ti_l.data = ti + ti[:68] + struct.pack('<i', len(td) // 32)
    # a plane whose stored type is not the one its normal would be given today (files keep what the compiler wrote)
    pl_l = bsp.lumps[B.BSP_LUMPS.PLANES]
    pl = bytearray(pl_l.data)
    for i in range(0, len(pl) - 19, 20):
        x, y, z, dist, typ = struct.unpack_from('<ffffi', pl, i)
        if typ in (0, 1, 2) and i >= 40:
            struct.pack_into('<i', pl, i + 16, typ + 3)
            break
    pl_l.data = bytes(pl)
    bsp.save(path)
    return path


def _reference(path):
    """Per-view dumps, each from its own fresh BSP object (no other view parsed before it)."""
    from contracts import bsp_support as S
    from srctools.bsp import BSP
    ref = {}
    for v in S.VIEWS:
        ref[v] = S.dump(getattr(BSP(path), v))
    raw = S.raw_state(BSP(path))
    return ref, raw


def _subset_case(path, ref, raw0, order, tmp, owned):
    from contracts import bsp_support as S
    from srctools.bsp import BSP
    b = BSP(path)
    for v in order:
        got = S.dump(getattr(b, v))
        if got != ref[v]:
            return f'view {v} parsed after {order[:order.index(v)]} differs from parsing it alone'
    out = os.path.join(tmp, 'out.bsp')
    b.save(out)
    b1 = BSP(out)
    raw1 = S.raw_state(b1)
    if raw1['version'] != raw0['version'] or raw1['map_revision'] != raw0['map_revision']:
        return 'version / map revision changed'
    for name, (ver, data, flags) in raw0['lumps'].items():
        v1, d1, f1 = raw1['lumps'][name]
        if (v1, f1) != (ver, flags):
            return f'lump {name}: version/flags {ver, flags} -> {v1, f1}'
        if (name not in owned or not order) and d1 != data:
            return f'lump {name} (no view touched it) changed: {len(data)} -> {len(d1)} bytes'
    for gid, (fl, ver, data) in raw0['game'].items():
        f1, v1, d1 = raw1['game'][gid]
        if (f1, v1) != (fl, ver) or (not order and d1 != data):
            return f'game lump {gid}: header or untouched data changed'
    b2 = BSP(out)
    for v in S.VIEWS:
        got = S.dump(getattr(b2, v))
        if got != ref[v]:
            return f'after accessing {list(order)} and saving, view {v} differs: {str(got)[:150]} vs {str(ref[v])[:150]}'
    # saving the result again changes nothing
    out2 = os.path.join(tmp, 'out2.bsp')
    BSP(out).save(out2)
    if S.raw_state(BSP(out2)) != raw1:
        return 'a second save changed the file content'
    return None


def _subset_job(job):
    path, ref, raw0, order, tmp, owned = job
    sub = tempfile.mkdtemp(prefix='job_', dir=tmp)
    try:
        return _subset_case(path, ref, raw0, order, sub, owned)
    except Exception as e:
        return f'{type(e).__name__}: {e}'
    finally:
        shutil.rmtree(sub, ignore_errors=True)


def _owned_lumps():
    _, _, _, views = view_table()
    return {l.split('.')[-1] for args in views.values() for l in args}


@bounded('C10.B-subsets', bound='sample BSP and an enriched copy (props, cubemaps, visibility, overlays, detail props, '
         'leaf water, primitives, pakfile entry; by hand: texture names that are affixes of others, two TEXDATA records of '
         'one material, a plane whose stored type differs from the one derived from its normal): no view, every single view, ordered pairs (quick: a seeded sample of '
         '120; thorough: all 420), seeded larger subsets/orders (quick 15, thorough 150)',
         rule='one case per ordered access sequence; non-trivial when at least one view is accessed')
def b_subsets(ctx):
    from contracts import bsp_support as S
    tmp = tempfile.mkdtemp(prefix='c10_')
    try:
        owned = _owned_lumps()
        for label, path in (('enriched', _enriched(ctx.repo, tmp)), ('sample', os.path.join(ctx.repo, S.SAMPLE))):
            try:
                ref, raw0 = _reference(path)
            except Exception as e:
                ctx.case((label, 'reference'))
                ctx.violation(f'reference={label}', f'parsing every view of the {label} BSP on a fresh object raised '
                              f'{type(e).__name__}: {e}', [label, []])
                continue
            if label == 'enriched':
                # the input itself went through the writers once: it must hold what was assigned, or every later
                # comparison would be between two equally wrong files
                for view, want in _ASSIGNED.items():
                    ctx.case(('enriched-input', view))
                    if ref.get(view) != want:
                        ctx.violation(f'input=enriched.{view}', f'the enriched input was given {str(want)[:200]} for view '
                                      f'{view} and reads back {str(ref.get(view))[:200]}', ['enriched-input', view])
            orders = [()] + [(v,) for v in S.VIEWS]
            pairs = [p for p in itertools.permutations(S.VIEWS, 2)]
            if not ctx.thorough:
                pairs = ctx.rng.sample(pairs, 120 if label == 'enriched' else 30)
            orders += pairs
            for _ in range((15 if not ctx.thorough else 150) if label == 'enriched' else 3):
                k = ctx.rng.randint(3, len(S.VIEWS))
                orders.append(tuple(ctx.rng.sample(S.VIEWS, k)))
            jobs = [(path, ref, raw0, order, tmp, owned) for order in orders]
            for job, bad in ctx.pmap(_subset_job, jobs, batch=48):
                order = job[3]
                ctx.case((label, order), nontrivial=bool(order))
                if bad:
                    key = 'access=' + label + ':' + ('>'.join(order) if len(order) <= 2 else f'{order[0]}>..{len(order)}views')
                    ctx.violation(key, f'{bad} [{label}; access order {list(order)}]', [label, list(order)])
    finally:
        shutil.rmtree(tmp, ignore_errors=True)


def _build_raw_bsp(path, lumps, versions, compressed, l4d2, revision=7):
    """A BSP written by hand (no library writer): header in the standard or the L4D2 field order, the given lumps
    optionally stored LZMA-compressed (fourCC field = uncompressed size)."""
    import struct
    from srctools.binformat import compress_lzma
    from srctools.bsp import BSP_LUMPS
    header_size = 8 + 16 * 64 + 4
    pos = header_size
    table, blobs = [], []
    for ind in range(64):
        lump = BSP_LUMPS(ind)
        raw = lumps.get(lump, b'')
        if lump in compressed and raw:
            disk, fourcc = compress_lzma(raw), len(raw)
        else:
            disk, fourcc = raw, 0
        ver = versions.get(lump, 0)
        table.append((ver, pos, len(disk), fourcc) if l4d2 else (pos, len(disk), ver, fourcc))
        blobs.append(disk)
        pos += len(disk)
        pad = (-pos) % 4
        blobs.append(b'\0' * pad)
        pos += pad
    with open(path, 'wb') as f:
        f.write(struct.pack('<4si', b'VBSP', 21 if l4d2 else 20))
        for entry in table:
            f.write(struct.pack('<4i', *entry))
        f.write(struct.pack('<i', revision))
        f.write(b''.join(blobs))


def _layout_snapshot(bsp):
    from srctools.bsp import BSP_LUMPS
    return {'version': str(bsp.version), 'game_ver': str(bsp.game_ver), 'revision': bsp.map_revision,
            'lumps': {l.type.name: (l.version, bool(l.is_compressed), bytes(l.data)) for l in bsp.lumps.values()
                      if l.type is not BSP_LUMPS.GAME_LUMP}}


def _layout_job(job):
    l4d2, which = job
    from contracts import bsp_support as S
    from srctools.bsp import BSP, BSP_LUMPS
    repo = os.environ.get('VERIF_REPO', '/repo')
    tmp = tempfile.mkdtemp(prefix='c10l_')
    try:
        src = S.open_sample(repo)
        lumps = {l.type: bytes(l.data) for l in src.lumps.values() if l.type is not BSP_LUMPS.GAME_LUMP and l.data}
        versions = {l.type: l.version for l in src.lumps.values()}
        names = sorted(lumps, key=lambda t: t.value)
        lumps[BSP_LUMPS.GAME_LUMP] = bytes(4)      # an empty game-lump directory (its entries hold absolute offsets)
        compressed = set() if which == 'none' else (set(names[::2]) if which == 'some' else set(names))
        compressed.discard(BSP_LUMPS.PAKFILE)
        path = os.path.join(tmp, 'in.bsp')
        _build_raw_bsp(path, lumps, versions, compressed, l4d2)
        first = BSP(path)
        snap0 = _layout_snapshot(first)
        for t in names:
            if snap0['lumps'][t.name][2] != lumps[t]:
                return f'hand-written input: lump {t.name} does not read back as written (harness or reader)'
        out = os.path.join(tmp, 'out.bsp')
        first.save(out)
        snap1 = _layout_snapshot(BSP(out))
        if snap1 != snap0:
            for name in snap0['lumps']:
                if snap0['lumps'][name] != snap1['lumps'].get(name):
                    a, b = snap0['lumps'][name], snap1['lumps'].get(name)
                    return (f'lump {name}: (version, compressed, {len(a[2])} bytes) = {a[:2]} became '
                            f'{b[:2] if b else None} with {len(b[2]) if b else 0} bytes after read -> save -> read')
            return f'header changed: {[snap0[k] for k in ("version", "game_ver", "revision")]} -> ' \
                   f'{[snap1[k] for k in ("version", "game_ver", "revision")]}'
        out2 = os.path.join(tmp, 'out2.bsp')
        BSP(out).save(out2)
        if _layout_snapshot(BSP(out2)) != snap1:
            return 'a second save changed the lumps'
        return None
    except Exception as e:
        return f'{type(e).__name__}: {e}'
    finally:
        shutil.rmtree(tmp, ignore_errors=True)


@bounded('C10.B-layouts', bound='the sample map re-encoded by hand with the standard and the L4D2 header field order, with '
         'none / every second / all lumps stored LZMA-compressed; plain read -> save -> read -> save -> read',
         rule='one case per (layout, compression) variant')
def b_layouts(ctx):
    os.environ['VERIF_REPO'] = ctx.repo
    jobs = [(l4d2, which) for l4d2 in (False, True) for which in ('none', 'some', 'all')]
    for job, bad in ctx.pmap(_layout_job, jobs, job_timeout=120.0):
        ctx.case(job)
        if bad:
            ctx.violation(f'layout={"l4d2" if job[0] else "standard"}.{job[1]}', bad, list(job))


b_layouts.replay = lambda inp: (lambda r: {'failed': bool(r), 'observation': r})(_layout_job(tuple(inp)))


def _replay_subset(inp):
    from contracts import bsp_support as S
    repo = os.environ.get('VERIF_REPO', '/repo')
    tmp = tempfile.mkdtemp(prefix='c10r_')
    try:
        if inp[0] == 'enriched-input':
            ref, _ = _reference(_enriched(repo, tmp))
            bad = None if ref.get(inp[1]) == _ASSIGNED.get(inp[1]) else f'view {inp[1]} of the enriched input reads back differently'
            return {'failed': bool(bad), 'observation': bad}
        path = _enriched(repo, tmp) if inp[0] == 'enriched' else os.path.join(repo, S.SAMPLE)
        ref, raw0 = _reference(path)
        bad = _subset_case(path, ref, raw0, tuple(inp[1]), tmp, _owned_lumps())
        return {'failed': bool(bad), 'observation': bad}
    finally:
        shutil.rmtree(tmp, ignore_errors=True)


b_subsets.replay = _replay_subset
BOUNDED = [b_subsets, b_layouts]

MUTATIONS = [
    dict(name='plane_type_recomputed_from_normal', file='bsp.py', old="                plane.type.value,\n",
         new="                PlaneType.from_normal(plane.normal).value,\n", expect='access=enriched'),
    dict(name='texdata_indexed_by_material_name', file='bsp.py',
         old="                ind = texdata_ind[tdat]\n            except KeyError:\n                ind = texdata_ind[tdat] = next_ind",
         new="                ind = texdata_ind[tdat.mat.casefold()]\n            except KeyError:\n                ind = texdata_ind[tdat.mat.casefold()] = next_ind",
         expect='access=enriched'),
    dict(name='order_texinfo_before_overlays', file='bsp.py',
         old="    BSP_LUMPS.OVERLAYS,  # Adds texinfo entries.\n\n    BSP_LUMPS.TEXINFO,  # Adds texdata -> texdata_string_data entries.",
         new="    BSP_LUMPS.TEXINFO,  # Adds texdata -> texdata_string_data entries.\n    BSP_LUMPS.OVERLAYS,  # Adds texinfo entries.\n",
         expect='reads_only_views_rebuilt_later'),
    dict(name='brushes_forget_sides', file='bsp.py',
         old="        self.lumps[BSP_LUMPS.BRUSHSIDES].data = sides_buf.getvalue()", new="        pass",
         expect='writer.brushes.reassigns.BRUSHSIDES'),
    dict(name='get_clears_before_read', file='bsp.py',
         old="        if isinstance(self.lump, BSP_LUMPS):\n            data = instance.lumps[self.lump].data\n            LOGGER.debug('Load game lump {} ({} bytes)', self.lump, len(data))",
         new="        for lump in self.to_clear:\n            if isinstance(lump, BSP_LUMPS):\n                instance.lumps[lump].data = b''\n        if isinstance(self.lump, BSP_LUMPS):\n            data = instance.lumps[self.lump].data\n            LOGGER.debug('Load game lump {} ({} bytes)', self.lump, len(data))",
         expect='ParsedLump.__get__'),
    dict(name='water_leaf_reads_own_view', file='bsp.py',
         old="        for info in data:\n            yield self.lump_layout['LEAFWATERDATA'].pack(",
         new="        for info in self.water_leaf_info:\n            yield self.lump_layout['LEAFWATERDATA'].pack(",
         expect='writer.water_leaf_info.value_from_argument'),
    dict(name='set_keeps_secondary_lump', file='bsp.py',
         old="            self._check(instance, value)\n        for lump in self.to_clear:",
         new="            self._check(instance, value)\n        for lump in self.to_clear[:1]:",
         expect='ParsedLump.__set__'),
]
HARMLESS = [
    dict(name='get_rename_local', file='bsp.py',
         old="            gm_lump = instance.game_lumps[self.lump]\n            LOGGER.debug('Load game lump {} v{} ({} bytes)', self.lump, gm_lump.version, len(gm_lump.data))\n            result = self._read(instance, gm_lump.version, gm_lump.data)",
         new="            game = instance.game_lumps[self.lump]\n            LOGGER.debug('Load game lump {} v{} ({} bytes)', self.lump, game.version, len(game.data))\n            result = self._read(instance, game.version, game.data)"),
]
