"""C04 -- angles, matrices and vectors obey the rotation algebra (floats treated as reals).

Proof tier (pyvc over the real function bodies, z3 nonlinear real arithmetic):
  P-rot         MatrixBase.from_angle / from_pitch / from_yaw / from_roll return orthonormal rows with determinant +1,
                under sin^2 + cos^2 = 1 for each angle;
  P-convention  from_angle(p, y, r) == from_roll(r) . from_pitch(p) . from_yaw(y) with the real _mat_mul;
  P-assoc       (v @ A) @ B == v @ (A @ B) and (A @ B) @ C == A @ (B @ C) for the real _vec_rot / _mat_mul;
  P-transpose   transpose() . M == identity for orthonormal M (so inverse == transpose on rotations, given that the
                inverse is unique);
  P-dispatch    VecBase.__matmul__ with an Angle operand rotates by from_angle(angle).
Bounded tier (IEEE doubles, the real operators): operand-type dispatch table, Euler round trips incl. the gimbal
poles, inverse() vs transpose(), associativity across all operand kinds.
"""
import itertools
import math

import z3

from pyvc import smt
from pyvc.driver import bounded
from pyvc.symexec import ClassVal, Obj, to_z3
from pyvc.vc import Contract, Lemma, Registry, native

REG = Registry()
PROP = 'C04'
LEVEL = 'proof'
M = 'math'
EXPLANATION = ('The algebraic laws are proved over the reals on the real bodies of from_angle/from_pitch/from_yaw/'
               'from_roll, _mat_mul, _vec_rot and transpose (polynomial identities, with sin^2+cos^2=1 as the only fact '
               'about the trigonometric functions). Matrix -> Angle -> Matrix (atan2, the gimbal branch), inverse() '
               '(Gauss-Jordan with pivoting), and the operand-type dispatch of every @ form are exercised in IEEE '
               'arithmetic by the bounded tier with the tolerances the property states.')
TRUSTED = ['for a square real matrix, orthonormal rows <=> orthonormal columns (used as a hypothesis of the transpose lemma)',
           'machine arithmetic treated as mathematical (the property says "up to rounding")',
           'math.sin / math.cos satisfy sin^2 + cos^2 = 1 and are functions of math.radians(angle)']
UNVERIFIED = ['_math.pyx (Cython twin)', 'libm accuracy', '_to_angle and inverse() beyond the bounded tier']
TIMEOUT_MS = {'quick': 60000, 'thorough': 240000}

SLOTS = [f'_{a}{b}' for a in 'abc' for b in 'abc']
SIN = z3.Function('math_sin', z3.RealSort(), z3.RealSort())
COS = z3.Function('math_cos', z3.RealSort(), z3.RealSort())
RAD = z3.Function('math_radians', z3.RealSort(), z3.RealSort())


def _math_model(I, name, *args):
    x = to_z3(args[0], z3.RealVal(0)) if args else None
    if name == 'radians':
        return RAD(x)
    if name in ('sin', 'cos'):
        s, c = SIN(x), COS(x)
        I.path.assume(s * s + c * c == 1)
        return s if name == 'sin' else c
    from pyvc.symexec import Unsupported
    raise Unsupported(f'math.{name} has no real-arithmetic model here')


def _sym_matrix(h, name, cls='Matrix'):
    return Obj(cls, {s: h.real(f'{name}{s}') for s in SLOTS}, module=M)


def _sym_vec(h, name, cls='Vec'):
    return Obj(cls, {'_x': h.real(name + 'x'), '_y': h.real(name + 'y'), '_z': h.real(name + 'z')}, module=M)


@native
def rows(I, m):
    f = m.fields
    return [[f['_aa'], f['_ab'], f['_ac']], [f['_ba'], f['_bb'], f['_bc']], [f['_ca'], f['_cb'], f['_cc']]]


@native
def orthonormal(I, m):
    r = rows(I, m)
    dot = lambda a, b: sum(to_z3(x, z3.RealVal(0)) * to_z3(y, z3.RealVal(0)) for x, y in zip(a, b))
    goals = []
    for i in range(3):
        for j in range(i, 3):
            goals.append(dot(r[i], r[j]) == (1 if i == j else 0))
    return z3.And(*goals)


@native
def det_is_one(I, m):
    (a, b, c), (d, e, f), (g, h_, i) = [[to_z3(x, z3.RealVal(0)) for x in row] for row in rows(I, m)]
    return a * (e * i - f * h_) - b * (d * i - f * g) + c * (d * h_ - e * g) == 1


@native
def same_matrix(I, m1, m2):
    return z3.And(*[to_z3(m1.fields[s], z3.RealVal(0)) == to_z3(m2.fields[s], z3.RealVal(0)) for s in SLOTS])


@native
def same_vec(I, v1, v2):
    return z3.And(*[to_z3(v1.fields[s], z3.RealVal(0)) == to_z3(v2.fields[s], z3.RealVal(0)) for s in ('_x', '_y', '_z')])


@native
def is_identity(I, m):
    want = dict(zip(SLOTS, [1, 0, 0, 0, 1, 0, 0, 0, 1]))
    return z3.And(*[to_z3(m.fields[s], z3.RealVal(0)) == want[s] for s in SLOTS])


def _with_math(setup):
    def wrapped(h):
        h.I.math_model = _math_model
        return setup(h)
    return wrapped


MAT = ClassVal('Matrix', M)


@native
def row_dot(I, m, i, j):
    r = rows(I, m)
    return sum(to_z3(x, z3.RealVal(0)) * to_z3(y, z3.RealVal(0)) for x, y in zip(r[i], r[j]))


def _row_clause(i, j):
    import types
    if i == j:
        def clause(m):
            return row_dot(m, ROW_I, ROW_J) == 1
    else:
        def clause(m):
            return row_dot(m, ROW_I, ROW_J) == 0
    g = dict(globals())
    g.update(ROW_I=i, ROW_J=j)
    fn = types.FunctionType(clause.__code__, g, f'row{i}_dot_row{j}_is_{"one" if i == j else "zero"}')
    return fn

# ---------------------------------------------------------------- P-rot
for _name, _nargs in (('from_angle', 3), ('from_pitch', 1), ('from_yaw', 1), ('from_roll', 1)):
    _c = REG.add(Lemma(f'rot.{_name}', PROP, [{'call': f'{M}:MatrixBase.{_name}', 'args': ['cls'] + ['p', 'y', 'r'][:_nargs],
                                               'result': 'm'}]))
    _c.setup(_with_math(lambda h: {'locals': dict(cls=MAT, p=h.real('pitch'), y=h.real('yaw'), r=h.real('roll'))}))

    def determinant_is_plus_one(m):
        return det_is_one(m)
    _c.ensures(determinant_is_plus_one)
    # one clause per pair of rows: small polynomial goals discharge in milliseconds, their conjunction does not
    for _i in range(3):
        for _j in range(_i, 3):
            _c.ensures(_row_clause(_i, _j))

# ---------------------------------------------------------------- P-convention
conv = REG.add(Lemma('convention.roll_then_pitch_then_yaw', PROP, [
    {'call': f'{M}:MatrixBase.from_roll', 'args': ['cls', 'r'], 'result': 'acc'},
    {'call': f'{M}:MatrixBase.from_pitch', 'args': ['cls', 'p'], 'result': 'mp'},
    {'call': f'{M}:MatrixBase.from_yaw', 'args': ['cls', 'y'], 'result': 'my'},
    {'call': f'{M}:MatrixBase._mat_mul', 'args': ['acc', 'mp']},
    {'call': f'{M}:MatrixBase._mat_mul', 'args': ['acc', 'my']},
    {'call': f'{M}:MatrixBase.from_angle', 'args': ['cls', 'p', 'y', 'r'], 'result': 'whole'},
]))
conv.setup(_with_math(lambda h: {'locals': dict(cls=MAT, p=h.real('pitch'), y=h.real('yaw'), r=h.real('roll'))}))


@conv.ensures
def from_angle_is_roll_pitch_yaw_product(acc, whole):
    return same_matrix(acc, whole)


# ---------------------------------------------------------------- P-assoc
assoc_v = REG.add(Lemma('assoc.vector', PROP, [
    {'call': f'{M}:MatrixBase._vec_rot', 'args': ['A', 'v1']},
    {'call': f'{M}:MatrixBase._vec_rot', 'args': ['B', 'v1']},
    {'call': f'{M}:MatrixBase._mat_mul', 'args': ['AB', 'B']},
    {'call': f'{M}:MatrixBase._vec_rot', 'args': ['AB', 'v2']},
], inline=('VecBase.x', 'VecBase.y', 'VecBase.z', '*')))


@assoc_v.setup
def _(h):
    A, B = _sym_matrix(h, 'A'), _sym_matrix(h, 'B')
    AB = Obj('Matrix', dict(A.fields), module=M)
    v1 = _sym_vec(h, 'v')
    v2 = Obj('Vec', dict(v1.fields), module=M)
    return {'locals': dict(A=A, B=B, AB=AB, v1=v1, v2=v2)}


@assoc_v.ensures
def rotating_twice_equals_rotating_by_the_product(v1, v2):
    return same_vec(v1, v2)


assoc_m = REG.add(Lemma('assoc.matrix', PROP, [
    {'call': f'{M}:MatrixBase._mat_mul', 'args': ['L', 'B']},      # L = A.B
    {'call': f'{M}:MatrixBase._mat_mul', 'args': ['L', 'C']},      # L = (A.B).C
    {'call': f'{M}:MatrixBase._mat_mul', 'args': ['BC', 'C']},     # BC = B.C
    {'call': f'{M}:MatrixBase._mat_mul', 'args': ['R', 'BC']},     # R = A.(B.C)
]))


@assoc_m.setup
def _(h):
    A, B, C = _sym_matrix(h, 'A'), _sym_matrix(h, 'B'), _sym_matrix(h, 'C')
    return {'locals': dict(L=Obj('Matrix', dict(A.fields), module=M), R=Obj('Matrix', dict(A.fields), module=M),
                           BC=Obj('Matrix', dict(B.fields), module=M), B=B, C=C)}


@assoc_m.ensures
def matrix_product_is_associative(L, R):
    return same_matrix(L, R)


# ---------------------------------------------------------------- in-place operands may alias
# `m @= n` equals `m @ n` also when both operands are one object (m @= m): the in-place product rewrites rows while
# reading, so the aliased case needs its own obligation (all other lemmas use distinct objects).
inplace_sq = REG.add(Lemma('inplace.matmul_with_itself', PROP, [
    {'call': f'{M}:Matrix.__imatmul__', 'args': ['m', 'm'], 'result': 'res'},
]))


@inplace_sq.setup
def _(h):
    m = _sym_matrix(h, 'Q')
    h.I.global_overrides = {'Py_Matrix': MAT, 'Py_Vec': ClassVal('Vec', M)}      # module-level aliases of the classes
    return {'locals': dict(m=m), 'ghost': dict(M0=dict(m.fields))}


@native
def square_of(I, M0):
    r = [[M0['_aa'], M0['_ab'], M0['_ac']], [M0['_ba'], M0['_bb'], M0['_bc']], [M0['_ca'], M0['_cb'], M0['_cc']]]
    return [[sum(r[i][k] * r[k][j] for k in range(3)) for j in range(3)] for i in range(3)]


@native
def rows_equal(I, m, want):
    got = rows(I, m)
    return z3.And(*[to_z3(got[i][j], z3.RealVal(0)) == want[i][j] for i in range(3) for j in range(3)])


@inplace_sq.ensures
def result_is_the_square_of_the_original(res, M0):
    return rows_equal(res, square_of(M0))


@inplace_sq.ensures
def result_is_the_same_object(res, m):
    return res is m


# ---------------------------------------------------------------- P-transpose
transp = REG.add(Lemma('transpose.is_inverse_on_rotations', PROP, [
    {'call': f'{M}:MatrixBase.transpose', 'args': ['Mx'], 'result': 'T'},
    {'call': f'{M}:MatrixBase._mat_mul', 'args': ['T', 'Mx']},
]))


@transp.setup
def _(h):
    Mx = _sym_matrix(h, 'M')
    from pyvc.symexec import Path
    # M is a rotation: rows orthonormal (then columns are too; needed form given as hypothesis: M.M^T = I and M^T.M = I
    # are equivalent for square matrices -- the column form is what the product below uses, so it is assumed with the
    # row form and their equivalence is a separate obligation)
    f = Mx.fields
    R = [[f['_aa'], f['_ab'], f['_ac']], [f['_ba'], f['_bb'], f['_bc']], [f['_ca'], f['_cb'], f['_cc']]]
    for i in range(3):
        for j in range(i, 3):
            h.assume(sum(R[i][k] * R[j][k] for k in range(3)) == (1 if i == j else 0))
            # ... and, equivalently for a square matrix (standard linear algebra, listed as trusted), its columns
            h.assume(sum(R[k][i] * R[k][j] for k in range(3)) == (1 if i == j else 0))
    return {'locals': dict(Mx=Mx)}


@transp.ensures
def transpose_times_matrix_is_identity(T):
    # T was transpose(M) and has been multiplied by M in place: M^T . M
    return is_identity(T)


# ---------------------------------------------------------------- P-dispatch (Vec @ Angle)
disp = REG.add(Lemma('dispatch.vec_matmul_angle', PROP, [
    {'call': f'{M}:VecBase.__matmul__', 'args': ['v', 'ang'], 'result': 'got'},
    {'call': f'{M}:MatrixBase.from_angle', 'args': ['cls', 'ang'], 'result': 'mat'},
    {'call': f'{M}:MatrixBase._vec_rot', 'args': ['mat', 'want']},
], inline=('*',)))


@disp.setup
def _(h):
    h.I.math_model = _math_model
    v = _sym_vec(h, 'v')
    ang = Obj('Angle', {'_pitch': h.real('pitch'), '_yaw': h.real('yaw'), '_roll': h.real('roll')}, module=M)
    want = Obj('Vec', dict(v.fields), module=M)
    h.I.global_overrides = {'Py_Matrix': MAT, 'Py_Vec': ClassVal('Vec', M)}
    return {'locals': dict(v=v, ang=ang, cls=MAT, want=want), 'ghost': dict(v0=Obj('Vec', dict(v.fields), module=M))}


@disp.ensures
def equals_rotation_by_from_angle(got, want):
    return same_vec(got, want)


@disp.ensures
def operand_is_not_modified(v, v0):
    return same_vec(v, v0)


PROOFS = list(REG.by_name.values())


# ------------------------------------------------------------------------------------------------ bounded (IEEE)
def _close(a, b, tol=1e-9):
    return all(abs(x - y) <= tol for x, y in zip(a, b))


def _mat_vals(m):
    return [m[i, j] for i in range(3) for j in range(3)]


ANGLES15 = [float(a) for a in range(0, 360, 15)]
NEAR_POLE = [90 - d for d in (1e-12, 1e-9, 1e-6, 1e-4, 1e-3, 0.01, 0.05, 0.057, 0.06, 0.1, 0.5, 1.0, 1.8, 2.0)] + \
            [-90 + d for d in (1e-12, 1e-6, 1e-3, 0.05, 0.06, 0.5, 1.8)] + [90.0, -90.0, 270.0]


def _roundtrip(pyr):
    from srctools.math import Matrix, Angle, Vec
    p, y, r = pyr
    m = Matrix.from_angle(p, y, r)
    vals = _mat_vals(m)
    # proper rotation
    rows_ = [vals[0:3], vals[3:6], vals[6:9]]
    for i in range(3):
        for j in range(3):
            d = sum(a * b for a, b in zip(rows_[i], rows_[j]))
            if abs(d - (1.0 if i == j else 0.0)) > 1e-9:
                return f'from_angle{pyr}: rows {i},{j} dot {d}'
    a = m.to_angle()
    back = Matrix.from_angle(a)
    horiz = math.hypot(vals[0], vals[1])
    tol = 1e-9 if horiz > 0.001 else 2 * horiz + 1e-9
    if not _close(_mat_vals(back), vals, tol):
        worst = max(abs(x - y) for x, y in zip(_mat_vals(back), vals))
        return f'from_angle(to_angle(M)) differs from M by {worst:.3g} (tolerance {tol:.3g}) for angles {pyr}'
    if not _close(_mat_vals(m.inverse()), _mat_vals(m.transpose()), 1e-9):
        return f'inverse() != transpose() for angles {pyr}'
    conv_ = Matrix.from_roll(r) @ Matrix.from_pitch(p) @ Matrix.from_yaw(y)
    if not _close(_mat_vals(conv_), vals, 1e-12):
        return f'from_angle{pyr} != from_roll @ from_pitch @ from_yaw'
    v = Vec(1.5, -2.25, 3.0)
    if not _close(tuple(v @ Angle(p, y, r)), tuple(v @ m), 1e-9):
        return f'Vec @ Angle != Vec @ Matrix.from_angle(Angle) for {pyr}'
    return None


def _dispatch(case):
    """All operand kinds / operator forms on one pair of rotations and one vector."""
    from srctools.math import Matrix, FrozenMatrix, Angle, FrozenAngle, Vec, FrozenVec
    (p1, y1, r1), (p2, y2, r2), vec = case
    A = Matrix.from_angle(p1, y1, r1)
    B = Matrix.from_angle(p2, y2, r2)
    rots = {'Matrix': lambda m: Matrix(m), 'FrozenMatrix': lambda m: FrozenMatrix(m), 'Angle': lambda m: m.to_angle(),
            'FrozenAngle': lambda m: m.to_angle().freeze()}
    vecs = {'Vec': lambda v: Vec(v), 'FrozenVec': lambda v: FrozenVec(v), 'tuple': lambda v: tuple(v)}
    want_AB = _mat_vals(Matrix(A) @ Matrix(B))
    want_v = tuple(Vec(vec) @ A @ B)
    tol = 1e-6     # Euler conversion of intermediate results costs a few ulps * 360
    for ka, fa in rots.items():
        for kb, fb in rots.items():
            a, b = fa(A), fb(B)
            a_before = _mat_vals(Matrix.from_angle(a)) if 'Angle' in ka else _mat_vals(a)
            prod = a @ b
            got = _mat_vals(Matrix.from_angle(prod)) if 'Angle' in type(prod).__name__ else _mat_vals(prod)
            if not _close(got, want_AB, tol):
                return f'{ka} @ {kb} is not the composition A then B'
            if type(prod).__name__ != ka:
                return f'{ka} @ {kb} returns {type(prod).__name__}, expected {ka}'
            a_after = _mat_vals(Matrix.from_angle(a)) if 'Angle' in ka else _mat_vals(a)
            if a_after != a_before:
                return f'{ka} @ {kb} modified its left operand'
            if 'Frozen' not in ka:
                c = fa(A)
                c @= b
                got2 = _mat_vals(Matrix.from_angle(c)) if 'Angle' in ka else _mat_vals(c)
                if not _close(got2, want_AB, tol):
                    return f'{ka} @= {kb} differs from {ka} @ {kb}'
            for kv, fv in vecs.items():
                v = fv(Vec(vec))
                r1_ = (v @ a) @ b
                r2_ = v @ (a @ b)
                if not _close(tuple(r1_), want_v, 1e-6 * max(1.0, max(abs(x) for x in vec))) or \
                        not _close(tuple(r2_), want_v, 1e-6 * max(1.0, max(abs(x) for x in vec))):
                    return f'({kv} @ {ka}) @ {kb} / {kv} @ ({ka} @ {kb}) is not v rotated by A then B'
                want_type = 'Vec' if kv == 'tuple' else kv
                if type(r1_).__name__ != want_type:
                    return f'{kv} @ {ka} returns {type(r1_).__name__}'
                if kv == 'Vec':
                    w = Vec(vec)
                    w @= a
                    w @= b
                    if not _close(tuple(w), want_v, 1e-6 * max(1.0, max(abs(x) for x in vec))):
                        return f'Vec @= {ka}; @= {kb} differs'
    return None


def _compose_case(case):
    """A rotation that is itself a product: rounding can leave |forward.z| a few ulps above 1 exactly at the poles."""
    from srctools.math import Matrix, Angle
    p1, y1, r1, p2, y2, r2 = case
    m = Matrix.from_angle(p1, y1, r1) @ Matrix.from_angle(p2, y2, r2)
    vals = _mat_vals(m)
    a = m.to_angle()
    back = Matrix.from_angle(a)
    horiz = math.hypot(vals[0], vals[1])
    tol = 1e-9 if horiz > 0.001 else 2 * horiz + 1e-9
    if not _close(_mat_vals(back), vals, tol):
        worst = max(abs(x - y) for x, y in zip(_mat_vals(back), vals))
        return f'from_angle(to_angle(A @ B)) differs from A @ B by {worst:.3g} (tolerance {tol:.3g}) for {case}'
    prod = Angle(p1, y1, r1) @ Angle(p2, y2, r2)
    if not _close(_mat_vals(Matrix.from_angle(prod)), vals, 1e-6 if horiz > 0.001 else 2 * horiz + 1e-6):
        return f'Angle @ Angle is not the composition for {case}'
    if not _close(_mat_vals(m.inverse()), _mat_vals(m.transpose()), 1e-9):
        return f'inverse() != transpose() for the product {case}'
    return None


def _job_compose(case):
    try:
        return _compose_case(case)
    except Exception as e:
        return f'{type(e).__name__}: {e}'


def _job_rt(pyr):
    try:
        return _roundtrip(pyr)
    except Exception as e:
        return f'{type(e).__name__}: {e}'


def _job_dispatch(case):
    try:
        return _dispatch(case)
    except Exception as e:
        return f'{type(e).__name__}: {e}'


@bounded('C04.B-roundtrip', bound='pitch/yaw/roll over all multiples of 15 degrees (quick: 45), pitches within 1e-12 .. '
         '2 degrees of the poles with yaw/roll from {0, 33, 120, 250}, seeded random triples',
         rule='one case per angle triple; non-trivial when no angle is 0')
def b_roundtrip(ctx):
    step = ANGLES15 if ctx.thorough else [a for a in ANGLES15 if a % 45 == 0]
    jobs = [(p, y, r) for p in step for y in step for r in step]
    jobs += [(p, y, r) for p in NEAR_POLE for y in (0.0, 33.0, 120.0, 250.0) for r in (0.0, 33.0, 120.0, 250.0)]
    jobs += [(ctx.rng.uniform(-720, 720), ctx.rng.uniform(-720, 720), ctx.rng.uniform(-720, 720))
             for _ in range(2000 if not ctx.thorough else 50000)]
    for job, bad in ctx.pmap(_job_rt, jobs, batch=4096):
        ctx.case(job, nontrivial=all(job))
        if bad:
            near = any(abs(abs((job[0] + 90) % 180 - 0) ) < 2.5 for _ in [0])
            ctx.violation('roundtrip=' + ('near-pole' if abs(abs(job[0] % 180) - 90) < 2.5 else 'general') + ':' + bad.split(' for ')[0][:60],
                          bad, list(job))


@bounded('C04.B-composed', bound='products A @ B of two from_angle rotations whose pitches add up to a pole (all 15 degree '
         'pitch pairs summing to 90 / 270, rolls {0, 30, 105}, second yaw {0, 45}) and seeded pairs on the 15 degree grid '
         '(quick 2000, thorough 40000): to_angle of the product, Angle @ Angle, inverse',
         rule='one case per pair; non-trivial when the product points along a pole')
def b_composed(ctx):
    jobs = []
    for p1 in ANGLES15:
        for pole in (90.0, 270.0):
            for r1 in (0.0, 30.0, 105.0):
                for y2 in (0.0, 45.0):
                    jobs.append((p1, 0.0, r1, (pole - p1) % 360.0, y2, 0.0))
    for _ in range(2000 if not ctx.thorough else 40000):
        jobs.append(tuple(ctx.rng.choice(ANGLES15) for _ in range(6)))
    seen = set()
    for job, bad in ctx.pmap(_job_compose, jobs, batch=4096):
        ctx.case(job, nontrivial=True)
        if bad:
            sig = bad.split(' for ')[0][:50]
            if sig in seen:
                continue
            seen.add(sig)
            ctx.violation('composed=' + sig, bad, list(job))


b_composed.replay = lambda inp: (lambda r: {'failed': bool(r), 'observation': r})(_job_compose(tuple(inp)))
b_roundtrip.replay = lambda inp: (lambda r: {'failed': bool(r), 'observation': r})(_job_rt(tuple(inp)))


@bounded('C04.B-dispatch', bound='4 rotation operand kinds x 4 x 3 vector kinds x operator forms (@, @=, reflected) on '
         '30 (thorough: 400) seeded pairs of rotations and vectors up to magnitude 1e6',
         rule='one case per pair of rotations; all are non-trivial')
def b_dispatch(ctx):
    jobs = []
    for _ in range(30 if not ctx.thorough else 400):
        a = tuple(ctx.rng.choice([0.0, 15.0, 90.0, 45.0, 200.0, 359.0]) if ctx.rng.random() < 0.3 else ctx.rng.uniform(0, 360) for _ in range(3))
        b = tuple(ctx.rng.uniform(0, 360) for _ in range(3))
        mag = ctx.rng.choice([1.0, 100.0, 1e6])
        vec = tuple(ctx.rng.uniform(-mag, mag) for _ in range(3))
        jobs.append((a, b, vec))
    for job, bad in ctx.pmap(_job_dispatch, jobs, batch=64, job_timeout=30.0):
        ctx.case(job)
        if bad:
            ctx.violation('dispatch=' + bad[:70], bad, [list(x) for x in job])


b_dispatch.replay = lambda inp: (lambda r: {'failed': bool(r), 'observation': r})(
    _job_dispatch(tuple(tuple(x) for x in inp)))
BOUNDED = [b_roundtrip, b_composed, b_dispatch]


def _witness(model=None, obligation=None):
    for pyr in [(30.0, 60.0, 90.0), (45.0, 45.0, 45.0), (89.0, 10.0, 20.0), (0.0, 0.0, 0.0), (10.0, 350.0, 5.0)]:
        bad = _job_rt(pyr)
        if bad:
            return {'failed': True, 'angles': pyr, 'observation': bad}
    bad = _job_dispatch(((30.0, 60.0, 90.0), (10.0, 20.0, 40.0), (1.0, 2.0, 3.0)))
    if bad:
        return {'failed': True, 'observation': bad}
    return {'failed': False}


for _c in PROOFS:
    _c.replay_fn = _witness

MUTATIONS = [
    dict(name='to_angle_pitch_by_asin_at_the_pole', file='math.py',
         old="            ang._pitch = math.degrees(math.atan2(-for_z, horiz_dist)) % 360.0 % 360.0\n            ang._roll = 0.0  # Can't produce.",
         new="            ang._pitch = math.degrees(math.asin(-for_z)) % 360.0 % 360.0\n            ang._roll = 0.0  # Can't produce.",
         expect='composed='),
    dict(name='inplace_square_reads_overwritten_rows', file='math.py',
         old="            if other is self:\n                # m @= m, we'd be reading rows that were already overwritten.\n                other = self.copy()\n",
         new="", expect='inplace.matmul_with_itself'),
    dict(name='from_angle_sign', file='math.py', old="        rot._ac = -sin_p\n", new="        rot._ac = sin_p\n", expect='rot.from_angle'),
    dict(name='mat_mul_transposed_index', file='math.py',
         old="            self._aa * other._ab + self._ab * other._bb + self._ac * other._cb,",
         new="            self._aa * other._ba + self._ab * other._bb + self._ac * other._cb,", expect='C04'),
    dict(name='vec_rot_swapped', file='math.py',
         old="        vec._y = (x * self._ab) + (y * self._bb) + (z * self._cb)",
         new="        vec._y = (x * self._ba) + (y * self._bb) + (z * self._bc)", expect='C04'),
    dict(name='to_angle_atan2_swapped', file='math.py',
         old="            ang._yaw = math.degrees(math.atan2(for_y, for_x)) % 360.0 % 360.0",
         new="            ang._yaw = math.degrees(math.atan2(for_x, for_y)) % 360.0 % 360.0", expect='roundtrip'),
    dict(name='matmul_angle_wrong_order', file='math.py',
         old="            mat = Py_Matrix(self)\n            mat._mat_mul(Py_Matrix.from_angle(other))",
         new="            mat = Py_Matrix.from_angle(other)\n            mat._mat_mul(self)", expect='dispatch'),
    dict(name='transpose_wrong_index', file='math.py',
         old="        rot._ba, rot._bb, rot._bc = self._ab, self._bb, self._cb",
         new="        rot._ba, rot._bb, rot._bc = self._ab, self._bb, self._bc", expect='transpose'),
    dict(name='gimbal_threshold_squared', file='math.py',
         old="        horiz_dist = math.sqrt(for_x**2 + for_y**2)\n        if horiz_dist > 0.001:",
         new="        horiz_dist = math.sqrt(for_x**2 + for_y**2)\n        if for_x**2 + for_y**2 > 0.001:", expect='roundtrip'),
]
HARMLESS = [
    dict(name='from_angle_reordered_temps', file='math.py',
         old="        cos_r_cos_y = cos_r * cos_y\n        cos_r_sin_y = cos_r * sin_y",
         new="        cos_r_sin_y = cos_r * sin_y\n        cos_r_cos_y = cos_y * cos_r"),
]
