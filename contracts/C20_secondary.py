"""C20 -- secondary format writers emit files their own readers reproduce.

Proof tier (pyvc, real code) - the field codecs that "representable" is defined by:
  cmdseq.pad_strip        strip_cstring(pad_string(text, n)) == text for every NUL-free text with len(text) <= n, the padded
                          field is exactly n long, longer texts are rejected; junk after the terminator is ignored;
  choreo.quantise.*       the statement that quantises a tag / ramp value in Tag.export_binary, AbsoluteTag (same code, other
                          constants) and Curve.export_binary maps the decoder's result k / FACTOR back to k for every storable
                          k (so writing what was read gives identical bytes), clamps everything into the storable range and
                          is within half a step of the input (real arithmetic);
AST obligations: scenes.image entries are sorted by checksum before they are written; the relative-tag record written by
Event.export_binary has the layout Event.parse_binary reads; every string the VCD text writer emits inside quotes is
escaped; VMT text is written without escapes (the reader has none); sound script ranges are written quoted.
Bounded tier: generated values of every format through write -> read -> write (contracts/c20_small_support.py,
contracts/c20_choreo_support.py).
"""
import ast
import random
import re

import z3

from pyvc import extract, smt
from pyvc.driver import bounded
from pyvc.symexec import Builtin, ClassVal, Obj, Unsupported, to_z3
from pyvc.vc import Lemma, Registry, native

REG = Registry()
PROP = 'C20'
LEVEL = 'other'
EXPLANATION = ('The fixed-width string codec of command sequences and the quantisation statements of binary scenes are '
               'proved on the real code for all inputs; AST obligations tie writer and reader of the relative-tag record, '
               'the checksum ordering of scenes.image and the escaping discipline of the text writers. The whole-file '
               'round trips of the six formats (write, read back equal, write again identical) are a bounded stand-in over '
               'generated values, not proofs.')
TRUSTED = ['bytes modelled as strings of code points 0..255; encode/decode("ascii") the identity on them',
           'float arithmetic in the quantisation lemmas treated as real arithmetic', 'struct pack/unpack',
           'escape_text / tokenizer (C02)']
UNVERIFIED = ['whole-file writers/readers of the six formats (bounded only)', 'LZMA / CRC in scenes.image']
TIMEOUT_MS = {'quick': 30000, 'thorough': 120000}


# ------------------------------------------------------------------------------------------------ cmdseq strings
def _bytes_model(h):
    def ext(I, obj, name, lineno):
        if name in ('encode', 'decode'):
            return Builtin(name, lambda enc='ascii': obj)
        return None
    h.I.extra_methods = ext
    h.I.bytes_as_latin1_str = True


PAD = REG.add(Lemma('cmdseq.pad_strip', PROP, [
    {'call': 'cmdseq:pad_string', 'args': ['text', 'length'], 'result': 'raw'},
    {'call': 'cmdseq:strip_cstring', 'args': ['raw'], 'result': 'back'},
]))
PAD.raises('ValueError')


@PAD.setup
def _pad(h):
    _bytes_model(h)
    t, n = h.str('text'), h.int('length')
    h.assume(n >= 0)
    h.assume(z3.Not(z3.Contains(t, z3.StringVal('\x00'))))
    return {'locals': dict(text=t, length=n), 'ghost': dict(T=t, N=n)}


@native
def length(I, s):
    return z3.Length(to_z3(s))


@PAD.ensures
def text_survives_the_padded_field(back, T):
    return back == T


@PAD.ensures
def field_has_exactly_the_fixed_width(raw, N):
    return length(raw) == N


@PAD.ensures
def only_texts_that_fit_are_written(T, N):
    return length(T) <= N


@PAD.on_raise('ValueError')
def rejected_only_when_too_long(T, N):
    return length(T) > N


JUNK = REG.add(Lemma('cmdseq.strip_ignores_junk_after_terminator', PROP, [
    {'call': 'cmdseq:strip_cstring', 'args': ['raw'], 'result': 'back'},
]))


@JUNK.setup
def _junk(h):
    _bytes_model(h)
    t, junk = h.str('text'), h.str('junk')
    h.assume(z3.Not(z3.Contains(t, z3.StringVal('\x00'))))
    return {'locals': dict(raw=z3.Concat(t, z3.StringVal('\x00'), junk)), 'ghost': dict(T=t)}


@JUNK.ensures
def text_before_the_first_nul_is_returned(back, T):
    return back == T


# ------------------------------------------------------------------------------------------------ choreo quantisation
def _round_half_even(I, x, nd):
    if nd is not None:
        raise Unsupported('round(x, n) of a symbolic value')
    x = to_z3(x)
    if z3.is_int(x):
        return x
    fl = z3.ToInt(x)
    frac = x - z3.ToReal(fl)
    half = z3.RealVal('1/2')
    return z3.If(frac < half, fl, z3.If(frac > half, fl + 1, z3.If(fl % 2 == 0, fl, fl + 1)))


def _quantise_stmt(fn):
    """The assignment `value = min(MAX, max(0, round(X * FACTOR)))` inside the export loop."""
    for n in ast.walk(fn):
        if isinstance(n, ast.Assign) and ast.unparse(n.targets[0]) == 'value' and 'round(' in ast.unparse(n.value):
            return [n]
    return []


def _quant_lemma(name, target, cls, var, factor, maxv, readback):
    """readback=True: the input is what the decoder produces for a stored k (k / factor); False: any real input."""
    lem = REG.add(Lemma(name, PROP, [{'stmts': target, 'select': _quantise_stmt}]))

    def setup(h):
        h.I.round_model = _round_half_even
        if readback:
            k = h.int('stored')
            h.assume(z3.And(k >= 0, k <= maxv))
            v = z3.ToReal(k) / z3.RealVal(factor)
        else:
            k = None
            v = h.real('input')
        loc = {var: Obj('Sample', {'value': v}, module='')}
        if cls:
            loc['cls'] = ClassVal(cls, 'choreo')
        return {'locals': loc, 'ghost': dict(K=k if k is not None else 0, V=v, FACTOR=factor, MAXV=maxv)}
    lem.setup(setup)
    if readback:
        @lem.ensures
        def stored_value_is_reproduced(value, K):
            return value == K
    else:
        @lem.ensures
        def result_is_storable(value, MAXV):
            return 0 <= value and value <= MAXV

        @lem.ensures
        def within_half_a_step_inside_the_range(value, V, FACTOR, MAXV):
            return implies(V * FACTOR >= 0 and V * FACTOR <= MAXV,
                           (value - V * FACTOR) * 2 <= 1 and (V * FACTOR - value) * 2 <= 1)
    return lem


QUANT = [
    _quant_lemma('choreo.quantise.tag.readback', 'choreo:Tag.export_binary', 'Tag', 'tag', 255, 255, True),
    _quant_lemma('choreo.quantise.tag.any', 'choreo:Tag.export_binary', 'Tag', 'tag', 255, 255, False),
    _quant_lemma('choreo.quantise.absolute_tag.readback', 'choreo:Tag.export_binary', 'AbsoluteTag', 'tag', 4096, 65535, True),
    _quant_lemma('choreo.quantise.absolute_tag.any', 'choreo:Tag.export_binary', 'AbsoluteTag', 'tag', 4096, 65535, False),
    _quant_lemma('choreo.quantise.ramp.readback', 'choreo:Curve.export_binary', None, 'sample', 255, 255, True),
    _quant_lemma('choreo.quantise.ramp.any', 'choreo:Curve.export_binary', None, 'sample', 255, 255, False),
]
PROOFS = [PAD, JUNK] + QUANT


# ------------------------------------------------------------------------------------------------ AST obligations
def _res(name, ok, line=0, note=''):
    r = smt.Result(name, 'proved' if ok else 'refuted', 'ast-scan', 0.0, {}, line, 0, note)
    r.replay_fn = _witness
    return r


def _shape(name, good, bad=False, line=0, note=''):
    """good: the shape the argument needs is present; bad: a shape known to break the property is present; neither:
    the code was restructured - undecided, never a violation."""
    r = smt.shape(name, good, bad, line, note)
    r.replay_fn = _witness
    return r


def static_choreo(repo):
    mod = extract.load('choreo')
    out = []
    # constants the quantisation lemmas were proved for
    for cls, factor, maxv in (('Tag', 255.0, 255), ('AbsoluteTag', 4096.0, 65535)):
        try:
            f, m = mod.const(f'{cls}._FACTOR'), mod.const(f'{cls}._MAX')
        except Exception as e:
            f, m = None, repr(e)
        out.append(_res(f'choreo.quantise.{cls.lower()}_constants', f == factor and m == maxv, note=f'{f}, {m}'))
    # decoder divides by the same factor the encoder multiplies with
    tp = ast.unparse(mod.find('Tag.parse_binary'))
    out.append(_shape('choreo.quantise.tag_decoder_divides_by_the_factor', 'value / cls._FACTOR' in tp,
                      'value / 255' in tp or 'value * cls._FACTOR' in tp))
    cp = ast.unparse(mod.find('Curve.parse_binary'))
    out.append(_shape('choreo.quantise.ramp_decoder_divides_by_255', 'value / 255.0' in cp, 'value / 256' in cp or 'value / 254' in cp))
    # the range of AbsoluteTag is really declared (attrs only sees fields of decorated classes)
    at = mod.classdef('AbsoluteTag')
    decorated = any('attrs.define' in ast.unparse(d) or 'attrs.frozen' in ast.unparse(d) for d in at.decorator_list)
    out.append(_res('choreo.absolute_tag_range_is_declared', decorated, at.lineno))
    # relative tag record: one flag byte, then '<hh'
    ex = mod.find('Event.export_binary')
    pa = mod.find('Event.parse_binary')
    wsrc, rsrc = ast.unparse(ex), ast.unparse(pa)
    w_ok = "file.write(b'\\x01')" in wsrc and "struct.pack('<hh', add_to_pool(self.tag_name or ''), add_to_pool(self.tag_wav_name or ''))" in wsrc
    r_ok = "file.read(1) != b'\\x00'" in rsrc and "binformat.struct_read('<hh', file)" in rsrc
    out.append(_shape('choreo.relative_tag_record_layout_agrees', w_ok and r_ok,
                      "'<Bhh'" in wsrc and "struct_read('<hh'" in rsrc, ex.lineno))
    # scenes.image: sorted by checksum before writing
    sv = mod.find('save_scenes_image_sync')
    ssrc = ast.unparse(sv)
    sort_line = [n.lineno for n in ast.walk(sv) if isinstance(n, ast.Call) and ast.unparse(n.func).endswith('.sort')
                 and 'checksum' in ast.unparse(n)]
    first_write = min([n.lineno for n in ast.walk(sv) if isinstance(n, ast.Call) and ast.unparse(n.func).endswith('.write')]
                      or [10 ** 9])
    sorts_somehow = 'checksum' in ssrc and ('.sort(' in ssrc or 'sorted(' in ssrc)
    out.append(_shape('choreo.image_entries_sorted_by_checksum_before_writing', bool(sort_line) and sort_line[0] < first_write,
                      not sorts_somehow, sv.lineno))
    # text writer: every "{X}" interpolation inside double quotes is escape_text(X) or a number/enum
    bad = []
    unrecognised = []
    count = 0
    for fn in [n for n in ast.walk(mod.tree) if isinstance(n, ast.FunctionDef) and n.name == 'export_text']:
        for js in [n for n in ast.walk(fn) if isinstance(n, ast.JoinedStr)]:
            vals = js.values
            for i, v in enumerate(vals):
                if not isinstance(v, ast.FormattedValue):
                    continue
                before = vals[i - 1].value if i and isinstance(vals[i - 1], ast.Constant) else ''
                after = vals[i + 1].value if i + 1 < len(vals) and isinstance(vals[i + 1], ast.Constant) else ''
                if not (isinstance(before, str) and before.endswith('"') and isinstance(after, str) and after.startswith('"')):
                    continue
                count += 1
                src = ast.unparse(v.value)
                if isinstance(v.value, ast.Call) and ast.unparse(v.value.func) == 'escape_text':
                    continue
                if re.fullmatch(r'(self|sample|tag|track)\.(pitch|yaw|loop_count|curve_type|value|time)', src) or \
                        src.startswith(('CAPTION_TYPE_TO_NAME[', 'EVENT_TYPE', 'self.type', 'self.loop_count')):
                    continue        # numbers and enum names
                (bad if src in ('self.cc_token', 'key', 'self.name', 'tag.name', 'self.map_name', 'self.parameters[0]') else
                 unrecognised).append((js.lineno, src))
    out.append(_shape('choreo.text_strings_are_escaped', count >= 8 and not bad and not unrecognised, bool(bad),
                      bad[0][0] if bad else 0, str((bad or unrecognised)[:4])))
    return out


def static_small(repo):
    out = []
    snd = extract.load('sndscript').find('Sound.export')
    src = ast.unparse(snd)
    bare = [m for m in re.findall(r"\\t(soundlevel|volume|pitch) \{join_float", src)]
    out.append(_shape('sndscript.ranges_are_written_quoted', not bare and src.count('"{join_float(') == 3, bool(bare), snd.lineno,
                      str(bare)))
    vmt = extract.load('vmt')
    ex = vmt.find('Material.export')
    esrc = ast.unparse(ex)
    pa = ast.unparse(vmt.find('Material.parse'))
    reader_no_esc = 'allow_escapes=False' in pa
    writes_escaped = '.serialise(' in esrc or 'escape_text(' in esrc
    out.append(_shape('vmt.writer_produces_no_escapes_the_reader_would_not_undo', not (reader_no_esc and writes_escaped),
                      reader_no_esc and writes_escaped, ex.lineno))
    out.append(_shape('vmt.shader_name_is_quoted_when_needed', 'quote(self.shader)' in esrc, 'f.write(self.shader +' in esrc, ex.lineno))
    smd = extract.load('smd').find('Mesh.export')
    ssrc = ast.unparse(smd)
    out.append(_shape('smd.link_count_is_separated_from_the_uv', "b' %i' % (len(vert.links)" in ssrc,
                      "b'%i' % (len(vert.links)" in ssrc, smd.lineno))
    out.append(_shape('smd.bones_are_numbered_in_a_reproducible_order', 'set(self.bones.values())' not in ssrc,
                      'set(self.bones.values())' in ssrc, smd.lineno))
    pcf = extract.load('particles')
    psrc = ast.unparse(pcf.find('Particle.export'))
    out.append(_shape('pcf.attribute_names_keep_their_case', '.name.casefold()] = copy.deepcopy' not in psrc,
                      '.name.casefold()] = copy.deepcopy' in psrc))
    rsrc = ast.unparse(pcf.find('Particle.parse'))
    out.append(_shape('pcf.element_name_is_not_copied_into_options', "!= 'name'" in rsrc, "copy.deepcopy(dict(ele))" in rsrc))
    return out


STATIC = [static_choreo, static_small]


# ------------------------------------------------------------------------------------------------ bounded
SND_RAW = 'sndscript.name_or_wave_needs_escaping'
FLEX_TEXT = 'choreo.text.flex_anim_tracks'


def _snd_needs_escape(sounds):
    def odd(s):
        return any(c in s for c in '"\\\n\t\r') or any(ord(c) < 32 for c in s)
    return any(odd(s.name) or any(odd(w) for w in s.sounds) for s in sounds)


def _job_small(job):
    fmt, seed = job
    from contracts import c20_small_support as S
    rng = random.Random(seed)
    try:
        value = S.gen(fmt, rng)
    except Exception as e:
        return ('harness', f'gen {fmt}: {type(e).__name__}: {e}')
    try:
        d = S.check(fmt, value)
    except Exception as e:
        d = f'{type(e).__name__}: {str(e)[:150]}'
    if d and fmt == 'sndscript' and _snd_needs_escape(value):
        return ('known', SND_RAW, d)
    return ('ok', fmt) if not d else ('bad', d)


def _job_small_targeted(job):
    fmt, idx = job
    from contracts import c20_small_support as S
    name, make = S.TARGETED[fmt][idx]
    try:
        value = make()
        d = S.check(fmt, value)
    except Exception as e:
        value = None
        d = f'{type(e).__name__}: {str(e)[:150]}'
    if d and fmt == 'sndscript' and value is not None and _snd_needs_escape(value):
        return ('known', SND_RAW, d)
    return ('ok', name) if not d else ('bad', f'{name}: {d}')


def _has_flex(scene):
    return any(ev.flex_anim_tracks for ev in scene.iter_events()) if hasattr(scene, 'iter_events') else True


def _job_choreo(seed):
    from contracts import c20_choreo_support as S
    rng = random.Random(seed)
    try:
        scene = S.gen_scene(rng)
    except Exception as e:
        return ('harness', f'gen_scene: {type(e).__name__}: {e}')
    bad = []
    known = []
    try:
        d = S.check_text(scene)
    except Exception as e:
        d = f'{type(e).__name__}: {str(e)[:150]}'
    if d:
        if 'NotImplementedError' in d or 'unbalanced braces' in d:
            known.append((FLEX_TEXT, d))
        else:
            bad.append(('text', d))
    try:
        d = S.check_binary(scene)
    except Exception as e:
        d = f'{type(e).__name__}: {str(e)[:150]}'
    if d:
        bad.append(('binary', d))
    if seed % 4 == 0:
        try:
            scenes = [scene] + [S.gen_scene(rng) for _ in range(rng.choice([0, 1, 2]))]
            d = S.check_image(scenes, 2 + (seed // 4) % 2, rng)
        except Exception as e:
            d = f'{type(e).__name__}: {str(e)[:150]}'
        if d:
            bad.append(('image', d))
    if bad:
        return ('bad', bad)
    if known:
        return ('known', known[0][0], known[0][1])
    return ('ok', 1)


def _job_choreo_targeted(idx):
    from contracts import c20_choreo_support as S
    items = list(S.TARGETED)
    if idx >= len(items):
        name, fn = S.EXTRA_CHECKS[idx - len(items)]
        try:
            d = fn()
        except Exception as e:
            d = f'{type(e).__name__}: {str(e)[:150]}'
        return ('ok', name) if not d else ('bad', f'{name}: {d}')
    name, make = items[idx]
    out = []
    for kind, fn in (('text', S.check_text), ('binary', S.check_binary)):
        try:
            d = fn(make())
        except Exception as e:
            d = f'{type(e).__name__}: {str(e)[:150]}'
        if d:
            if kind == 'text' and ('NotImplementedError' in d or 'unbalanced braces' in d):
                return ('known', FLEX_TEXT, f'{name}: {d}')
            out.append(f'{name} {kind}: {d}')
    for version in (2, 3):
        try:
            d = S.check_image([make()], version, random.Random(idx))
        except Exception as e:
            d = f'{type(e).__name__}: {str(e)[:150]}'
        if d:
            out.append(f'{name} image v{version}: {d}')
    return ('ok', name) if not out else ('bad', out[0])


def _sig(text):
    return ''.join(ch for ch in text if ch.isalpha() or ch in ' ._')[:40]


def _report(ctx, key, res, inp, seen):
    if isinstance(res, str):
        ctx.violation(key, res, inp)
        return
    if res[0] == 'known':
        ctx.violation(res[1], res[2], inp)
        return
    if res[0] != 'ok':
        what = res[1] if isinstance(res[1], str) else f'{res[1][0][0]}: {res[1][0][1]}'
        sig = key.split('.seed')[0] + ':' + _sig(what)
        if sig in seen:
            return
        seen.add(sig)
        ctx.violation(key, what, inp)


@bounded('C20.B-small', bound='command sequences, soundscripts, VMT materials, SMD meshes and PCF particle systems: all targeted '
         'cases + generated values per format (every enum member / optional block / field-width edge over the seeds); write -> '
         'read equal -> write again byte-identical; quick 700 values per format, thorough 20000',
         rule='a value counts once')
def b_small(ctx):
    from contracts import c20_small_support as S
    seen = set()
    jobs = [(fmt, i) for fmt in S.FORMATS for i in range(len(S.TARGETED[fmt]))]
    for job, res in ctx.pmap(_job_small_targeted, jobs, job_timeout=20.0):
        ctx.case(job)
        _report(ctx, f'{job[0]}.targeted={S.TARGETED[job[0]][job[1]][0]}', res, list(job), seen)
    n = 20000 if ctx.thorough else 700
    jobs = [(fmt, ctx.seed * 49979687 + i) for i in range(n) for fmt in S.FORMATS]
    for job, res in ctx.pmap(_job_small, jobs, batch=1024, job_timeout=20.0):
        ctx.case(job)
        _report(ctx, f'{job[0]}.seed={job[1]}', res, list(job), seen)


@bounded('C20.B-choreo', bound='choreographed scenes: targeted scenes and container checks + generated scenes (all event types, '
         'enums, tags, ramps, flex tracks, names needing quotes) through text, binary (up to the format\'s quantisation) and, for '
         'every fourth scene, the scenes.image container versions 2 / 3 (sorted by checksum, summaries consistent); quick 400 '
         'scenes, thorough 12000', rule='a scene counts once')
def b_choreo(ctx):
    from contracts import c20_choreo_support as S
    seen = set()
    total = len(S.TARGETED) + len(S.EXTRA_CHECKS)
    for idx, res in ctx.pmap(_job_choreo_targeted, list(range(total)), job_timeout=60.0):
        ctx.case(('targeted', idx))
        _report(ctx, f'choreo.targeted={idx}', res, [idx], seen)
    n = 12000 if ctx.thorough else 400
    for job, res in ctx.pmap(_job_choreo, [ctx.seed * 86028121 + i for i in range(n)], batch=256, job_timeout=60.0):
        ctx.case(job)
        _report(ctx, f'choreo.seed={job}', res, [job], seen)


def _replay_small(inp):
    res = _job_small_targeted(tuple(inp)) if isinstance(inp[1], int) and inp[1] < 200 else _job_small(tuple(inp))
    return {'failed': isinstance(res, str) or res[0] not in ('ok',), 'observation': res}


def _replay_choreo(inp):
    res = _job_choreo_targeted(inp[0]) if inp[0] < 200 else _job_choreo(inp[0])
    return {'failed': isinstance(res, str) or res[0] not in ('ok',), 'observation': res}


b_small.replay = _replay_small
b_choreo.replay = _replay_choreo
BOUNDED = [b_small, b_choreo]
_WITNESS = []


def _witness(model=None, obligation=None):
    from pyvc.driver import _call_with_timeout
    if _WITNESS:
        return _WITNESS[0]
    out = {'failed': False}
    try:
        from contracts import c20_small_support as S
        from contracts import c20_choreo_support as C
        for fmt in S.FORMATS:
            for i in range(len(S.TARGETED[fmt])):
                res = _call_with_timeout((_job_small_targeted, (fmt, i), 20.0))
                if isinstance(res, str) or res[0] == 'bad':
                    out = {'failed': True, 'scenario': f'{fmt}:{S.TARGETED[fmt][i][0]}', 'observation': res}
                    break
            if out['failed']:
                break
        if not out['failed']:
            for idx in range(len(C.TARGETED) + len(C.EXTRA_CHECKS)):
                res = _call_with_timeout((_job_choreo_targeted, idx, 60.0))
                if isinstance(res, str) or res[0] == 'bad':
                    out = {'failed': True, 'scenario': f'choreo targeted {idx}', 'observation': res}
                    break
    except Exception as e:
        out = {'failed': False, 'error': f'{type(e).__name__}: {e}'}
    _WITNESS.append(out)
    return out


for _c in PROOFS:
    _c.replay_fn = _witness


# ------------------------------------------------------------------------------------------------ self-test catalogue
MUTATIONS = [
    dict(name='image_string_pool_keyed_by_casefold', file='choreo.py',
         old="    add_to_pool = binformat.find_or_insert(pool, lambda x: x)\n    deferred = binformat.DeferredWrites(file)",
         new="    add_to_pool = binformat.find_or_insert(pool, str.casefold)\n    deferred = binformat.DeferredWrites(file)",
         expect='choreo.targeted'),
    dict(name='cmdseq_pad_allows_one_too_many', file='cmdseq.py', old="    if len(text) > length:", new="    if len(text) > length + 1:",
         expect='cmdseq.pad_strip'),
    dict(name='cmdseq_strip_keeps_terminator', file='cmdseq.py', old="        return data[:data.index(b'\\0')].decode('ascii')",
         new="        return data[:data.index(b'\\0') + 1].decode('ascii')", expect='cmdseq.'),
    dict(name='tag_quantise_truncates', file='choreo.py', old="            value = min(cls._MAX, max(0, round(tag.value * cls._FACTOR)))",
         new="            value = min(cls._MAX, max(0, int(tag.value * cls._FACTOR + 0.4)))", expect='choreo.quantise.tag.any'),
    dict(name='ramp_quantise_not_clamped', file='choreo.py', old="            value = min(255, max(0, round(sample.value * 255.0)))\n            file.write(self.BIN_FMT",
         new="            value = max(0, round(sample.value * 255.0))\n            file.write(self.BIN_FMT", expect='choreo.quantise.ramp.any'),
    dict(name='absolute_tag_factor_changed', file='choreo.py', old="    _FACTOR: ClassVar[float] = 4096.0", new="    _FACTOR: ClassVar[float] = 4095.0",
         expect='choreo.quantise.absolutetag_constants'),
    dict(name='absolute_tag_undecorated', file='choreo.py', old="@attrs.define\nclass AbsoluteTag(Tag):", new="class AbsoluteTag(Tag):",
         expect='choreo.absolute_tag_range_is_declared'),
    dict(name='relative_tag_flag_twice', file='choreo.py', old="                '<hh',\n                add_to_pool(self.tag_name or ''),",
         new="                '<Bhh', True,\n                add_to_pool(self.tag_name or ''),", expect='choreo.relative_tag_record_layout_agrees'),
    dict(name='cctoken_unescaped', file='choreo.py', old="""cctoken "{escape_text(self.cc_token)}\"""", new="""cctoken "{self.cc_token}\"""",
         expect='choreo.text_strings_are_escaped'),
    dict(name='image_not_sorted', file='choreo.py', old="    scene_list.sort(key=lambda entry: entry.checksum)", new="    pass",
         expect='choreo.image_entries_sorted_by_checksum_before_writing'),
    dict(name='sndscript_range_unquoted', file='sndscript.py', old="""            file.write(f'\\tpitch "{join_float(self.pitch)}"\\n')""",
         new="""            file.write(f'\\tpitch {join_float(self.pitch)}\\n')""", expect='sndscript.ranges_are_written_quoted'),
    dict(name='smd_link_count_glued', file='smd.py', old="file.write(b' %i' % (len(vert.links), ))", new="file.write(b'%i' % (len(vert.links), ))",
         expect='smd.link_count_is_separated_from_the_uv'),
    dict(name='pcf_names_casefolded', file='particles.py', old="                part_elem[option.name] = copy.deepcopy(option)",
         new="                part_elem[option.name.casefold()] = copy.deepcopy(option)", expect='pcf.attribute_names_keep_their_case'),
    dict(name='vmt_blocks_serialised_escaped', file='vmt.py', old="        for block in self.blocks:\n            write_block(block, '\\t')",
         new="        for block in self.blocks:\n            block.serialise(f, start_indent='\\t')", expect='vmt.writer_produces_no_escapes'),
    dict(name='cmdseq_no_wait_dropped', file='cmdseq.py', old="            no_wait=bool(no_wait),", new="            no_wait=False,", expect='VIOLATION'),
]
HARMLESS = [
    dict(name='pad_string_spelled_out', file='cmdseq.py', old="    return text.encode('ascii') + b'\\0' * (length - len(text))",
         new="    data = text.encode('ascii')\n    return data + b'\\0' * (length - len(text))"),
]
