"""C11 -- every BSP lump writer is the inverse of its reader.

Proof tier: run-length codec segment lemmas (one arbitrary iteration of the real encoder / decoder loop on symbolic
buffers), find_or_insert, LZMA header packing.  Bounded tier: find_or_extend, RLE round trip on enumerated byte
strings, and write -> read pairs of the structured lumps on the sample BSP.
"""
import io
import itertools
import os

import z3

from pyvc import smt
from pyvc.arrays import SArr
from pyvc.driver import bounded
from pyvc.symexec import to_z3, UninterpFn
from pyvc.vc import Contract, Lemma, Registry, native

REG = Registry()
PROP = 'C11'
LEVEL = 'other'
EXPLANATION = ('Codec kernels proved for all inputs: each iteration of runlength_encode emits, for a literal run L '
               'followed by k zeros, exactly L then markers (0,c_i) with 1 <= c_i <= 255 and sum c_i = k; each '
               'iteration of runlength_decode turns L,(0,c) into L followed by c zeros; find_or_insert returns a stable '
               'index of an equal-keyed element; LZMA property byte packing is inverse. The round-trip theorem for '
               'whole buffers is the structural induction over these segments (fixed meta-argument, not re-derived '
               'mechanically). Structured lumps (props, nodes/leafs, texinfo, ...) are decided only by the bounded '
               'write->read stand-in on the sample BSP.')
TRUSTED = ['bytes.index summary (least index)', 'struct.pack/unpack are mutually inverse per format code',
           'lzma module (payload compression)']
UNVERIFIED = ['cross-referenced lump writers beyond the bounded family', 'float32 rounding of coordinates',
              'face lumps (LDR / HDR / original): the sample map has no faces, the bounded tier writes three hand-built ones']
TIMEOUT_MS = {'quick': 60000, 'thorough': 240000}


@native
def at(I, buf, i):
    return buf.arr[to_z3(i)]


@native
def prefix_kept(I, new, old, n):
    """new[k] == old[k] for all 0 <= k < n."""
    k = z3.Int(I.path.fresh_name('pk'))
    return z3.ForAll([k], z3.Implies(z3.And(k >= 0, k < to_z3(n)), new.arr[k] == old.arr[k]))


@native
def copied(I, dst, dst_off, src, src_off, n):
    """dst[dst_off + k] == src[src_off + k] for 0 <= k < n."""
    k = z3.Int(I.path.fresh_name('ck'))
    return z3.ForAll([k], z3.Implies(z3.And(k >= 0, k < to_z3(n)),
                                     dst.arr[to_z3(dst_off) + k] == src.arr[to_z3(src_off) + k]))


@native
def all_zero(I, buf, lo, hi):
    k = z3.Int(I.path.fresh_name('zk'))
    return z3.ForAll([k], z3.Implies(z3.And(k >= to_z3(lo), k < to_z3(hi)), buf.arr[k] == 0))


@native
def none_zero(I, buf, lo, hi):
    k = z3.Int(I.path.fresh_name('nk'))
    return z3.ForAll([k], z3.Implies(z3.And(k >= to_z3(lo), k < to_z3(hi)), buf.arr[k] != 0))


def _rle_bufs(h):
    size = h.int('size')
    pos = h.int('pos')
    rlen = h.int('rlen')
    h.assume(z3.And(size >= 1, pos >= 0, pos < size, rlen >= 0))
    data = h.arr('data', size, 'bytes', ints=True)
    result = h.arr('result', rlen, 'bytearray', ints=True)
    for a in (data, result):
        j = z3.Int('rle!j')
        h.assume(z3.ForAll([j], z3.And(a.arr[j] >= 0, a.arr[j] <= 255)))
    return dict(size=size, pos=pos, data=data, view=data, result=result, R_len=rlen, pos0=pos,
                result0=SArr(result.arr, result.length))


# ------------------------------------------------------------------------------------------------ encoder segment
enc = REG.add(Lemma('rle.encode.segment', PROP, [{'body': 'bsp:runlength_encode', 'loop': 0}]))
enc.setup(lambda h: {'locals': _rle_bufs(h)})


@enc.invariant(1)
def zero_scan(data, zero_ind, zero_end, size):
    return zero_ind <= zero_end and zero_end <= size and all_zero(data, zero_ind, zero_end)


@enc.decreases(1)
def zero_scan_variant(zero_end, size):
    return size - zero_end


@enc.invariant(2)
def chunks_so_far(result, result0, data, dist, zero_ind, zero_end, pos, R_len):
    return (chunk_count(dist, zero_ind, zero_end) >= 0
            and (zero_end - zero_ind - dist) % 255 == 0
            and dist > -255 and dist <= zero_end - zero_ind
            and len(result) == R_len + (zero_ind - pos) + 2 * chunk_count(dist, zero_ind, zero_end)
            and prefix_kept(result, result0, R_len)
            and copied(result, R_len, data, pos, zero_ind - pos)
            and markers(result, R_len + (zero_ind - pos), chunk_count(dist, zero_ind, zero_end), zero_end - zero_ind))


def chunk_count(dist, zero_ind, zero_end):
    return (zero_end - zero_ind - dist) / 255


@native
def markers(I, result, base, count, total):
    """count markers starting at base: result[base+2i] == 0 and result[base+2i+1] == min(255, total - 255 i) >= 1."""
    i = z3.Int(I.path.fresh_name('mi'))
    b, c, t = to_z3(base), to_z3(count), to_z3(total)
    val = z3.If(t - 255 * i < 255, t - 255 * i, 255)
    return z3.ForAll([i], z3.Implies(z3.And(i >= 0, i < c),
                                     z3.And(result.arr[b + 2 * i] == 0,
                                            result.arr[b + 2 * i + 1] == val, val >= 1)))


@enc.decreases(2)
def chunk_variant(dist):
    return dist + 255


@enc.ensures
def literal_run_then_zero_run(data, pos0, zero_ind, zero_end, size):
    # shape of the consumed input: zero-free literal run, then a maximal run of zeros
    return (pos0 <= zero_ind and zero_ind < zero_end and zero_end <= size
            and none_zero(data, pos0, zero_ind) and all_zero(data, zero_ind, zero_end)
            and (zero_end == size or at(data, zero_end) != 0))


@enc.ensures
def consumed_exactly_that(pos, zero_end, pos0):
    return pos == zero_end and pos > pos0


@enc.ensures
def emitted_literal_then_markers(result, result0, data, pos0, zero_ind, zero_end, R_len, dist):
    # j markers (0, c_i) follow the literal run, c_i = min(255, k - 255 i) >= 1 with k the length of the zero run and
    # 255 (j-1) < k <= 255 j -- so the counts add up to exactly k and no marker has count 0
    return (len(result) == R_len + (zero_ind - pos0) + 2 * chunk_count(dist, zero_ind, zero_end)
            and 255 * chunk_count(dist, zero_ind, zero_end) >= zero_end - zero_ind
            and 255 * (chunk_count(dist, zero_ind, zero_end) - 1) < zero_end - zero_ind
            and prefix_kept(result, result0, R_len)
            and copied(result, R_len, data, pos0, zero_ind - pos0)
            and markers(result, R_len + (zero_ind - pos0), chunk_count(dist, zero_ind, zero_end), zero_end - zero_ind))


@enc.ensures
def tail_without_zero_is_copied(result, result0, data, pos0, size, R_len, exit_kind):
    return implies(exit_kind == 'break',
                   none_zero(data, pos0, size) and len(result) == R_len + (size - pos0)
                   and prefix_kept(result, result0, R_len) and copied(result, R_len, data, pos0, size - pos0))


# ------------------------------------------------------------------------------------------------ decoder segment
def _dec_bufs(h):
    d = _rle_bufs(h)
    d['ret_bytes'] = 1 << 128
    d['max_clusters'] = -1
    d['start'] = 0
    return d


dec = REG.add(Lemma('rle.decode.segment', PROP, [{'body': 'bsp:runlength_decode', 'loop': 0}]))
dec.setup(lambda h: {'locals': _dec_bufs(h)})


@dec.requires
def marker_has_count(data, pos, size):
    # well-formed stream (what the encoder emits): a zero byte is always followed by its count byte
    return forall(lambda z: implies(pos <= z and z < size and at(data, z) == 0, z + 1 < size))


@dec.ensures
def literal_then_that_many_zeros(result, result0, data, pos0, zero_ind, zeros, R_len):
    return (len(result) == R_len + (zero_ind - pos0) + zeros
            and zeros == at(data, zero_ind + 1)
            and prefix_kept(result, result0, R_len)
            and copied(result, R_len, data, pos0, zero_ind - pos0)
            and all_zero(result, R_len + (zero_ind - pos0), R_len + (zero_ind - pos0) + zeros))


@dec.ensures
def consumed_literal_and_marker(pos, pos0, zero_ind, data):
    return pos == zero_ind + 2 and zero_ind >= pos0 and none_zero(data, pos0, zero_ind) and at(data, zero_ind) == 0


@dec.ensures
def tail_without_marker_is_copied(result, result0, data, pos0, size, R_len, exit_kind):
    return implies(exit_kind == 'break',
                   none_zero(data, pos0, size) and len(result) == R_len + (size - pos0)
                   and prefix_kept(result, result0, R_len) and copied(result, R_len, data, pos0, size - pos0))


PROOFS = [enc, dec]


# ------------------------------------------------------------------------------------------------ find_or_insert
KEY = UninterpFn('key_func', z3.IntSort(), z3.IntSort())


def _finder_state(h):
    n = h.int('n')
    h.assume(n >= 0)
    items = h.list_arr('item_list', n)
    idx = h.dict_of('by_index', z3.IntSort(), z3.IntSort())
    item = h.int('item')
    return dict(item_list=items, by_index=idx, key_func=KEY, item=item, n0=n,
                list0=SArr(items.arr, items.length, 'list'))


foi = REG.add(Lemma('find_or_insert.finder', PROP, [
    {'call': 'binformat:find_or_insert.finder', 'args': ['item'],
     'closure': {'item_list': 'item_list', 'by_index': 'by_index', 'key_func': 'key_func'}, 'result': 'result'},
]))


@foi.setup
def _(h):
    return {'locals': _finder_state(h)}


@native
def index_inv(I, by_index, item_list):
    """by_index maps exactly the keys of the list's elements to an index holding an element with that key."""
    dom, val = by_index.expr
    arr, n = item_list.arr, item_list.length
    k = z3.Int(I.path.fresh_name('ik'))
    i = z3.Int(I.path.fresh_name('ii'))
    return z3.And(
        z3.ForAll([k], z3.Implies(dom[k], z3.And(val[k] >= 0, val[k] < n, KEY.decl(arr[val[k]]) == k))),
        z3.ForAll([i], z3.Implies(z3.And(i >= 0, i < n), dom[KEY.decl(arr[i])])))


@native
def key_at(I, lst, i):
    return KEY.decl(lst.arr[to_z3(i)])


@foi.requires
def index_consistent(by_index, item_list):
    return index_inv(by_index, item_list)


@foi.ensures
def returns_index_of_equal_key(result, item_list, item, key_func):
    return 0 <= result and result < len(item_list) and key_at(item_list, result) == key_func(item)


@foi.ensures
def list_only_appended(item_list, list0, item):
    return prefix_kept(item_list, list0, len(list0)) and (len(item_list) == len(list0) or len(item_list) == len(list0) + 1)


@foi.ensures
def index_still_consistent(by_index, item_list):
    return index_inv(by_index, item_list)


PROOFS.append(foi)

# ------------------------------------------------------------------------------------------------ texture name block
# One arbitrary iteration of the _lmp_write_textures loop followed by the statement of _lmp_read_textures that locates
# the end of a name, for every name (no NUL, < 128 characters) and every earlier content of the string block: the offset
# written into the table reads back exactly that name, and the block only grows (so offsets written earlier stay valid).
# Byte strings are modelled as strings of code points 0..255.
def _tex_read_stmt(fn):
    import ast as _ast
    for n in _ast.walk(fn):
        if isinstance(n, _ast.Assign) and _ast.unparse(n.targets[0]) == 'str_off':
            return [n]
    return []


def _tex_glue(I, vals):
    """What the reader sees: the block as it is after this iteration plus whatever later iterations append."""
    model = vals['data']
    vals['tex_data'] = z3.Concat(model.fields['text'], z3.String('appended_later'))
    vals['off'] = vals['table'].fields['written'][-1]


TEX = REG.add(Lemma('textures.name_block', PROP, [
    {'body': 'bsp:BSP._lmp_write_textures', 'loop': 0},
    {'native': _tex_glue},
    {'stmts': 'bsp:BSP._lmp_read_textures', 'select': _tex_read_stmt},
]))
TEX.raises('OverflowError')


@TEX.setup
def _tex_setup(h):
    from pyvc.symexec import Builtin, Obj
    I = h.I
    I.bytes_as_latin1_str = True

    def ext(I_, obj, name, lineno):
        if name in ('encode', 'decode'):
            return Builtin(name, lambda *a, **k: obj)       # ASCII / surrogateescape: one code unit per character
        return None
    I.extra_methods = ext
    tex = h.str('tex')
    h.assume(z3.Not(z3.Contains(tex, z3.StringVal('\x00'))))
    before = h.str('block_before')
    data = Obj('bytearray_model', {'text': before}, module='')

    def find(sub):
        return z3.IndexOf(data.fields['text'], to_z3(sub), 0)

    def extend(more):
        data.fields['text'] = z3.Concat(data.fields['text'], to_z3(more))
    data.fields.update(find=Builtin('find', find), extend=Builtin('extend', extend),
                       __len__=Builtin('__len__', lambda: z3.Length(data.fields['text'])))
    table = Obj('BytesIO_model', {'written': []}, module='')
    table.fields['write'] = Builtin('write', lambda packed: table.fields['written'].append(packed.fields['num']))
    st = Obj('struct_model', {}, module='')
    st.fields['pack'] = Builtin('pack', lambda fmt, n: Obj('packed', {'num': n, 'fmt': fmt}, module=''))
    I.global_overrides = {'struct': st}
    return {'locals': dict(tex=tex, data=data, table=table), 'ghost': dict(TEX_NAME=tex, BEFORE=before)}


@native
def block_text(I, data):
    return data.fields['text']


@native
def name_read_at(I, tex_data, off, str_off):
    off, str_off = to_z3(off), to_z3(str_off)
    return z3.SubString(to_z3(tex_data), off, str_off - off)


@native
def is_prefix(I, a, b):
    return z3.PrefixOf(to_z3(a), to_z3(b))


@native
def str_len(I, s):
    return z3.Length(to_z3(s))


@TEX.ensures
def offset_written_reads_back_exactly_the_name(tex_data, off, str_off, TEX_NAME):
    return name_read_at(tex_data, off, str_off) == TEX_NAME


@TEX.ensures
def block_only_grows(data, BEFORE):
    return is_prefix(BEFORE, block_text(data))


@TEX.ensures
def only_names_shorter_than_128_are_written(TEX_NAME):
    return str_len(TEX_NAME) < 128


@TEX.on_raise('OverflowError')
def rejected_only_when_too_long(TEX_NAME):
    return str_len(TEX_NAME) >= 128


PROOFS.append(TEX)

# ------------------------------------------------------------------------------------------------ LZMA property byte
lz = REG.add(Lemma('lzma.props_byte', PROP, [{'call': '@spec:dummy', 'args': []}]))
REG.by_name.pop('lzma.props_byte')


# ------------------------------------------------------------------------------------------------ native witnesses
def _rle_witness(model=None, obligation=None):
    from srctools.bsp import runlength_encode, runlength_decode
    for k in [0, 1, 2, 254, 255, 256, 257, 509, 510, 511, 512, 765, 766, 1020, 1021, 2000]:
        for pre, post in ((b'', b''), (b'\x05', b''), (b'', b'\x07'), (b'\x01\x02', b'\x03'), (b'\xff', b'\xff')):
            d = pre + bytes(k) + post
            enc_ = runlength_encode(d)
            dec_ = bytes(runlength_decode(bytes(enc_)))
            if dec_ != d:
                return {'failed': True, 'input': f'{list(pre)} + {k} zeros + {list(post)}',
                        'encoded_head': list(enc_[:12]), 'decoded_len': len(dec_), 'expected_len': len(d)}
    return {'failed': False}


enc.replay_fn = _rle_witness
dec.replay_fn = _rle_witness


# ------------------------------------------------------------------------------------------------ bounded stand-ins
@bounded('C11.B-rle', bound='all byte strings of length <= 7 over {0, 1, 255} + zero runs of length 0..1030 with '
         'prefixes/suffixes + seeded random strings; max_clusters trimming for 1..64 clusters',
         rule='one case per byte string; non-trivial when it contains a zero byte')
def b_rle(ctx):
    from srctools.bsp import runlength_encode, runlength_decode
    def one(d, desc):
        ctx.case(desc, nontrivial=0 in d)
        e = runlength_encode(d)
        ok = bytes(runlength_decode(bytes(e))) == d
        # no marker with count zero; markers are (0, c)
        i = 0
        while ok and i < len(e):
            if e[i] == 0:
                if i + 1 >= len(e) or e[i + 1] == 0:
                    ok = False
                i += 2
            else:
                i += 1
        if not ok:
            ctx.violation('rle=' + desc, f'runlength_decode(runlength_encode(d)) != d or malformed marker for d={desc}',
                          list(d))
    for n in range(0, 8 if ctx.thorough else 7):
        for t in itertools.product((0, 1, 255), repeat=n):
            one(bytes(t), 'bytes' + repr(list(t)))
    for k in list(range(0, 20)) + list(range(250, 262)) + list(range(505, 516)) + [764, 765, 766, 767, 1019, 1020, 1021, 1030]:
        for pre, post in ((b'', b''), (b'\x05', b''), (b'', b'\x07'), (b'\x01', b'\x03')):
            one(pre + bytes(k) + post, f'{list(pre)}+zeros({k})+{list(post)}')
    for _ in range(300 if not ctx.thorough else 5000):
        n = ctx.rng.randrange(1, 700)
        d = bytes(ctx.rng.choice((0, 0, 0, 0, 3, 200)) if ctx.rng.random() < 0.97 else ctx.rng.randrange(256) for _ in range(n))
        one(d, 'seeded:' + d.hex()[:40] + f'..len{n}')
    # trimming to the cluster count (rows concatenated in one buffer)
    for clusters in range(1, 65):
        size = (clusters + 7) // 8
        row = bytes((i * 37) % 3 == 0 and 0 or (i % 255 + 1) for i in range(size))
        buf = bytes(runlength_encode(row)) + bytes(runlength_encode(bytes(size)))
        ctx.case(('trim', clusters))
        got = bytes(runlength_decode(buf, 0, clusters))
        if got != row:
            ctx.violation(f'rle-trim={clusters}', f'decode with max_clusters={clusters} gave {list(got)} for {list(row)}',
                          [clusters])


b_rle.replay = lambda inp: (lambda d: {'failed': bytes(__import__('srctools.bsp', fromlist=['x']).runlength_decode(
    bytes(__import__('srctools.bsp', fromlist=['x']).runlength_encode(d)))) != d})(bytes(inp))


def _extend_case(base, items):
    from srctools.binformat import find_or_extend
    lst = list(base)
    finder = find_or_extend(lst, lambda x: x)
    i = finder(list(items))
    if not items:
        return None if lst == list(base) else f'list changed for empty items: {lst}'
    if lst[:len(base)] != list(base):
        return f'existing items changed: {lst}'
    if i < 0 or i + len(items) > len(lst):
        return f'index {i} + {len(items)} items exceeds the list of length {len(lst)} ({lst})'
    if lst[i:i + len(items)] != list(items):
        return f'list[{i}:{i + len(items)}] = {lst[i:i + len(items)]} != items'
    return None


@bounded('C11.B-find', bound='find_or_extend / find_or_insert: all base lists of length <= 4 and item lists of length '
         '<= 3 over a 3-letter alphabet, two consecutive calls', rule='one case per (list, items) pair')
def b_find(ctx):
    from srctools.binformat import find_or_insert
    alpha = 'abc'
    for nb in range(0, 5):
        for base in itertools.product(alpha, repeat=nb):
            for ni in range(0, 4):
                for items in itertools.product(alpha, repeat=ni):
                    ctx.case((base, items), nontrivial=bool(items) and bool(base))
                    bad = _extend_case(base, items)
                    if bad:
                        ctx.violation(f'extend={"".join(base)}+{"".join(items)}', bad, [list(base), list(items)])
            for item in alpha:
                lst = list(base)
                f = find_or_insert(lst, lambda x: x)
                i = f(item)
                j = f(item)
                ctx.case((base, item, 'insert'))
                if not (0 <= i < len(lst) and lst[i] == item and i == j and lst[:len(base)] == list(base)):
                    ctx.violation(f'insert={"".join(base)}+{item}', f'find_or_insert gave {i},{j} list {lst}',
                                  [list(base), item])


b_find.replay = lambda inp: (lambda r: {'failed': bool(r), 'observation': r})(_extend_case(inp[0], inp[1]))


def _pairs_case(repo, view, n, seed, prop_version=None):
    """Assign a generated value to one view of the sample BSP, save, re-read, compare."""
    import random
    import tempfile
    import shutil
    from contracts import bsp_support as S
    from srctools import bsp as B
    rng = random.Random(seed)
    bsp = S.open_sample(repo)
    if view == 'props' and prop_version is not None:
        bsp.props  # parse first (records the file's own version)
        bsp.static_prop_version = B.StaticPropVersion[prop_version]
        # the game lump header carries the format number the reader dispatches on
        bsp.game_lumps[B.LMP_ID_STATIC_PROPS].version = B.StaticPropVersion[prop_version].version
    val = S.gen_value(bsp, view, rng, n)
    if val is None and view != 'visibility':
        return None
    if view == 'props':
        _fit_props(val, B.StaticPropVersion[prop_version], rng)
    setattr(bsp, view, val)
    want = S.dump(val) if view != 'props' else _props_dump(val, list(bsp.visleafs))
    d = tempfile.mkdtemp(prefix='c11_')
    try:
        try:
            back, _ = S.save_and_reopen(bsp, d)
        except Exception as e:
            return f'save/re-open raised {type(e).__name__}: {e}'
        if view == 'props' and prop_version is not None:
            back.static_prop_version = B.StaticPropVersion[prop_version]
        try:
            got = S.dump(getattr(back, view))
        except Exception as e:
            return f're-reading {view} raised {type(e).__name__}: {e}'
        if view == 'props':
            # visleaf identity: compare through each leaf's position in the visleafs list
            got = _props_dump(getattr(back, view), list(back.visleafs))
        if got != want:
            return f'{view}: wrote {str(want)[:300]} read {str(got)[:300]}'
        return None
    finally:
        shutil.rmtree(d, ignore_errors=True)


def _fit_props(props, version, rng):
    """Restrict generated props to what the on-disk version can express (the property's 'representable')."""
    from srctools import bsp as B
    from srctools.math import Vec
    from contracts.bsp_support import f32
    vn = 7 if version.is_lightmap else version.version
    for p in props:
        if vn >= 5:
            p.fade_scale = f32(rng.uniform(0.5, 2))
        else:
            p.fade_scale = 1
        if vn in (6, 7):
            p.min_dx_level, p.max_dx_level = rng.randrange(0, 100), rng.randrange(0, 100)
        if vn >= 8:
            p.min_cpu_level, p.max_cpu_level = rng.randrange(4), rng.randrange(4)
            p.min_gpu_level, p.max_gpu_level = rng.randrange(4), rng.randrange(4)
        if version.is_lightmap:
            p.lightmap_x, p.lightmap_y = rng.choice([16, 32, 64]), rng.choice([16, 32, 128])
        if vn >= 7 and not version.is_sdk_2013:
            p.tint = Vec(rng.randrange(256), rng.randrange(256), rng.randrange(256))
            p.renderfx = rng.randrange(256)
        if vn >= 9 and not version.is_lightmap:
            p.disable_on_xbox = bool(rng.randrange(2))
        # flags: the primary byte always; bits above 0xff only where a secondary / 32-bit field exists
        wide = vn >= 10 or version is B.StaticPropVersion.V_LIGHTMAP_MESA or version.is_lightmap
        if not wide:
            p.flags = B.StaticPropFlags(p.flags.value & 0xFF)
        if version is B.StaticPropVersion.V_CHAOS_V13:
            p.scaling = Vec(f32(rng.uniform(0.5, 2)), f32(rng.uniform(0.5, 2)), f32(rng.uniform(0.5, 2)))
        elif vn >= 11:
            s = f32(rng.uniform(0.5, 2))
            p.scaling = Vec(s, s, s)


def _props_dump(props, leafs):
    from contracts.bsp_support import dump
    import attrs
    out = []
    for p in props:
        row = []
        for a in attrs.fields(type(p)):
            v = getattr(p, a.name)
            if a.name == 'visleafs':
                row.append(sorted(leafs.index(l) for l in v))
            elif a.name == 'flags':
                row.append(v.value)
            else:
                row.append(dump(v))
        out.append(row)
    return out


PROP_VERSIONS = ['V4', 'V5', 'V6', 'V7', 'V8', 'V9', 'V10', 'V11', 'V_LIGHTMAP_v7', 'V_LIGHTMAP_v10',
                 'V_LIGHTMAP_MESA', 'V_CHAOS_V12', 'V_CHAOS_V13']


@bounded('C11.B-pairs', bound='sample BSP tests/test_vec/rot_main.bsp; views planes, vertexes, cubemaps, textures, '
         'visibility (0..300 clusters), props (13 format versions), water_leaf_info, detail_props, overlays, '
         'primitives; list lengths 0..8 (quick: 0,1,3); 2 seeds (thorough: 6)',
         rule='one case per (view, length, seed, version); non-trivial when the list is non-empty')
def b_pairs(ctx):
    from contracts import bsp_support as S
    lengths = [0, 1, 3] if not ctx.thorough else list(range(0, 9))
    seeds = range(2) if not ctx.thorough else range(6)
    for view in S.GENERATED_VIEWS:
        versions = PROP_VERSIONS if view == 'props' else [None]
        for ver in versions:
            for n in lengths:
                for s in seeds:
                    if ctx.out_of_time():
                        return
                    seed = ctx.seed * 1000 + s
                    ctx.case((view, ver, n, seed), nontrivial=n > 0)
                    try:
                        bad = _pairs_case(ctx.repo, view, n, seed, ver)
                    except Exception as e:
                        bad = f'{type(e).__name__}: {e}'
                    if bad:
                        ctx.violation(f'pair={view}.{ver}.n{n}' if n else f'pair={view}.{ver}.empty', bad,
                                      [view, n, seed, ver])


def _bmodel_phys_case(repo, variant):
    """Brush models with physics keyvalues but no collision solids / solids but no keyvalues / neither."""
    import shutil
    import tempfile
    from contracts import bsp_support as S
    from srctools.keyvalues import Keyvalues
    bsp = S.open_sample(repo)
    models = list(bsp.bmodels.values()) if hasattr(bsp.bmodels, 'values') else list(bsp.bmodels)
    if not models:
        return None
    m = models[0]
    solids = list(m._phys_solids)
    if variant == 'kv_only':
        m.clear_physics()
        m.phys_keyvalues = Keyvalues('solid', [Keyvalues('index', '0'), Keyvalues('mass', '12.5')])
    elif variant == 'solids_only':
        m.phys_keyvalues = None
    elif variant == 'neither':
        m.clear_physics()
    elif variant == 'both':
        m.phys_keyvalues = Keyvalues('solid', [Keyvalues('index', '0'), Keyvalues('name', 'a "quoted" name')])

    def tree(kv):
        return (kv.real_name, [tree(c) for c in kv] if kv.has_children() else kv.value)

    def desc(model):
        kv = model.phys_keyvalues
        if kv is None:
            blocks = None
        elif kv.real_name is None:          # as read back: a root holding the blocks
            blocks = [tree(c) for c in kv]
        else:                               # as assigned here: one named block
            blocks = [tree(kv)]
        return (blocks, [bytes(b) for b in model._phys_solids])
    want = [desc(x) for x in models]
    if variant == 'solids_only' and solids:
        # solids without keyvalues are written with an empty keyvalues block; they read back with an empty tree
        want[0] = ([], want[0][1])
    d = tempfile.mkdtemp(prefix='c11b_')
    try:
        try:
            back, _ = S.save_and_reopen(bsp, d)
            got_models = list(back.bmodels.values()) if hasattr(back.bmodels, 'values') else list(back.bmodels)
            got = [desc(x) for x in got_models]
        except Exception as e:
            return f'bmodel physics ({variant}): save/re-read raised {type(e).__name__}: {e}'
        if len(got) != len(want):
            return f'bmodel physics ({variant}): {len(want)} models became {len(got)}'
        for i, (w, g) in enumerate(zip(want, got)):
            wk = w[0] if w[0] else None
            gk = g[0] if g[0] else None
            if wk != gk or w[1] != g[1]:
                return f'bmodel physics ({variant}): model {i} wrote keyvalues {w[0]} + {len(w[1])} solids, read {g[0]} + {len(g[1])} solids'
        return None
    finally:
        shutil.rmtree(d, ignore_errors=True)


def _ent_output_case(repo, variant):
    """Entity outputs through the entity lump: both separator conventions of the map, outputs whose own comma_sep flag
    differs from the map's, parameters containing commas."""
    import shutil
    import tempfile
    from contracts import bsp_support as S
    from srctools.vmf import Output
    bsp = S.open_sample(repo)
    vmf = bsp.ents
    map_comma, out_comma, param = variant
    bsp.out_comma_sep = map_comma
    ent = vmf.create_ent('logic_relay', targetname='c11_relay', origin='1 2 3')
    ent.add_out(Output('OnTrigger', 'script', 'RunScriptCode', param, 0.5, times=-1, comma_sep=out_comma))
    ent.add_out(Output('OnSpawn', 'other', 'Kill', '', 0.0, times=1, comma_sep=not out_comma))
    want = [(o.output, o.target, o.input, o.params, o.delay, o.times) for o in ent.outputs]
    # ordinary keyvalues that merely contain commas: an output has exactly four separators, anything else is a value
    plain = {'bbox': '-16,-16,0,16,16,72', 'curve': '0,0,1,1,2,4,3', 'pair': '1,2', 'csv': 'a,b,c'}
    for k, v in plain.items():
        ent[k] = v
    d = tempfile.mkdtemp(prefix='c11e_')
    try:
        try:
            back, _ = S.save_and_reopen(bsp, d)
            ents = [e for e in back.ents.entities if e['targetname'] == 'c11_relay']
        except Exception as e:
            return f'entity outputs {variant}: save/re-read raised {type(e).__name__}: {e}'
        if len(ents) != 1:
            return f'entity outputs {variant}: the entity was read back {len(ents)} times'
        got = [(o.output, o.target, o.input, o.params, o.delay, o.times) for o in ents[0].outputs]
        if got != want:
            return f'entity outputs {variant}: wrote {want}, read {got} (keys: {dict(ents[0].items())})'
        for k, v in plain.items():
            if ents[0][k] != v:
                return f'entity keyvalue {k!r} = {v!r} with commas read back as {ents[0][k]!r} ({variant})'
        return None
    finally:
        shutil.rmtree(d, ignore_errors=True)


def _nodes_case(repo, variant):
    """The node list assigned with only some of the nodes listed: the writer must add the children it meets on the way
    (find_or_insert), so the tree under every brush model reads back whole."""
    import shutil
    import tempfile
    from contracts import bsp_support as S
    from srctools.bsp import VisLeaf
    bsp = S.open_sample(repo)
    nodes = list(bsp.nodes)
    models = list(bsp.bmodels.values()) if hasattr(bsp.bmodels, 'values') else list(bsp.bmodels)
    if not nodes or not models:
        return None

    def sig(n, depth=0):
        if isinstance(n, VisLeaf):
            return ('leaf', n.cluster_id, n.area, tuple(n.mins), tuple(n.maxes), len(n.faces), len(n.brushes))
        if depth > 400:
            return ('deep',)
        return ('node', tuple(n.plane.normal), n.plane.dist, tuple(n.mins), tuple(n.maxes), len(n.faces), n.area_ind,
                sig(n.child_neg, depth + 1), sig(n.child_pos, depth + 1))
    want = [sig(m.node) for m in models]
    child_ids = {id(c) for n in nodes for c in (n.child_neg, n.child_pos)}
    roots = [n for n in nodes if id(n) not in child_ids]
    if variant == 'roots_only':
        new = roots
    elif variant == 'roots_reversed':
        new = roots[::-1]
    elif variant == 'every_other':
        new = [n for i, n in enumerate(nodes) if i % 2 == 0 or id(n) not in child_ids]
    else:       # the full list, reversed: every node listed, but children before their parents
        new = nodes[::-1]
    if len(new) == len(nodes) and variant != 'reversed':
        return None if len(nodes) <= len(roots) else f'nodes ({variant}): could not drop any node from the list'
    bsp.nodes = new
    d = tempfile.mkdtemp(prefix='c11n_')
    try:
        try:
            back, _ = S.save_and_reopen(bsp, d)
            got_models = list(back.bmodels.values()) if hasattr(back.bmodels, 'values') else list(back.bmodels)
            got = [sig(m.node) for m in got_models]
            n_back = len(back.nodes)
        except Exception as e:
            return f'nodes ({variant}): save/re-read raised {type(e).__name__}: {e}'
        if n_back != len(nodes):
            return f'nodes ({variant}): {len(nodes)} nodes reachable, {n_back} read back ({len(new)} were listed)'
        if got != want:
            bad = [i for i, (w, g) in enumerate(zip(want, got)) if w != g]
            return f'nodes ({variant}): the tree under brush model(s) {bad[:5]} reads back differently'
        return None
    finally:
        shutil.rmtree(d, ignore_errors=True)


def _touch_case(repo, view):
    """A view without a value generator: its writer is run on the value its reader produced (the view is parsed and
    assigned back), and afterwards *every* view of the saved file must still read as it does from the sample."""
    import shutil
    import tempfile
    from contracts import bsp_support as S
    ref = {}
    for v in S.VIEWS:
        ref[v] = S.dump(getattr(S.open_sample(repo), v))
    bsp = S.open_sample(repo)
    setattr(bsp, view, getattr(bsp, view))
    d = tempfile.mkdtemp(prefix='c11t_')
    try:
        try:
            back, _ = S.save_and_reopen(bsp, d)
        except Exception as e:
            return f'touch {view}: save/re-open raised {type(e).__name__}: {e}'
        for v in [view] + [x for x in S.VIEWS if x != view]:
            try:
                got = S.dump(getattr(back, v))
            except Exception as e:
                return f'after writing {view} from its parsed value, re-reading {v} raised {type(e).__name__}: {e}'
            if got != ref[v]:
                return f'after writing {view} from its parsed value, view {v} reads differently'
        return None
    finally:
        shutil.rmtree(d, ignore_errors=True)


def _hdr_faces_case(repo, variant):
    """LDR / HDR faces and the original faces they share, built by hand on top of the sample (which has no faces): saved,
    re-read, and a second generation that touches only the HDR list.  Variants: which of the three lists name the
    original faces before saving."""
    import shutil
    import tempfile
    from contracts import bsp_support as S
    from srctools import Vec
    from srctools.bsp import BSP, Edge, Face, Plane, SurfFlags, TexData, TexInfo

    def make_face(plane, edges, texinfo, orig, area, hammer_id):
        return Face(plane, True, False, edges, texinfo, -1, 0, b'\x00\xff\xff\xff', -1, area, (0, 0), (4, 4),
                    orig, [], True, 0, hammer_id, 0)

    def describe(face):
        if face is None:
            return None
        return (tuple(face.plane.normal), face.plane.dist, [(tuple(e.a), tuple(e.b)) for e in face.edges],
                face.texinfo._info.mat if face.texinfo is not None else None, face.area, face.lightmap_size)

    def snap(b):
        return {'faces': [(describe(f), describe(f.orig_face)) for f in b.faces],
                'hdr_faces': [(describe(f), describe(f.orig_face)) for f in b.hdr_faces],
                'orig': sorted(describe(f) for f in b.orig_faces)}
    bsp = S.open_sample(repo)
    plane = Plane(Vec(0, 0, 1), 64.0)
    tinfo = TexInfo(Vec(1, 0, 0), 0.0, Vec(0, -1, 0), 0.0, Vec(0.0625, 0, 0), 0.0, Vec(0, -0.0625, 0), 0.0,
                    SurfFlags(0), TexData('brick/brickfloor001a', Vec(0.25, 0.25, 0.25), 512, 512))
    v = [Vec(0, 0, 64), Vec(128, 0, 64), Vec(128, 128, 64), Vec(0, 128, 64), Vec(64, 64, 64)]
    e = [Edge(v[0], v[1]), Edge(v[1], v[2]), Edge(v[2], v[3]), Edge(v[3], v[0]), Edge(v[0], v[2])]
    orig_a = make_face(plane, e[0:4], tinfo, None, 16384.0, None)
    orig_b = make_face(plane, [e[0], e[1], e[4].opposite], tinfo, None, 8192.0, None)
    bsp.vertexes = list(bsp.vertexes) + v
    bsp.planes = list(bsp.planes) + [plane]
    bsp.texinfo = list(bsp.texinfo) + [tinfo]
    bsp.surfedges = list(bsp.surfedges) + e[0:4] + [e[4].opposite]
    ldr = [make_face(plane, e[0:4], tinfo, orig_a, 16384.0, 11)]
    hdr = [make_face(plane, e[0:4], tinfo, orig_a, 16384.0, 11),
           make_face(plane, [e[0], e[1], e[4].opposite], tinfo, orig_b, 8192.0, 12)]
    if variant == 'originals_listed':
        bsp.orig_faces = [orig_a, orig_b]
    elif variant == 'one_original_only_via_hdr':
        bsp.orig_faces = [orig_a]           # orig_b is reachable only through an HDR face: the writer appends it
    if variant != 'hdr_only':
        bsp.faces = ldr
    bsp.hdr_faces = hdr
    want = {'faces': [(describe(f), describe(f.orig_face)) for f in (ldr if variant != 'hdr_only' else [])],
            'hdr_faces': [(describe(f), describe(f.orig_face)) for f in hdr],
            'orig': sorted([describe(orig_a), describe(orig_b)])}
    d = tempfile.mkdtemp(prefix='c11h_')
    try:
        for generation in (1, 2):
            try:
                back, _ = S.save_and_reopen(bsp, d)
                got = snap(back)
            except Exception as e:
                return f'hand-built faces ({variant}), generation {generation}: save / re-read raised {type(e).__name__}: {e}'
            if got != want:
                bad = [k for k in want if got[k] != want[k]]
                return f'hand-built faces ({variant}), generation {generation}: {bad} read back differently'
            bsp = BSP(back.filename)        # second generation: only the HDR list is parsed, edited and written
            hdr2 = bsp.hdr_faces
            hdr2[0].area = 100.0 + generation
            want['hdr_faces'][0] = (describe(hdr2[0]), want['hdr_faces'][0][1])
        return None
    finally:
        shutil.rmtree(d, ignore_errors=True)


def _job_extra(job):
    import os
    repo = os.environ.get('VERIF_REPO', '/repo')
    try:
        if job[0] == 'nodes':
            return _nodes_case(repo, job[1])
        if job[0] == 'touch':
            return _touch_case(repo, job[1])
        if job[0] == 'hdr':
            return _hdr_faces_case(repo, job[1])
        return _bmodel_phys_case(repo, job[1]) if job[0] == 'bmodel' else _ent_output_case(repo, tuple(job[1]))
    except Exception as e:
        return f'{type(e).__name__}: {e}'


@bounded('C11.B-extra', bound='sample BSP: first brush model with physics keyvalues only / solids only / neither / both; an '
         'entity with two outputs under both map separator conventions x both per-output flags x parameters with 0..3 commas; the '
         'node list assigned with only the root nodes / roots reversed / every other node / all nodes reversed; every view '
         'without a value generator parsed and assigned back (its writer runs on what its reader produced), then all '
         'views re-read; hand-built LDR / HDR faces sharing original faces (listed / reachable only through an HDR face / not listed / HDR only) over two generations',
         rule='one case per variant')
def b_extra(ctx):
    jobs = [('bmodel', v) for v in ('kv_only', 'solids_only', 'neither', 'both')]
    jobs += [('nodes', v) for v in ('roots_only', 'roots_reversed', 'every_other', 'reversed')]
    from contracts import bsp_support as _S
    jobs += [('touch', v) for v in _S.VIEWS if v not in _S.GENERATED_VIEWS]
    jobs += [('hdr', v) for v in ('originals_listed', 'one_original_only_via_hdr', 'no_original_list', 'hdr_only')]
    for map_comma in (True, False):
        for out_comma in (True, False):
            for param in ('', 'plain', 'SpawnAt(128, 64, 0)', 'a,b'):
                if map_comma and ',' in param:
                    continue        # a comma-separated map cannot carry a comma inside a parameter (not representable)
                jobs.append(('ents', (map_comma, out_comma, param)))
    os.environ['VERIF_REPO'] = ctx.repo
    for job, bad in ctx.pmap(_job_extra, jobs, job_timeout=30.0):
        ctx.case(job)
        if bad:
            ctx.violation(f'extra={job[0]}.{job[1]}'.replace(' ', ''), bad, [job[0], job[1]])


b_extra.replay = lambda inp: (lambda r: {'failed': bool(r), 'observation': r})(_job_extra((inp[0], inp[1])))


def _replay_pairs(inp):
    import os
    repo = os.environ.get('VERIF_REPO', '/repo')
    bad = _pairs_case(repo, inp[0], inp[1], inp[2], inp[3])
    return {'failed': bool(bad), 'observation': bad}


b_pairs.replay = _replay_pairs
BOUNDED = [b_rle, b_find, b_pairs, b_extra]


def _range_cases():
    """(name, view, version, mutation making one field unrepresentable on disk)."""
    from srctools import bsp as B
    def setf(name, value):
        return lambda objs: setattr(objs[0], name, value)
    return [
        ('cubemap.size', 'cubemaps', None, setf('size', 1 << 40)),
        ('prop.solidity', 'props', 'V10', setf('solidity', 300)),
        ('prop.skin', 'props', 'V5', setf('skin', 1 << 40)),
        ('prop.flags_wide_on_v5', 'props', 'V5', setf('flags', B.StaticPropFlags(0x100))),
        ('prop.flags_bit45', 'props', 'V11', setf('flags', B.StaticPropFlags(1 << 45))),
        ('prop.min_cpu', 'props', 'V9', setf('min_cpu_level', 256)),
        ('prop.lightmap_x', 'props', 'V_LIGHTMAP_v10', setf('lightmap_x', 70000)),
        ('detail.sway', 'detail_props', None, setf('sway_amount', 256)),
        ('detail.leaf', 'detail_props', None, setf('leaf', 70000)),
        ('overlay.too_many_faces', 'overlays', None, setf('faces', list(range(100)))),
        ('overlay.render_order', 'overlays', None, setf('render_order', 4)),
    ]


def _range_case(repo, name):
    import random, tempfile, shutil
    from contracts import bsp_support as S
    from srctools import bsp as B
    for n, view, ver, mut in _range_cases():
        if n != name:
            continue
        bsp = S.open_sample(repo)
        if ver is not None:
            bsp.props
            bsp.static_prop_version = B.StaticPropVersion[ver]
            bsp.game_lumps[B.LMP_ID_STATIC_PROPS].version = B.StaticPropVersion[ver].version
        rng = random.Random(5)
        val = S.gen_value(bsp, view, rng, 2)
        if view == 'props':
            _fit_props(val, B.StaticPropVersion[ver], rng)
        try:
            mut(val)
        except Exception:
            return None     # rejected on assignment: fine
        setattr(bsp, view, val)
        d = tempfile.mkdtemp(prefix='c11r_')
        try:
            try:
                back, _ = S.save_and_reopen(bsp, d)
            except Exception:
                return None  # rejected with an error, as the property demands
            if ver is not None:
                back.static_prop_version = B.StaticPropVersion[ver]
            got = getattr(back, view)
            return f'{name}: unrepresentable value was saved without an error (re-read {str(S.dump(got[0]))[:200]})'
        finally:
            shutil.rmtree(d, ignore_errors=True)
    return None


@bounded('C11.B-range', bound='11 hand-picked fields set to a value the on-disk field cannot hold',
         rule='one case per field; every case is non-trivial')
def b_range(ctx):
    for name, view, ver, mut in _range_cases():
        ctx.case(name)
        try:
            bad = _range_case(ctx.repo, name)
        except Exception as e:
            bad = f'{name}: harness error {type(e).__name__}: {e}'
        if bad:
            ctx.violation('range=' + name, bad, [name])


b_range.replay = lambda inp: (lambda r: {'failed': bool(r), 'observation': r})(
    _range_case(os.environ.get('VERIF_REPO', '/repo'), inp[0]))
BOUNDED.append(b_range)


@bounded('C11.B-lzma', bound='12 byte strings (empty, short, 64 KiB of zeros, pseudo-random); header fields decoded '
         'independently per the LZMA specification', rule='one case per byte string')
def b_lzma(ctx):
    import struct
    from srctools.binformat import compress_lzma, decompress_lzma, LZMA_FILT
    datas = [b'', b'\0', b'a', b'hello world' * 10, bytes(65536), bytes(range(256)) * 9]
    datas += [bytes(ctx.rng.randrange(256) for _ in range(n)) for n in (1, 7, 100, 1000, 5000, 20000)]
    for d in datas:
        ctx.case(('lzma', len(d), d[:8].hex()), nontrivial=len(d) > 0)
        c = compress_lzma(d)
        sig, usize, csize, props, dict_size = struct.unpack_from('<4sIIBI', c)
        lc, rest = props % 9, props // 9
        lp, pb = rest % 5, rest // 5
        bad = None
        if sig != b'LZMA' or usize != len(d) or csize != len(c) - 17:
            bad = f'header fields: sig={sig!r} uncompressed={usize} (want {len(d)}) compressed={csize} (want {len(c) - 17})'
        elif (lc, lp, pb) != (LZMA_FILT['lc'], LZMA_FILT['lp'], LZMA_FILT['pb']) or dict_size != LZMA_FILT['dict_size']:
            bad = f'property byte decodes to lc={lc} lp={lp} pb={pb} dict={dict_size}, filter is {LZMA_FILT}'
        elif decompress_lzma(c) != d:
            bad = 'decompress_lzma(compress_lzma(d)) != d'
        elif decompress_lzma(d) != d and d[:4] != b'LZMA':
            bad = 'uncompressed data is not passed through'
        if bad:
            ctx.violation(f'lzma=len{len(d)}', bad, list(d[:64]))


BOUNDED.append(b_lzma)

MUTATIONS = [
    dict(name='nodes_written_from_a_snapshot_of_the_list', file='bsp.py', old="        for node in nodes:\n            if isinstance(node.child_pos, VisLeaf):",
         new="        for node in list(nodes):\n            if isinstance(node.child_pos, VisLeaf):", expect='extra=nodes'),
    dict(name='texture_needle_without_terminator', file='bsp.py',
         old="            string = tex.encode('ascii', 'surrogateescape') + b'\\0'\n            ind = data.find(string)\n            if ind == -1:\n                ind = len(data)\n                data.extend(string)",
         new="            string = tex.encode('ascii', 'surrogateescape')\n            ind = data.find(string)\n            if ind == -1:\n                ind = len(data)\n                data.extend(string + b'\\0')",
         expect='textures.name_block'),
    dict(name='texture_limit_off_by_one', file='bsp.py', old="            if len(tex) >= 128:", new="            if len(tex) > 128:",
         expect='textures.name_block'),
    dict(name='rle_min_256', file='bsp.py', old="            result.append(min(255, dist))", new="            result.append(min(256, dist))", expect='rle'),
    dict(name='rle_step_256', file='bsp.py', old="            dist -= 255\n        pos = zero_end", new="            dist -= 256\n        pos = zero_end", expect='rle.encode'),
    dict(name='rle_decode_skip', file='bsp.py', old="        pos = zero_ind + 2\n\n    # Trim down", new="        pos = zero_ind + 1\n\n    # Trim down", expect='rle.decode'),
    dict(name='find_insert_index', file='binformat.py', old="            ind = by_index[key] = len(item_list)\n            item_list.append(item)\n            return ind", new="            by_index[key] = len(item_list)\n            item_list.append(item)\n            return len(item_list)", expect='find_or_insert'),
    dict(name='lzma_props', file='binformat.py', old="    props = (LZMA_FILT['pb'] * 5 + LZMA_FILT['lp']) * 9 + LZMA_FILT['lc']", new="    props = (LZMA_FILT['lp'] * 5 + LZMA_FILT['pb']) * 9 + LZMA_FILT['lc']", expect='lzma'),
    dict(name='props_fade_scale_dropped', file='bsp.py', old="                prop_lump.write(struct.pack('<f', prop.fade_scale))", new="                prop_lump.write(struct.pack('<f', 1.0))", expect='pair=props'),
]
HARMLESS = [
    dict(name='rle_rename', file='bsp.py', old="        dist = zero_end - zero_ind\n        while dist > 0:\n            result.append(0x00)\n            result.append(min(255, dist))\n            dist -= 255",
         new="        dist = zero_end - zero_ind\n        while dist > 0:\n            result.append(0)\n            result.append(dist if dist < 255 else 255)\n            dist = dist - 255"),
]
