"""Shared helpers for C20 (choreo part): scene generator, field-wise dump, and round-trip oracles for the three
choreo encodings of srctools/choreo.py (text VCD, binary BVCD, scenes.image container).  Run natively (bounded tier).

Public surface:
  gen_scene(rng, avoid=()) -> Scene       dump(scene) -> plain structure
  check_text(scene) / check_binary(scene) / check_image(scenes, version, rng) -> None | short message
  TARGETED   named hand-written Scene builders         EXTRA_CHECKS   named zero-argument checks -> None | message

What each oracle treats as *not stored / quantised by design* (everything else must survive exactly):

 text (VCD), norm_text():
   - Scene.text_crc (never written; reader leaves 0), Scene.time_zoom_lookup (no encoding stores it).
   - Event.start_time / end_time are written with '%.6f'; Event.dist_to_targ with '%.2f' and only when > 0
     (so 0 < d < 0.005 is not representable: it is written as '0.00', read as 0 and then omitted; not generated).
   - Event.tag_name / tag_wav_name: one 'relativetag "a" "b"' line, so (None, 'x') reads back as ('', 'x').
   - Event.default_curve_type only exists on the 'flexanimations' header -> default when there are no flex tracks.
   - SpeakEvent.use_combined_file is dropped when caption_type is Disabled (writer does this on purpose).
   - Scene.fps must be 10..240 (reader clamps); generator stays in range.
 binary (BVCD), norm_binary():
   - float32: Event.start_time/end_time/dist_to_targ, GestureEvent.gesture_sequence_duration, ramp/flex sample
     times, FlexAnimTrack.min/max.
   - 1 byte, clamp(round(v*255),0,255)/255: ramp sample values, flex sample values, relative + timing tag values.
   - 2 bytes, clamp(round(v*4096),0,65535)/4096: absolute (playback / shifted) tag values.
   - dropped: Scene.map_name/fps/time_zoom_lookup/use_frame_snap/scale_settings, Actor.faceposer_model,
     Curve.left/right and the per-sample curve_type of scene/event ramps (flex samples keep theirs),
     FlexAnimTrack.left/right, TimingTag.locked, Event.default_curve_type/pitch/yaw.
   - tag_name/tag_wav_name pairing and use_combined_file exactly as for text.
   - representable ranges kept by the generator: <=255 events/actors/channels/tags/ramp samples/flex tracks,
     loop_count in int8, text_crc in uint32, flags in one byte.
 scenes.image:
   - scene data compared with norm_binary(); strings must be latin-1 without NUL (generator guarantees);
     filenames ASCII with distinct CRCs; version 2 has no last-speak field (reader reports duration instead);
     summary vs. the *re-read* scene is allowed 1 ms slack (float32 times), vs. the original scene it is exact.
   - every save LZMA-compresses each scene with a 16 MB dictionary (~20 ms per scene per save), so check_image does
     the main save plus exactly one rng-chosen follow-up save.

Defects of the pinned tree that the checks report (see KNOWN_DEFECTS; gen_scene(avoid=...) switches the trigger off):
   flex                  text reader raises NotImplementedError on 'flexanimations'; writer never closes that block.
   reltag                binary writer emits an extra flag byte before the relative-tag indexes ('<Bhh' after the 01 byte).
   quoted_cctoken        text writer does not escape cc_token.
   quoted_scalekey       text writer does not escape scalesettings keys.
   edge_only_event_ramp  text writer drops an event ramp that has active edges but no samples (scene ramp keeps it).
   abs_gt1               AbsoluteTag lacks @attrs.define -> inherits Tag's <= 1.0 validator (documented range < 16),
                         so such tags can neither be built nor read from a binary scene (EXTRA_CHECKS/TARGETED).

Runner:  python c20_choreo_support.py [N=1000] [avoid,comma,separated]
"""
import io
import random
import struct

__all__ = ['gen_scene', 'dump', 'check_text', 'check_binary', 'check_image', 'TARGETED', 'EXTRA_CHECKS',
           'norm_text', 'norm_binary', 'first_diff', 'FEATURES', 'KNOWN_DEFECTS']


# ---------------------------------------------------------------------------------------------------------------------
# small numeric helpers

def f32(x: float) -> float:
    return struct.unpack('<f', struct.pack('<f', x))[0]


def q255(v: float) -> float:
    return min(255, max(0, round(v * 255.0))) / 255.0


def q4096(v: float) -> float:
    return min(65535, max(0, round(v * 4096.0))) / 4096.0


def t6(x: float) -> float:
    return float('%.6f' % x)


# ---------------------------------------------------------------------------------------------------------------------
# generator

#: Things gen_scene may emit that hit a defect known on the pinned tree; pass avoid={...} to leave them out.
FEATURES = ('flex', 'reltag', 'quoted_cctoken', 'quoted_scalekey', 'edge_only_event_ramp', 'abs_gt1')
KNOWN_DEFECTS = {
    'flex': 'choreo.py:897 Event.parse_text raises NotImplementedError for flexanimations; :1046 block never closed',
    'reltag': "choreo.py:763 Event.export_binary packs '<Bhh', True after already writing b'\\x01'",
    'quoted_cctoken': 'choreo.py:1054 cctoken written without escape_text()',
    'quoted_scalekey': 'choreo.py:1355 scalesettings key written without escape_text()',
    'edge_only_event_ramp': 'choreo.py:1010 `if self.ramp.ramp:` drops edge-only event ramps',
    'abs_gt1': 'choreo.py:326 AbsoluteTag is missing @attrs.define, Tag validators (<= 1.0) stay in force',
}

PLAIN_NAMES = ['a', 'Alyx', 'first_channel', 'npc_gman.welcome', '!target1', 'look_at', 'barn.ditchcar', 'x1', 'Run',
               'scenes/npc/Gman/hello.vcd', '0.8', '7']
QUOTE_NAMES = ['', 'with space', 'quote"mid', "apos'trophe", 'back\\slash', 'tab\there', 'new\nline', 'brace{x}',
               '}', '{', 'semi;colon', '\xe9t\xe9\xff', '//comment', '[br]', '(par)', 'a=b', 'comma,', '#hash',
               'trailing\\', '\\n', '"', '""', ' lead', 'trail ', 'a\rb', 'event', 'active', '\x07bell', '1 2 3']
ALPHABET = 'abcXYZ019 _-./:;<>()[]{}!?#$%&*+=@^~|,\'`"\\\n\t\xe9\xdf'


def gen_name(rng: random.Random, plain: bool = False) -> str:
    k = rng.randrange(10)
    if plain or k < 5:
        return rng.choice(PLAIN_NAMES)
    if k < 8:
        return rng.choice(QUOTE_NAMES)
    return ''.join(rng.choice(ALPHABET) for _ in range(rng.choice([1, 2, 3, 6])))


def gen_time(rng: random.Random) -> float:
    """Times >= 0.  Mostly k/64 (exact as float32 *and* with 6 decimals); sometimes arbitrary doubles."""
    k = rng.randrange(8)
    if k < 5:
        return rng.randrange(0, 64 * 40) / 64.0
    if k == 5:
        return rng.choice([0.0, 0.5, 1.0, 4.40667, 3.322585, 0.0000005, 0.0000015, 1e-9, 1234.5, 59.999999])
    if k == 6:
        return f32(rng.uniform(0, 30))
    return rng.uniform(0, 30)


def gen_unit(rng: random.Random, wide: bool = False) -> float:
    """Value in [0, 1]; wide adds out-of-range values (clamped by the 1-byte fields)."""
    k = rng.randrange(8)
    if k < 3:
        return rng.randrange(256) / 255.0
    if k == 3:
        return rng.choice([0.0, 1.0, 0.5, 0.138743, 0.25, 0.999, 0.001, 0.5 / 255.0, 1.5 / 255.0])
    if k == 4 and wide:
        return rng.choice([-0.25, 1.5, -1e-6, 2.0])
    return rng.random()


def gen_float(rng: random.Random) -> float:
    k = rng.randrange(6)
    if k == 0:
        return 0.0
    if k == 1:
        return float(rng.randint(-100, 100))
    if k == 2:
        return rng.randrange(-64 * 8, 64 * 8) / 64.0
    if k == 3:
        return rng.choice([1e-5, -1e-5, 123456.5, 1e20, -2.75, 0.1, 1 / 3])
    if k == 4:
        return f32(rng.uniform(-10, 10))
    return rng.uniform(-10, 10)


def _abs_gt1_ok() -> bool:
    """Does AbsoluteTag accept its documented range [0, 16)?  (Probe: it does not on the pinned tree.)"""
    from srctools import choreo
    try:
        choreo.AbsoluteTag('probe', 2.0)
    except ValueError:
        return False
    return True


def gen_curve_type(rng: random.Random, choreo):
    interps = list(choreo.Interpolation)
    if rng.random() < 0.3:
        return choreo.CURVE_DEFAULT
    return choreo.CurveType(rng.choice(interps), rng.choice(interps))


def gen_edge(rng: random.Random, choreo):
    if rng.random() < 0.6:
        return choreo.CurveEdge(False)
    return choreo.CurveEdge(True, rng.choice([0.0, 0.5, 1.0, rng.random(), -0.25]), gen_curve_type(rng, choreo))


def gen_samples(rng: random.Random, choreo, maxn: int = 4, curves: bool = True):
    n = rng.choice([0, 1, 1, 2, 3, maxn])
    return [
        choreo.ExpressionSample(
            gen_time(rng), gen_unit(rng, wide=True),
            gen_curve_type(rng, choreo) if curves and rng.random() < 0.5 else choreo.CURVE_DEFAULT,
        ) for _ in range(n)
    ]


def gen_curve(rng: random.Random, choreo, allow_edge_only: bool = True):
    k = rng.randrange(4)
    if k == 0:
        return choreo.Curve()
    ramp = gen_samples(rng, choreo)
    if k == 1:
        return choreo.Curve(ramp)
    left, right = gen_edge(rng, choreo), gen_edge(rng, choreo)
    if not ramp and not allow_edge_only:
        left = right = choreo.CurveEdge(False)
    return choreo.Curve(ramp, left, right)


def gen_flex_track(rng: random.Random, choreo):
    combo = rng.random() < 0.5
    lo, hi = rng.choice([(0.0, 1.0), (0.0, 1.0), (-1.0, 1.0), (0.25, 0.75), (gen_float(rng), gen_float(rng))])
    if abs(lo) > 1e9 or abs(hi) > 1e9:
        lo, hi = 0.0, 2.0
    return choreo.FlexAnimTrack(
        name=gen_name(rng),
        active=rng.random() < 0.7,
        min=lo, max=hi,
        mag_track=gen_samples(rng, choreo),
        dir_track=gen_samples(rng, choreo) if combo else None,
        left=gen_edge(rng, choreo), right=gen_edge(rng, choreo),
    )


def gen_event(rng: random.Random, choreo, feat: dict, etype=None):
    if etype is None:
        etype = rng.choice(list(choreo.EventType))
    ET = choreo.EventType
    start = gen_time(rng)
    end = -1.0 if rng.random() < 0.35 else start + gen_time(rng)
    kw = dict(
        name=gen_name(rng),
        flags=choreo.EventFlags(rng.choice([0, 8, 8, 8, 63, rng.randrange(64)])),
        parameters=(gen_name(rng), rng.choice(['', '', gen_name(rng)]), rng.choice(['', '', gen_name(rng)])),
        start_time=start, end_time=end,
        ramp=gen_curve(rng, choreo, allow_edge_only=feat['edge_only_event_ramp']),
    )
    if rng.random() < 0.3:
        kw['dist_to_targ'] = rng.choice([59.0, 0.25, 12.5, 100.0, 0.0, 33.333, 0.006, 7.125])
    if feat['reltag'] and rng.random() < 0.5:
        kw['tag_name'], kw['tag_wav_name'] = rng.choice([
            (gen_name(rng), gen_name(rng)), ('a_tag', 'barn.ditchcar'), ('', ''), (None, 'wav'), ('tag', None)])
    if rng.random() < 0.3:
        kw['relative_tags'] = [choreo.Tag(gen_name(rng), gen_unit(rng)) for _ in range(rng.choice([0, 1, 2, 3]))]
    if rng.random() < 0.25:
        kw['timing_tags'] = [choreo.TimingTag(gen_name(rng), gen_unit(rng), rng.random() < 0.5)
                             for _ in range(rng.choice([1, 2]))]
    for key in ('absolute_playback_tags', 'absolute_shifted_tags'):
        if rng.random() < 0.25:
            tags = []
            for _ in range(rng.choice([1, 2, 3])):
                v = gen_unit(rng)
                if feat['abs_gt1'] and rng.random() < 0.5:
                    v = rng.choice([1.5, 2.0, 15.999755859375, 15.9999, rng.uniform(1, 15.9)])
                tags.append(choreo.AbsoluteTag(gen_name(rng), v))
            kw[key] = tags
    if feat['flex'] and (etype is ET.FlexAnimation or rng.random() < 0.1):
        kw['flex_anim_tracks'] = [gen_flex_track(rng, choreo) for _ in range(rng.choice([1, 1, 2, 3]))]
    if rng.random() < 0.25:
        kw['default_curve_type'] = gen_curve_type(rng, choreo)
    if rng.random() < 0.25:
        kw['pitch'] = rng.choice([0, 61, -47, 100, -100, rng.randint(-100, 100)])
        kw['yaw'] = rng.choice([0, 61, -47, 100, -100, rng.randint(-100, 100)])

    if etype is ET.Gesture:
        return choreo.GestureEvent(gesture_sequence_duration=rng.choice([0.0, 1.5, 0.1, gen_time(rng)]), **kw)
    if etype is ET.Loop:
        return choreo.LoopEvent(loop_count=rng.choice([-1, 0, 1, 8, 127, -128, rng.randint(-128, 127)]), **kw)
    if etype is ET.Speak:
        tok = rng.choice(['', '', gen_name(rng, plain=not feat['quoted_cctoken'])])
        return choreo.SpeakEvent(
            caption_type=rng.choice(list(choreo.CaptionType)),
            cc_token=tok,
            suppress_caption_attenuation=rng.random() < 0.4,
            use_combined_file=rng.random() < 0.4,
            use_gender_token=rng.random() < 0.4,
            **kw,
        )
    return choreo.Event(type=etype, **kw)


def gen_scene(rng: random.Random, avoid=()):
    """Random Scene.  Per scene a few feature switches decide whether the constructs in FEATURES may appear, so
    that a defect in one of them does not shadow everything else; `avoid` forces named features off."""
    from srctools import choreo
    avoid = set(avoid)
    feat = {
        'flex': rng.random() < 0.35,
        'reltag': rng.random() < 0.35,
        'quoted_cctoken': rng.random() < 0.3,
        'quoted_scalekey': rng.random() < 0.25,
        'edge_only_event_ramp': rng.random() < 0.25,
        'abs_gt1': rng.random() < 0.5,
    }
    for name in avoid:
        feat[name] = False
    if feat['abs_gt1'] and not _abs_gt1_ok():
        feat['abs_gt1'] = False  # constructor refuses; covered by TARGETED/EXTRA_CHECKS instead.

    size = rng.choice([0, 1, 2, 2, 3])
    scene = choreo.Scene()
    for _ in range(rng.choice([0, 1, 2, size + 1])):
        scene.events.append(gen_event(rng, choreo, feat))
    for _ in range(rng.choice([0, 1, 1, size])):
        actor = choreo.Actor(gen_name(rng), rng.random() < 0.8)
        if rng.random() < 0.3:
            actor.faceposer_model = rng.choice(['models/alyx.mdl', 'models\\my model.mdl', gen_name(rng)])
        for _ in range(rng.choice([0, 1, 1, 2, size])):
            chan = choreo.Channel(gen_name(rng), rng.random() < 0.8)
            for _ in range(rng.choice([0, 1, 2, size + 1])):
                chan.events.append(gen_event(rng, choreo, feat))
            actor.channels.append(chan)
        scene.actors.append(actor)
    scene.ramp = gen_curve(rng, choreo)
    scene.ignore_phonemes = rng.random() < 0.3
    scene.text_crc = rng.choice([0, 0, 1, 0xFFFFFFFF, rng.getrandbits(32)])
    if rng.random() < 0.3:
        scene.map_name = rng.choice(['maps/d1_trainstation_01.vmf', 'my map', gen_name(rng)])
    scene.fps = rng.choice([60, 60, 10, 240, 30, rng.randint(10, 240)])
    scene.use_frame_snap = rng.random() < 0.3
    if rng.random() < 0.4:
        for _ in range(rng.choice([1, 2, 5])):
            scene.scale_settings[gen_name(rng, plain=not feat['quoted_scalekey'])] = rng.choice(['100', gen_name(rng)])
    return scene


# ---------------------------------------------------------------------------------------------------------------------
# dump / diff

_PRIMS = frozenset([bool, int, float, str, bytes, type(None)])
_FIELDS = {}       # class -> tuple of public field names, or _ENUM
_ENUM = object()
_ENUM_DUMPS = {}   # enum member (singleton, by identity) -> its shared dump dict


def _fields_of(cls):
    import enum
    if issubclass(cls, enum.Enum):
        res = _ENUM
    else:
        attrs_fields = getattr(cls, '__attrs_attrs__', None)
        if attrs_fields is not None:
            names = [a.name for a in attrs_fields]
        else:
            names = None  # plain object: look at the instance each time.
        res = None if names is None else tuple(n for n in names if not n.startswith('_'))
    _FIELDS[cls] = res
    return res


def dump(obj):
    """Field-wise plain-Python image of a scene (dict per object with '__class__'), independent of __eq__.
    Enum members dump to one shared dict per member (they are singletons)."""
    cls = type(obj)
    if cls in _PRIMS:
        return obj
    if cls is list:
        return [dump(x) for x in obj]
    if cls is tuple:
        return tuple([dump(x) for x in obj])
    if cls is dict:
        return {'__dict__': [(dump(k), dump(v)) for k, v in obj.items()]}  # keeps insertion order visible.
    try:
        fields = _FIELDS[cls]
    except KeyError:
        fields = _fields_of(cls)
    if fields is _ENUM:
        key = id(obj)
        try:
            return _ENUM_DUMPS[key][1]
        except KeyError:
            import enum
            if isinstance(obj, enum.Flag):
                res = {'__enum__': cls.__name__, 'value': obj.value}
            else:
                res = {'__enum__': cls.__name__, 'name': obj.name}
            _ENUM_DUMPS[key] = (obj, res)  # keep obj alive so the id stays unique (pseudo-members of Flags).
            return res
    if fields is None:
        if isinstance(obj, (bool, int, float, str, bytes, list, tuple, dict)):  # subclasses of builtins
            for base in (bool, int, float, str, bytes, list, tuple, dict):
                if isinstance(obj, base):
                    return dump(base(obj))
        fields = [n for n in list(getattr(obj, '__dict__', ())) + list(getattr(cls, '__slots__', ()))
                  if not n.startswith('_')]
    res = {'__class__': cls.__name__}
    for name in fields:
        res[name] = dump(getattr(obj, name))
    return res


def _short(v) -> str:
    r = repr(v)
    return r if len(r) <= 60 else r[:57] + '...'


_NUM = frozenset([int, float])


def _diff(exp, got):
    """None, or [message, path part, path part, ...] with the path parts innermost-first."""
    if exp is got:
        return None
    te, tg = type(exp), type(got)
    if te is not tg:
        if te in _NUM and tg in _NUM:
            return None if exp == got else [f'expected {_short(exp)}, got {_short(got)}']
        return [f'expected {te.__name__} {_short(exp)}, got {tg.__name__} {_short(got)}']
    if te is dict:
        if exp.get('__class__') != got.get('__class__'):
            return [f'expected class {exp.get("__class__")}, got {got.get("__class__")}']
        for key in exp:
            if key not in got:
                return ['missing', f'.{key}']
        for key in got:
            if key not in exp:
                return ['unexpected', f'.{key}']
        for key, val in exp.items():
            d = _diff(val, got[key])
            if d is not None:
                if key != '__dict__':
                    d.append(f'.{key}')
                return d
        return None
    if te is list or te is tuple:
        if len(exp) != len(got):
            return [f'expected len {len(exp)}, got len {len(got)}']
        for i in range(len(exp)):
            d = _diff(exp[i], got[i])
            if d is not None:
                d.append(f'[{i}]')
                return d
        return None
    if exp != got:
        return [f'expected {_short(exp)}, got {_short(got)}']
    return None


def first_diff(exp, got, path: str = 'scene'):
    """First difference between two dumps as 'path: expected X, got Y', or None.  int/float compare numerically,
    bool is distinct from int, every other type must match exactly."""
    d = _diff(exp, got)
    if d is None:
        return None
    return path + ''.join(reversed(d[1:])) + ': ' + d[0]


# ---------------------------------------------------------------------------------------------------------------------
# normalisation of a dump to what an encoding stores

_EDGE_OFF = None
_CURVE_DEF = None


def _consts():
    global _EDGE_OFF, _CURVE_DEF
    if _EDGE_OFF is None:
        from srctools import choreo
        _EDGE_OFF = dump(choreo.CurveEdge(False))
        _CURVE_DEF = dump(choreo.CURVE_DEFAULT)
    return _EDGE_OFF, _CURVE_DEF


def _walk(d, fn):
    """Apply fn to every object-dict (post-order), returning a rebuilt structure."""
    if isinstance(d, dict):
        if '__enum__' in d:
            return d  # shared, never modified.
        new = {k: _walk(v, fn) for k, v in d.items()}
        if '__class__' in new:
            fn(new)
        return new
    if isinstance(d, list):
        return [_walk(x, fn) for x in d]
    if isinstance(d, tuple):
        return tuple(_walk(x, fn) for x in d)
    return d


_EVENT_CLASSES = ('Event', 'GestureEvent', 'LoopEvent', 'SpeakEvent')


def _norm_common_event(o: dict) -> None:
    if o['tag_name'] is not None or o['tag_wav_name'] is not None:
        o['tag_name'] = o['tag_name'] or ''
        o['tag_wav_name'] = o['tag_wav_name'] or ''
    if o['__class__'] == 'SpeakEvent' and o['caption_type']['name'] == 'Disabled':
        o['use_combined_file'] = False


def norm_text(d):
    """What a text VCD stores of a dumped scene."""
    edge_off, curve_def = _consts()

    def fn(o: dict) -> None:
        cls = o['__class__']
        if cls == 'Scene':
            o['text_crc'] = 0
            o['time_zoom_lookup'] = {'__dict__': []}
        elif cls in _EVENT_CLASSES:
            _norm_common_event(o)
            o['start_time'] = t6(o['start_time'])
            o['end_time'] = t6(o['end_time'])
            o['dist_to_targ'] = float('%.2f' % o['dist_to_targ']) if o['dist_to_targ'] > 0.0 else 0
            if not o['flex_anim_tracks']:
                o['default_curve_type'] = curve_def
    return _walk(d, fn)


def norm_binary(d):
    """What a binary BVCD stores of a dumped scene (see module docstring)."""
    edge_off, curve_def = _consts()

    def samples(lst, keep_curve: bool) -> None:
        for s in lst:
            s['time'] = f32(s['time'])
            s['value'] = q255(s['value'])
            if not keep_curve:
                s['curve_type'] = curve_def

    def fn(o: dict) -> None:
        cls = o['__class__']
        if cls == 'Scene':
            o['map_name'] = ''
            o['fps'] = 60
            o['time_zoom_lookup'] = {'__dict__': []}
            o['use_frame_snap'] = False
            o['scale_settings'] = {'__dict__': []}
        elif cls == 'Actor':
            o['faceposer_model'] = ''
        elif cls == 'Curve':
            o['left'] = o['right'] = edge_off
            samples(o['ramp'], False)
        elif cls == 'FlexAnimTrack':
            o['left'] = o['right'] = edge_off
            o['min'] = f32(o['min'])
            o['max'] = f32(o['max'])
            samples(o['mag_track'], True)
            if o['dir_track'] is not None:
                samples(o['dir_track'], True)
        elif cls in ('Tag', 'TimingTag'):
            o['value'] = q255(o['value'])
            if cls == 'TimingTag':
                o['locked'] = False
        elif cls == 'AbsoluteTag':
            o['value'] = q4096(o['value'])
        elif cls in _EVENT_CLASSES:
            _norm_common_event(o)
            o['start_time'] = f32(o['start_time'])
            o['end_time'] = f32(o['end_time'])
            o['dist_to_targ'] = f32(o['dist_to_targ'])
            o['default_curve_type'] = curve_def
            o['pitch'] = o['yaw'] = 0
            if cls == 'GestureEvent':
                o['gesture_sequence_duration'] = f32(o['gesture_sequence_duration'])
    return _walk(d, fn)


# ---------------------------------------------------------------------------------------------------------------------
# (a) text

def _export_text(scene) -> str:
    buf = io.StringIO()
    scene.export_text(buf)
    return buf.getvalue()


def _brace_balance(text: str):
    """Net '{' minus '}' tokens of a VCD text (quoted braces not counted); None if it does not tokenise."""
    from srctools.tokenizer import Token, Tokenizer
    depth = 0
    try:
        for tok, _ in Tokenizer(text):
            if tok is Token.BRACE_OPEN:
                depth += 1
            elif tok is Token.BRACE_CLOSE:
                depth -= 1
    except Exception:
        return None
    return depth


def _exc(exc: BaseException) -> str:
    msg = ' '.join(str(exc).split())
    return f'{type(exc).__name__}: {msg[:110]}'


def check_text(scene):
    """(a): parse_text(export_text(s)) == s up to norm_text(), and the second export is the identical text."""
    from srctools import choreo
    from srctools.tokenizer import Tokenizer
    try:
        text1 = _export_text(scene)
    except Exception as exc:
        return 'export_text ' + _exc(exc)
    try:
        scene2 = choreo.Scene.parse_text(Tokenizer(text1))
    except Exception as exc:
        bal = _brace_balance(text1)
        extra = f' [export has unbalanced braces {bal:+d}]' if bal else ''
        return 'parse_text ' + _exc(exc) + extra
    diff = first_diff(norm_text(dump(scene)), dump(scene2))
    if diff is not None:
        return 'reparsed ' + diff
    try:
        text2 = _export_text(scene2)
    except Exception as exc:
        return 're-export_text ' + _exc(exc)
    if text1 != text2:
        l1, l2 = text1.split('\n'), text2.split('\n')
        for i, (a, b) in enumerate(zip(l1, l2)):
            if a != b:
                return f're-export differs at line {i + 1}: {_short(a)} vs {_short(b)}'
        return f're-export differs in length: {len(l1)} vs {len(l2)} lines'
    return None


# ---------------------------------------------------------------------------------------------------------------------
# (b) binary

def _make_pool():
    pool = []
    index = {}

    def add(value: str) -> int:
        try:
            return index[value]
        except KeyError:
            index[value] = pos = len(pool)
            pool.append(value)
            return pos
    return pool, add


def check_binary(scene):
    """(b): parse_binary(export_binary(s)) == norm_binary(s); re-export gives the same bytes and pool."""
    from srctools import choreo
    pool1, add1 = _make_pool()
    try:
        data1 = scene.export_binary(add1)
    except Exception as exc:
        return 'export_binary ' + _exc(exc)
    buf = io.BytesIO(data1)
    try:
        scene2 = choreo.Scene.parse_binary(buf, pool1)
    except Exception as exc:
        return 'parse_binary ' + _exc(exc)
    left = len(data1) - buf.tell()
    if left:
        return f'parse_binary left {left} unread byte(s) of {len(data1)}'
    diff = first_diff(norm_binary(dump(scene)), dump(scene2))
    if diff is not None:
        return 'reparsed ' + diff
    pool2, add2 = _make_pool()
    try:
        data2 = scene2.export_binary(add2)
    except Exception as exc:
        return 're-export_binary ' + _exc(exc)
    if data1 != data2:
        pos = next((i for i, (a, b) in enumerate(zip(data1, data2)) if a != b), min(len(data1), len(data2)))
        return f're-export differs at byte {pos} (lengths {len(data1)} vs {len(data2)})'
    if pool1 != pool2:
        return 're-export string pool differs'
    return None


# ---------------------------------------------------------------------------------------------------------------------
# (c) scenes.image

def _gen_filenames(rng: random.Random, count: int):
    from srctools import choreo
    names, seen = [], set()
    parts = ['npc', 'Gman', 'alyx', 'd1_town', 'TrainStation', 'x', 'odd name', 'a.b']
    while len(names) < count:
        depth = rng.choice([0, 1, 2])
        path = [rng.choice(parts) for _ in range(depth)] + [f'{rng.choice(parts)}_{rng.randrange(1000)}.vcd']
        name = rng.choice(['/', '\\']).join(path)
        if rng.random() < 0.6:
            name = rng.choice(['scenes/', 'scenes\\', 'SCENES/']) + name
        crc = choreo.checksum_filename(name)
        if crc in seen:
            continue
        seen.add(crc)
        names.append(name)
    return names


def _raw_table(data: bytes):
    """(version, [(crc, data_off, data_size, summary_off)...]) read straight from the bytes."""
    magic, version, scene_count, string_count, scene_off = struct.unpack_from('<4s4i', data, 0)
    rows = [struct.unpack_from('<Iiii', data, scene_off + 16 * i) for i in range(scene_count)]
    return magic, version, string_count, rows


def _summary_of(choreo, scene):
    return (
        round(scene.duration() * 1000.0),
        round(scene.duration(choreo.EventType.Speak) * 1000.0),
        sorted(set(scene.used_sounds())),
    )


def _check_parsed(choreo, parsed, expect, version, stage):
    """expect: {crc: (name, original scene)}."""
    if list(parsed) != sorted(expect):
        return f'{stage}: parsed checksums {list(parsed)[:4]} != sorted originals {sorted(expect)[:4]}'
    for crc, entry in parsed.items():
        name, orig = expect[crc]
        dur, speak, sounds = _summary_of(choreo, orig)
        if version == 2:
            speak = dur
        if entry.checksum != crc:
            return f'{stage}: entry.checksum {entry.checksum} under key {crc}'
        if entry.duration_ms != dur:
            return f'{stage}: duration_ms expected {dur}, got {entry.duration_ms}'
        if entry.last_speak_ms != speak:
            return f'{stage}: last_speak_ms expected {speak}, got {entry.last_speak_ms} (v{version})'
        if entry.sounds != sounds:
            return f'{stage}: sounds expected {_short(sounds)}, got {_short(entry.sounds)}'
        try:
            loaded = entry.data
        except Exception as exc:
            return f'{stage}: lazy load ' + _exc(exc)
        if entry.data is not loaded:
            return f'{stage}: entry.data not cached after load'
        diff = first_diff(norm_binary(dump(orig)), dump(loaded))
        if diff is not None:
            return f'{stage}: loaded ' + diff
        # Summary against the re-read scene itself (float32 times -> 1 ms slack).
        dur2, speak2, sounds2 = _summary_of(choreo, loaded)
        if abs(dur2 - entry.duration_ms) > 1:
            return f'{stage}: duration_ms {entry.duration_ms} inconsistent with loaded scene {dur2}'
        if version == 3 and abs(speak2 - entry.last_speak_ms) > 1:
            return f'{stage}: last_speak_ms {entry.last_speak_ms} inconsistent with loaded scene {speak2}'
        if sounds2 != entry.sounds:
            return f'{stage}: sounds inconsistent with loaded scene'
    return None


def _save(choreo, entries, version) -> bytes:
    buf = io.BytesIO()
    choreo.save_scenes_image_sync(buf, entries, version=version)
    return buf.getvalue()


def _check_raw(data: bytes, version, count, stage):
    magic, ver, string_count, rows = _raw_table(data)
    if magic != b'VSIF' or ver != version or len(rows) != count:
        return f'{stage}: header {magic!r} v{ver} count {len(rows)}, expected VSIF v{version} count {count}'
    crcs = [row[0] for row in rows]
    if any(a >= b for a, b in zip(crcs, crcs[1:])):
        return f'{stage}: entry table not strictly sorted by CRC: {crcs[:5]}'
    for crc, off, size, summ in rows:
        if not (0 < off <= len(data) and 0 <= size and off + size <= len(data) and 0 < summ < len(data)):
            return f'{stage}: entry {crc} offsets out of file (data {off}+{size}, summary {summ}, file {len(data)})'
    return None


def check_image(scenes, version, rng):
    """(c) for one container version: save (shuffled order) -> raw table sorted by CRC -> parse -> same checksums,
    summaries, lazily loaded scenes; then ONE of: re-save the parsed image untouched (must be byte-identical),
    re-save after loading everything (fresh pool), re-save lazy entries from two pools, or lazy + fresh entries."""
    from srctools import choreo
    try:
        names = _gen_filenames(rng, len(scenes))
        entries = [choreo.Entry.from_scene(name, scene) for name, scene in zip(names, scenes)]
    except Exception as exc:
        return 'Entry.from_scene ' + _exc(exc)
    for name, entry in zip(names, entries):
        if entry.checksum != choreo.checksum_filename(name) or entry.filename != name:
            return f'from_scene: checksum/filename not set for {name!r}'
    expect = {entry.checksum: (name, scene) for name, scene, entry in zip(names, scenes, entries)}
    order = list(entries)
    rng.shuffle(order)
    as_dict = rng.random() < 0.3
    try:
        data1 = _save(choreo, {e.checksum: e for e in order} if as_dict else iter(order), version)
    except Exception as exc:
        return f'save v{version} ' + _exc(exc)
    err = _check_raw(data1, version, len(scenes), f'save v{version}')
    if err is not None:
        return err
    try:
        parsed = choreo.parse_scenes_image(io.BytesIO(data1))
    except Exception as exc:
        return f'parse v{version} ' + _exc(exc)
    for entry in parsed.values():
        if not isinstance(entry._data, tuple):
            return 'parse: entry not lazy'
    # Every save LZMA-compresses each scene with a 16 MB dictionary (~20 ms apiece), so only ONE follow-up save per
    # call, picked by the rng.
    follow = rng.choice(['lazy', 'lazy', 'loaded', 'merge', 'mixed'])
    if follow == 'lazy':
        # Untouched re-save (entries still lazy): raw data + shared pool are reused -> identical bytes.
        try:
            data2 = _save(choreo, parsed, version)
        except Exception as exc:
            return f're-save(lazy) v{version} ' + _exc(exc)
        if data2 != data1:
            return f're-save(lazy) v{version}: bytes differ ({len(data1)} vs {len(data2)})'
    err = _check_parsed(choreo, parsed, expect, version, f'v{version}')
    if err is not None:
        return err
    if follow == 'lazy':
        return None
    try:
        if follow == 'loaded':
            # Everything is loaded now -> re-exported through a fresh pool.
            again = list(parsed.values())
        else:
            # Two parses of the same bytes give two distinct pool objects.
            img_a = list(choreo.parse_scenes_image(io.BytesIO(data1)).values())
            img_b = list(choreo.parse_scenes_image(io.BytesIO(data1)).values())
            half = (len(img_a) + 1) // 2
            if follow == 'merge':    # lazy entries holding two different pools -> all re-exported.
                again = img_b[half:] + img_a[:half]
            else:                    # one reused pool + fresh Scene entries appended to it.
                fresh = [e for e in order if e.checksum not in {x.checksum for x in img_a[:half]}]
                again = fresh + img_a[:half]
        rng.shuffle(again)
        data3 = _save(choreo, again, version)
        parsed3 = choreo.parse_scenes_image(io.BytesIO(data3))
    except Exception as exc:
        return f're-save({follow}) v{version} ' + _exc(exc)
    return _check_raw(data3, version, len(scenes), f're-save({follow})') or _check_parsed(
        choreo, parsed3, expect, version, f're-save({follow}) v{version}')


# ---------------------------------------------------------------------------------------------------------------------
# targeted corner cases

def _ev(choreo, **kw):
    base = dict(name='ev', type=choreo.EventType.Generic, flags=choreo.EventFlags.Active, parameters=('p', '', ''),
                start_time=1.0, end_time=2.0, ramp=choreo.Curve())
    base.update(kw)
    etype = base.pop('type')
    if 'gesture_sequence_duration' in base:
        return choreo.GestureEvent(**base)
    if 'loop_count' in base:
        return choreo.LoopEvent(**base)
    if 'caption_type' in base or 'cc_token' in base:
        return choreo.SpeakEvent(**base)
    return choreo.Event(type=etype, **base)


def _t_empty():
    from srctools import choreo
    return choreo.Scene()


def _t_every_event_type():
    from srctools import choreo
    scene = choreo.Scene()
    chan = choreo.Channel('all')
    for et in choreo.EventType:
        if et is choreo.EventType.Gesture:
            ev = _ev(choreo, name=et.name, gesture_sequence_duration=1.25)
        elif et is choreo.EventType.Loop:
            ev = _ev(choreo, name=et.name, loop_count=3, end_time=-1.0)
        elif et is choreo.EventType.Speak:
            ev = _ev(choreo, name=et.name, caption_type=choreo.CaptionType.Slave, cc_token='tok')
        else:
            ev = _ev(choreo, name=et.name, type=et)
        chan.events.append(ev)
    scene.actors.append(choreo.Actor('act', True, [chan]))
    return scene


def _t_empty_actor_channel():
    from srctools import choreo
    return choreo.Scene(actors=[
        choreo.Actor('', False, []),
        choreo.Actor('has empty channel', True, [choreo.Channel('', False, []), choreo.Channel('c2')],
                     faceposer_model='models/x y.mdl'),
    ])


def _t_quoted_names():
    from srctools import choreo
    nasty = 'say "hi" \\ {x}\t;\n'
    ev = _ev(choreo, name=nasty, parameters=(nasty, 'p 2"', "p'3"), tag_name=None, tag_wav_name=None,
             relative_tags=[choreo.Tag(nasty, 0.2)],
             timing_tags=[choreo.TimingTag('t "q"', 0.4, True)],
             absolute_playback_tags=[choreo.AbsoluteTag('a b', 0.6)],
             absolute_shifted_tags=[choreo.AbsoluteTag('}', 0.8)])
    scene = choreo.Scene(events=[ev], map_name='maps/"quoted" map.vmf')
    scene.actors.append(choreo.Actor(nasty, True, [choreo.Channel(nasty, True, [])], faceposer_model=nasty))
    scene.scale_settings['CChoreoView'] = '1 "00"'
    return scene


def _t_cctoken_quote():
    from srctools import choreo
    return choreo.Scene(events=[_ev(choreo, caption_type=choreo.CaptionType.Master, cc_token='tok"en')])


def _t_cctoken_backslash():
    from srctools import choreo
    return choreo.Scene(events=[_ev(choreo, caption_type=choreo.CaptionType.Master, cc_token='a\\nb')])


def _t_scalekey_quote():
    from srctools import choreo
    scene = choreo.Scene()
    scene.scale_settings['Ramp"Tool'] = '100'
    return scene


def _t_relative_tag():
    from srctools import choreo
    return choreo.Scene(events=[_ev(choreo, tag_name='a_tag', tag_wav_name='barn.ditchcar')])


def _t_relative_tag_then_more():
    from srctools import choreo
    return choreo.Scene(events=[
        _ev(choreo, tag_name='a_tag', tag_wav_name='barn.ditchcar'),
        _ev(choreo, name='second', loop_count=2),
    ], actors=[choreo.Actor('act')])


def _t_flex_plain():
    from srctools import choreo
    track = choreo.FlexAnimTrack('lid_raiser', mag_track=[choreo.ExpressionSample(0.25, 0.2)])
    return choreo.Scene(events=[_ev(choreo, type=choreo.EventType.FlexAnimation, flex_anim_tracks=[track])])


def _t_flex_combo():
    from srctools import choreo
    ct = choreo.CurveType(choreo.Interpolation.HOLD, choreo.Interpolation.EASE_IN)
    track = choreo.FlexAnimTrack(
        'smile', active=False, min=-1.0, max=1.0,
        mag_track=[choreo.ExpressionSample(0.25, 0.2, ct), choreo.ExpressionSample(0.5, 1.0)],
        dir_track=[choreo.ExpressionSample(0.25, 0.4)],
        left=choreo.CurveEdge(True, 0.5, ct),
    )
    empty = choreo.FlexAnimTrack('empty combo', dir_track=[])
    return choreo.Scene(events=[
        _ev(choreo, type=choreo.EventType.FlexAnimation, flex_anim_tracks=[track, empty], default_curve_type=ct),
        _ev(choreo, name='after'),
    ])


def _t_all_interpolations():
    from srctools import choreo
    interps = list(choreo.Interpolation)
    ramp = [
        choreo.ExpressionSample(i / 16.0, i / 15.0, choreo.CurveType(a, interps[-1 - i]))
        for i, a in enumerate(interps)
    ]
    left = choreo.CurveEdge(True, 0.25, choreo.CurveType(interps[5], interps[13]))
    right = choreo.CurveEdge(True, 0.75, choreo.CurveType(interps[1], interps[12]))
    return choreo.Scene(ramp=choreo.Curve(list(ramp), left, right),
                        events=[_ev(choreo, ramp=choreo.Curve(list(ramp), right, left))])


def _t_edge_only_ramps():
    from srctools import choreo
    edge = choreo.CurveEdge(True, 0.5, choreo.CurveType(choreo.Interpolation.LINEAR, choreo.Interpolation.HOLD))
    return choreo.Scene(ramp=choreo.Curve([], edge), events=[_ev(choreo, ramp=choreo.Curve([], right=edge))])


def _t_right_edge_only():
    from srctools import choreo
    edge = choreo.CurveEdge(True, 0.5, choreo.CurveType(choreo.Interpolation.LINEAR, choreo.Interpolation.HOLD))
    return choreo.Scene(ramp=choreo.Curve([choreo.ExpressionSample(1.0, 0.5)], right=edge))


def _t_flags_and_active():
    from srctools import choreo
    scene = choreo.Scene()
    for value in (0, 8, 63, 1, 2, 4, 16, 32, 55):
        scene.events.append(_ev(choreo, name=f'f{value}', flags=choreo.EventFlags(value)))
    return scene


def _t_speak_matrix():
    from srctools import choreo
    chan = choreo.Channel('c')
    for cap in choreo.CaptionType:
        for bits in range(8):
            chan.events.append(_ev(
                choreo, name=f'{cap.name}{bits}', parameters=(f'snd.{cap.name}{bits}', '', ''),
                caption_type=cap, cc_token='' if bits & 1 else f'tok{bits}',
                use_combined_file=bool(bits & 1), use_gender_token=bool(bits & 2),
                suppress_caption_attenuation=bool(bits & 4), end_time=2.0 + bits,
            ))
    return choreo.Scene(actors=[choreo.Actor('a', True, [chan])])


def _t_loop_extremes():
    from srctools import choreo
    return choreo.Scene(events=[
        _ev(choreo, name='l-1', loop_count=-1, end_time=-1.0),
        _ev(choreo, name='l0', loop_count=0, end_time=-1.0),
        _ev(choreo, name='l127', loop_count=127),
        _ev(choreo, name='l-128', loop_count=-128),
    ])


def _t_abs_tag_wide():
    """AbsoluteTag documents 0 <= value < 16 at 1/4096 precision; raises ValueError while the class is broken."""
    from srctools import choreo
    return choreo.Scene(events=[_ev(
        choreo,
        absolute_playback_tags=[choreo.AbsoluteTag('late', 2.5)],
        absolute_shifted_tags=[choreo.AbsoluteTag('max', 65535 / 4096.0)],
    )])


def _t_quantise_edges():
    from srctools import choreo
    vals = [0.0, 1.0, 0.5, 0.5 / 255, 1.5 / 255, 254.5 / 255, 0.138743, 1e-9]
    return choreo.Scene(
        ramp=choreo.Curve([choreo.ExpressionSample(0.1 * i, v) for i, v in enumerate(vals)]),
        events=[_ev(
            choreo, start_time=0.1, end_time=3.322585, dist_to_targ=59.005,
            relative_tags=[choreo.Tag(f't{i}', v) for i, v in enumerate(vals)],
            absolute_playback_tags=[choreo.AbsoluteTag(f'a{i}', v) for i, v in enumerate(vals)],
            gesture_sequence_duration=0.1,
        )],
    )


def _t_times_text_rounding():
    from srctools import choreo
    return choreo.Scene(events=[
        _ev(choreo, name='tiny', start_time=0.0000004, end_time=0.0000016),
        _ev(choreo, name='neg_end', start_time=4.40667, end_time=-1.0),
        _ev(choreo, name='almost_no_end', start_time=0.0, end_time=-1.0000001),
        _ev(choreo, name='dist', dist_to_targ=0.006),
        _ev(choreo, name='pitchyaw', pitch=-100, yaw=100, type=choreo.EventType.LookAt),
    ])


def _t_scene_options():
    from srctools import choreo
    scene = choreo.Scene(map_name='maps\\test.vmf', fps=240, use_frame_snap=True, ignore_phonemes=True,
                         text_crc=0xDEADBEEF)
    for key in ('CChoreoView', 'ExpressionTool', 'GestureTool', 'RampTool', 'SceneRampTool'):
        scene.scale_settings[key] = '100'
    scene.scale_settings['with space'] = ''
    return scene


def _t_many_events():
    """130 events in one channel (> 127: catches a signed count byte) without costing 255 events' worth of time."""
    from srctools import choreo
    chan = choreo.Channel('big')
    for i in range(130):
        chan.events.append(_ev(choreo, name=f'e{i}', start_time=i / 64.0, end_time=-1.0))
    return choreo.Scene(actors=[choreo.Actor('a', True, [chan])])


def _t_max_counts():
    """255 (the one-byte maximum) tags / ramp samples / flex-free lists in one event, 255 scene ramp samples."""
    from srctools import choreo
    ramp = [choreo.ExpressionSample(i / 64.0, (i % 256) / 255.0) for i in range(255)]
    ev = _ev(
        choreo, ramp=choreo.Curve(list(ramp)),
        relative_tags=[choreo.Tag(f'r{i}', i / 255.0) for i in range(255)],
        timing_tags=[choreo.TimingTag(f't{i % 7}', i / 255.0, i % 2 == 0) for i in range(255)],
        absolute_playback_tags=[choreo.AbsoluteTag(f'p{i}', i / 4096.0) for i in range(255)],
    )
    return choreo.Scene(events=[ev], ramp=choreo.Curve(list(ramp)))


def _t_many_actors():
    from srctools import choreo
    scene = choreo.Scene()
    for i in range(200):
        scene.actors.append(choreo.Actor(f'actor{i}', i % 3 != 0, [choreo.Channel(f'c{i}', i % 2 == 0)] * (i % 2)))
    return scene


def _t_keyword_names():
    from srctools import choreo
    return choreo.Scene(
        events=[_ev(choreo, name='event', parameters=('param2', 'time', 'active'))],
        actors=[choreo.Actor('channel', True, [choreo.Channel('actor', True, [_ev(choreo, name='faceposermodel')])])],
    )


TARGETED = [
    ('empty_scene', _t_empty),
    ('every_event_type', _t_every_event_type),
    ('empty_actor_channel', _t_empty_actor_channel),
    ('quoted_names', _t_quoted_names),
    ('keyword_names', _t_keyword_names),
    ('cctoken_quote', _t_cctoken_quote),
    ('cctoken_backslash', _t_cctoken_backslash),
    ('scalekey_quote', _t_scalekey_quote),
    ('relative_tag', _t_relative_tag),
    ('relative_tag_then_more', _t_relative_tag_then_more),
    ('flex_plain', _t_flex_plain),
    ('flex_combo', _t_flex_combo),
    ('all_interpolations', _t_all_interpolations),
    ('edge_only_ramps', _t_edge_only_ramps),
    ('right_edge_only', _t_right_edge_only),
    ('flags_and_active', _t_flags_and_active),
    ('speak_matrix', _t_speak_matrix),
    ('loop_extremes', _t_loop_extremes),
    ('abs_tag_wide', _t_abs_tag_wide),
    ('quantise_edges', _t_quantise_edges),
    ('times_text_rounding', _t_times_text_rounding),
    ('scene_options', _t_scene_options),
    ('many_events', _t_many_events),
    ('max_counts', _t_max_counts),
    ('many_actors', _t_many_actors),
]


# ---------------------------------------------------------------------------------------------------------------------
# extra checks that are not a function of one Scene

def _x_abs_tag_binary_read():
    """A BVCD whose absolute tag is stored as 8192/4096 = 2.0 is a valid file; the reader must return 2.0."""
    from srctools import choreo
    pool, add = _make_pool()
    scene = choreo.Scene(events=[_ev(choreo, absolute_playback_tags=[choreo.AbsoluteTag('late', 0.5)])])
    data = bytearray(scene.export_binary(add))
    needle = struct.pack('<hH', pool.index('late'), 2048)
    pos = bytes(data).find(needle)
    if pos < 0 or bytes(data).count(needle) != 1:
        return 'oracle: cannot locate the tag in the exported bytes'
    data[pos:pos + 4] = struct.pack('<hH', pool.index('late'), 8192)
    try:
        back = choreo.Scene.parse_binary(io.BytesIO(bytes(data)), pool)
    except Exception as exc:
        return 'parse_binary of absolute tag 2.0: ' + _exc(exc)
    got = back.events[0].absolute_playback_tags[0].value
    return None if got == 2.0 else f'absolute tag read as {got}, expected 2.0'


def _x_abs_tag_setattr():
    from srctools import choreo
    tag = choreo.AbsoluteTag('t', 0.5)
    try:
        tag.value = 3.0
    except Exception as exc:
        return 'AbsoluteTag.value = 3.0: ' + _exc(exc)
    try:
        tag.value = 16.0
    except ValueError:
        return None
    return 'AbsoluteTag.value = 16.0 accepted (documented range is < 16)'


def _x_image_empty():
    from srctools import choreo
    for version in (2, 3):
        try:
            data = _save(choreo, [], version)
            if choreo.parse_scenes_image(io.BytesIO(data)) != {}:
                return f'empty image v{version} parsed non-empty'
        except Exception as exc:
            return f'empty image v{version} ' + _exc(exc)
    return None


def _x_image_v2_vs_v3_layout():
    """v3 summary = duration, last_speak, count; v2 = duration, count.  Checked on raw bytes."""
    from srctools import choreo
    scene = choreo.Scene(events=[
        _ev(choreo, name='s', parameters=('snd.one', '', ''), caption_type=choreo.CaptionType.Disabled,
            start_time=0.5, end_time=1.5),
        _ev(choreo, name='g', start_time=0.0, end_time=4.0),
    ])
    for version in (2, 3):
        entry = choreo.Entry.from_scene('scenes/t.vcd', scene)
        data = _save(choreo, [entry], version)
        magic, ver, string_count, rows = _raw_table(data)
        (crc, off, size, summ), = rows
        if version == 3:
            got = struct.unpack_from('<Iii', data, summ)
            want = (4000, 1500, 1)
        else:
            got = struct.unpack_from('<Ii', data, summ)
            want = (4000, 1)
        if got != want:
            return f'v{version} raw summary {got}, expected {want}'
        if crc != choreo.checksum_filename('scenes\\T.VCD'):
            return 'checksum_filename is not case/slash-insensitive'
    return None


def _x_entry_setters():
    """Entry.filename recomputes the checksum (unless set to ''), duration/last_speak setters round to ms."""
    from srctools import choreo
    entry = choreo.Entry.from_scene('a.vcd', choreo.Scene())
    first = entry.checksum
    if first != choreo.checksum_filename('SCENES/A.VCD') or first == 0:
        return f'from_scene checksum {first}'
    entry.filename = 'scenes/b.vcd'
    if entry.checksum != choreo.checksum_filename('b.vcd') or entry.checksum == first:
        return 'setting Entry.filename did not recompute the checksum'
    entry.filename = ''
    if entry.checksum != choreo.checksum_filename('b.vcd'):
        return "setting Entry.filename = '' changed the checksum"
    entry.duration = 1.2344
    entry.last_speak = 0.0006
    if (entry.duration_ms, entry.last_speak_ms) != (1234, 1):
        return f'duration setters gave {(entry.duration_ms, entry.last_speak_ms)}'
    return None


def _x_sample_file():
    """tests/test_choreo/sample.vcd through all three encodings."""
    import os
    from srctools import choreo
    from srctools.tokenizer import Tokenizer
    path = '/repo/tests/test_choreo/sample.vcd'
    if not os.path.exists(path):
        return None
    with open(path, encoding='utf8') as f:
        scene = choreo.Scene.parse_text(Tokenizer(f))
    for label, res in (
        ('text', check_text(scene)),
        ('binary', check_binary(scene)),
        ('image v2', check_image([scene], 2, random.Random(1))),
        ('image v3', check_image([scene], 3, random.Random(2))),
    ):
        if res is not None:
            return f'sample.vcd {label}: {res}'
    return None


def _swapcase_strings(obj, depth=0):
    """In place: every string reachable through attrs fields / lists / tuples of a scene is replaced by its swapcase()."""
    import enum
    import attrs
    if isinstance(obj, list):
        for i, v in enumerate(obj):
            obj[i] = _swapped(v, depth)
        return obj
    if attrs.has(type(obj)):
        for field in attrs.fields(type(obj)):
            try:
                v = getattr(obj, field.name)
            except AttributeError:
                continue
            nv = _swapped(v, depth)
            if nv is not v:
                try:
                    setattr(obj, field.name, nv)
                except (AttributeError, TypeError, ValueError):
                    pass
    return obj


def _swapped(v, depth):
    import enum
    import attrs
    if isinstance(v, enum.Enum) or depth > 12:
        return v
    if isinstance(v, str):
        return v.swapcase()
    if isinstance(v, tuple) and v and all(isinstance(x, str) for x in v):
        return tuple(x.swapcase() for x in v)
    if isinstance(v, dict):
        return v
    if isinstance(v, list) or attrs.has(type(v)):
        return _swapcase_strings(v, depth + 1)
    return v


def _x_image_case_variants():
    """Scenes of one image whose strings differ only by letter case: each scene must read back with its own spelling."""
    import random as _random
    for name, make in TARGETED:
        if name in ('empty',):
            continue
        try:
            first, second = make(), _swapcase_strings(make())
        except Exception as exc:
            return f'{name}: building the case variant ' + _exc(exc)
        if check_binary(second) is not None:
            continue        # the swapped scene is not representable by itself (e.g. a keyword-like name): skip the pair
        for version in (2, 3):
            res = check_image([first, second], version, _random.Random(version))
            if res is not None:
                return f'{name} + its swapcase variant in one image v{version}: {res}'
    return None


EXTRA_CHECKS = [
    ('image_case_variants', _x_image_case_variants),
    ('abs_tag_binary_read', _x_abs_tag_binary_read),
    ('abs_tag_setattr', _x_abs_tag_setattr),
    ('image_empty', _x_image_empty),
    ('image_v2_vs_v3_layout', _x_image_v2_vs_v3_layout),
    ('entry_setters', _x_entry_setters),
    ('sample_file', _x_sample_file),
]


# ---------------------------------------------------------------------------------------------------------------------
# runner

def _signature(msg: str) -> str:
    import re
    sig = re.sub(r"'[^']*'|\"[^\"]*\"", 'S', msg)
    sig = re.sub(r'-?\d+(\.\d+)?(e[-+]?\d+)?', 'N', sig)
    sig = re.sub(r'\[N\]', '[]', sig)
    return sig[:120]


def main(argv) -> int:
    import time
    n = int(argv[1]) if len(argv) > 1 else 1000
    avoid = set(argv[2].split(',')) if len(argv) > 2 and argv[2] else set()
    fails = {}
    worst = 0.0
    cover_types, cover_enums = set(), set()

    def record(stage, label, msg):
        if msg is None:
            return
        key = (stage, _signature(msg))
        ent = fails.setdefault(key, [0, label, msg])
        ent[0] += 1

    def run(stage, label, fn):
        try:
            return record(stage, label, fn())
        except Exception as exc:  # harness bug or constructor refusing a value
            record(stage, label, 'HARNESS/GEN ' + _exc(exc))

    for name, build in TARGETED:
        try:
            scene = build()
        except Exception as exc:
            record('targeted-build', name, _exc(exc))
            continue
        run('text', f'targeted {name}', lambda: check_text(scene))
        run('binary', f'targeted {name}', lambda: check_binary(scene))
        for version in (2, 3):
            run(f'image', f'targeted {name} v{version}', lambda: check_image([scene], version, random.Random(7)))
    for name, fn in EXTRA_CHECKS:
        run('extra', name, fn)

    for seed in range(n):
        rng = random.Random(seed)
        t0 = time.perf_counter()
        scene = gen_scene(rng, avoid)
        for ev in scene.iter_events():
            cover_types.add(ev.type.name)
        run('text', f'seed {seed}', lambda: check_text(scene))
        run('binary', f'seed {seed}', lambda: check_binary(scene))
        worst = max(worst, time.perf_counter() - t0)
        t0 = time.perf_counter()
        others = [gen_scene(rng, avoid) for _ in range(rng.choice([0, 0, 1, 2]))]
        version = 2 + seed % 2
        run('image', f'seed {seed} v{version}', lambda: check_image([scene] + others, version, rng))
        worst = max(worst, (time.perf_counter() - t0) / (1 + len(others)))

    print(f'{n} seeds, {len(TARGETED)} targeted, {len(EXTRA_CHECKS)} extra; event types covered: '
          f'{len(cover_types)}/19; worst per-scene gen+check {worst * 1000:.1f} ms')
    if not fails:
        print('no failures')
        return 0
    print(f'{len(fails)} distinct failure signature(s):')
    for (stage, sig), (count, label, msg) in sorted(fails.items(), key=lambda kv: (kv[0][0], -kv[1][0])):
        print(f'  [{stage}] x{count}  first: {label}\n      {msg}')
    return 1


if __name__ == '__main__':
    import sys
    sys.exit(main(sys.argv))
