"""C13 -- VPK archives return exactly what was last written, across reopen.

Proof tier: FileInfo.write followed by FileInfo.read / verify / size, executed symbolically on the real code over a
small file-system model (archive files and the in-memory directory footer as strings standing for byte strings),
for every combination of directory/single-file archive, preload limit None / 0 / n and archive index None / k, with
arbitrary data and arbitrary previous state of the entry; read-only mode proved to reject writes without effect;
_join_file_parts and the preload-length bound of the 18-byte entry record.
Bounded tier: operation histories on real archives in a temp directory with an independent directory decoder;
name normal forms.
"""
import itertools
import os
import shutil
import struct
import tempfile

import z3

from pyvc import smt
from pyvc.driver import bounded, minimise
from pyvc.symexec import Builtin, Obj, PDict, UninterpFn, Unsupported, to_z3
from pyvc.vc import Contract, Lemma, Registry, native

REG = Registry()
PROP = 'C13'
LEVEL = 'other'
M = 'vpk'
EXPLANATION = ('FileInfo.write/read/verify are proved against each other for all data, limits and placements over a '
               'file-system model (append-only archive files, in-memory footer); byte strings are represented by z3 '
               'strings, CRC32 by an uninterpreted function. The directory tree encoding (write_dirfile/load_dirfile), '
               'reopening in r/w/a modes, deletion and name normalisation are bounded stand-ins on real archives with '
               'an independent decoder of the directory bytes.')
TRUSTED = ['file model: open(p, "ab") appends at the end and seek(0, SEEK_END) returns the old length; open(p, "rb") + '
           'seek(o) + read(n) returns bytes o..o+n', 'binformat.checksum = CRC32 as an uninterpreted function (collisions '
           'are outside the property: write() skips data with an equal checksum)', 'bytes modelled as z3 strings']
UNVERIFIED = ['_VPK_IterNullstr (Cython twin)', 'write_dirfile / load_dirfile tree encoding (bounded only)']
TIMEOUT_MS = {'quick': 60000, 'thorough': 240000}

CRC = UninterpFn('crc32', z3.StringSort(), z3.IntSort())


def _fs_open(I, files):
    """Native model of builtins.open over a dict path -> content (z3 String); only the modes the code uses."""
    def open_(path, mode='r'):
        if not isinstance(path, str):
            raise Unsupported('file model needs concrete paths')
        if path not in files.items:
            if 'a' in mode or 'w' in mode:
                files.items[path] = z3.StringVal('')
            else:
                I.raise_('FileNotFoundError', path)
        state = {'pos': 0}

        def seek(off, whence=0):
            content = files.items[path]
            if whence == 2:
                state['pos'] = z3.Length(content) + off if not isinstance(off, int) or off else z3.Length(content)
            else:
                state['pos'] = off
            return state['pos']

        def write(data):
            if 'a' not in mode and 'w' not in mode:
                I.raise_('OSError', 'not writable')
            files.items[path] = z3.Concat(files.items[path], to_z3(data))   # append mode: always at the end
            I.effects.append(('fs-append', path))
            return z3.Length(to_z3(data))

        def read(n=None):
            content = files.items[path]
            pos = to_z3(state['pos'])
            if n is None:
                return z3.SubString(content, pos, z3.Length(content))
            zn = to_z3(n)
            state['pos'] = pos + zn
            return z3.SubString(content, pos, zn)
        fobj = Obj('File', {}, module='')
        fobj.fields.update({'seek': Builtin('seek', seek), 'write': Builtin('write', write), 'read': Builtin('read', read),
                            'close': Builtin('close', lambda: None),
                            '__enter__': Builtin('__enter__', lambda: fobj),
                            '__exit__': Builtin('__exit__', lambda *a: False)})
        return fobj
    return Builtin('open', open_)


def _mk(h, directory, limit, arch_index, writable=True):
    I = h.I
    files = PDict({'/v/pak01_dir.vpk': h.str('dirfile'), '/v/pak01_000.vpk': h.str('arch0'),
                   '/v/pak01_001.vpk': h.str('arch1'), '/v/single.vpk': h.str('singlefile')})
    footer = h.str('footer')
    if limit == 'n':
        lim = h.int('limit')
        h.assume(lim >= 0)
    else:
        lim = limit
    mode = Obj('OpenModes', {'writable': writable, 'name': 'X'}, module='')
    vpk = Obj('VPK', dict(mode=mode, _dir_prefix='pak01' if directory else None, dir_limit=lim, folder='/v',
                          _filename='pak01_dir.vpk' if directory else 'single.vpk', footer_data=footer, version=1),
              module=M)
    old_len = h.int('old_arch_len')
    old_off = h.int('old_offset')
    h.assume(z3.And(old_len >= 0, old_off >= 0))
    info = Obj('FileInfo', dict(vpk=vpk, dir='d', _filename='f', ext='txt', crc=h.int('old_crc'),
                                arch_index=h.I.fresh('x', z3.IntSort()) if False else None, offset=old_off,
                                arch_len=old_len, start_data=h.str('old_start')), module=M)
    data = h.str('data')
    return files, vpk, info, data


def _lemma(name, directory, limit, arch_index, then):
    lem = REG.add(Lemma(name, PROP, [
        {'call': f'{M}:FileInfo.write', 'args': ['info', 'data', 'arch_index']},
        {'call': f'{M}:FileInfo.{then}', 'args': ['info'], 'result': 'back'},
    ], inline=('get_arch_filename', 'FileInfo.size', 'VPK.file_prefix', 'VPK.filename')))

    def setup(h):
        files, vpk, info, data = _mk(h, directory, limit, arch_index)
        # the new data differs from what the entry holds (write() skips data with an equal checksum)
        h.assume(CRC.decl(data) != info.fields['crc'])
        lem.globals['open'] = _fs_open(h.I, files)
        lem.globals['checksum'] = Builtin('checksum', lambda d, prior=None: _crc(h.I, d, prior))
        return {'locals': dict(info=info, data=data, arch_index=arch_index, vpk=vpk),
                'ghost': dict(footer0=vpk.fields['footer_data'])}
    lem.setup(setup)
    lem.feas_timeout_ms = 400    # string-heavy paths: an undecided feasibility query just keeps the path
    return lem


def _crc(I, d, prior):
    """CRC32 with an optional running value: crc(a ++ b) = crc(b, crc(a)); modelled as crc of the concatenation by
    carrying the consumed prefix along (the running value is only ever produced by this function)."""
    if prior is None:
        return _Running(to_z3(d))
    if isinstance(prior, _Running):
        return _Running(z3.Concat(prior.text, to_z3(d)))
    raise Unsupported('checksum() continued from an unknown running value')


class _Running:
    """A CRC value that remembers which bytes it is the checksum of."""
    def __init__(self, text):
        self.text = text


def _running_eq(I, a, b):
    za = CRC.decl(a.text) if isinstance(a, _Running) else to_z3(a)
    zb = CRC.decl(b.text) if isinstance(b, _Running) else to_z3(b)
    return za == zb


@native
def same_bytes(I, a, b):
    return to_z3(a) == to_z3(b)


@native
def length(I, a):
    return z3.Length(to_z3(a))


@native
def is_true(I, v):
    return v is True or (z3.is_expr(v) and z3.is_true(z3.simplify(v))) or to_z3(v)


CASES = []
for _dir in (True, False):
    for _lim in (None, 0, 'n'):
        for _ai in (None, 0, 1):
            if not _dir and _ai == 1:
                continue
            tag = f"{'dir' if _dir else 'single'}.limit_{_lim}.arch_{_ai}"
            r = _lemma(f'write_then_read.{tag}', _dir, _lim, _ai, 'read')

            @r.ensures
            def reads_back_exactly_what_was_written(back, data):
                return same_bytes(back, data)
            v = _lemma(f'write_then_verify.{tag}', _dir, _lim, _ai, 'verify')

            @v.ensures
            def checksum_verifies(back):
                return is_true(back)

            @v.ensures
            def size_is_length_of_data(info, data):
                return info.arch_len + length(info.start_data) == length(data)

            @v.ensures
            def preload_fits_the_16_bit_length_field(info):
                return length(info.start_data) <= 65535
            CASES += [r, v]


# Running CRC values are compared with `==` in the real code (chk == self.crc, new_checksum == self.crc):
def _install_eq():
    from pyvc import builtins_model as bm
    orig = bm.equal

    def equal(I, a, b, lineno=0):
        if isinstance(a, _Running) or isinstance(b, _Running):
            return _running_eq(I, a, b)
        return orig(I, a, b, lineno)
    bm.equal = equal


_install_eq()

# read-only archives reject writes and change nothing
ro = REG.add(Contract(f'{M}:FileInfo.write', PROP, name='write.read_only_rejected', modular=False))
ro.raises('ValueError')
ro.may_not_return = True


@ro.setup
def _(h):
    files, vpk, info, data = _mk(h, True, 'n', 0, writable=False)
    ro.globals['open'] = _fs_open(h.I, files)
    ro.globals['checksum'] = Builtin('checksum', lambda d, prior=None: _crc(h.I, d, prior))
    return {'args': [info, data, 0], 'ghost': dict(info0=dict(info.fields), files=files, files0=dict(files.items))}


@native
def unchanged(I, info, info0, files, files0):
    return all(info.fields[k] is info0[k] for k in info0) and all(files.items[k] is files0[k] for k in files0)


@ro.ensures
def never_returns_normally():
    return False


@ro.on_raise('ValueError')
def nothing_changed(self, info0, files, files0):
    return unchanged(self, info0, files, files0)


join = REG.add(Contract(f'{M}:_join_file_parts', PROP))


@join.setup
def _(h):
    return {'args': [h.str('path'), h.str('filename'), h.str('ext')]}


@join.ensures
def joins_with_separators_only_where_needed(path, filename, ext, result):
    return result == path + ('/' if len(path) > 0 else '') + filename + ('.' if len(ext) > 0 else '') + ext


PROOFS = CASES + [ro, join]


def proofs_for(tier):
    """The single-file-archive lemmas put a 65535-character slice into every query and take the string solvers
    20-30 s each: the quick tier keeps the directory-archive cases (all limits and indexes) and two single-file
    ones; the thorough tier runs everything."""
    if tier == 'thorough':
        return PROOFS
    keep = [c for c in CASES if '.dir.' in c.name or c.name.endswith('single.limit_None.arch_None')]
    return keep + [ro, join]


# ------------------------------------------------------------------------------------------------ native witnesses
def _decode_dir(path):
    """Independent decoder of a v1 VPK directory file: {name: (crc, preload, arch, offset, length)} + footer."""
    raw = open(path, 'rb').read()
    sig, ver, tree_len = struct.unpack_from('<III', raw, 0)
    pos = 12
    out = {}

    def cstr():
        nonlocal pos
        end = raw.index(b'\0', pos)
        s = raw[pos:end].decode('latin-1')
        pos = end + 1
        return s
    while True:
        ext = cstr()
        if not ext:
            break
        while True:
            folder = cstr()
            if not folder:
                break
            while True:
                name = cstr()
                if not name:
                    break
                crc, plen, arch, off, alen, term = struct.unpack_from('<IHHIIH', raw, pos)
                pos += 18
                pre = raw[pos:pos + plen]
                pos += plen
                full = ('' if folder == ' ' else folder + '/') + ('' if name == ' ' else name) + \
                    ('' if ext == ' ' else '.' + ext)
                out[full] = (crc, pre, arch, off, alen)
    return out, raw[12 + tree_len:], tree_len


def _read_via_decoder(vpath, name):
    entries, footer, _ = _decode_dir(vpath)
    crc, pre, arch, off, alen = entries[name]
    if alen == 0:
        return pre
    if arch == 0x7fff:
        return pre + footer[off:off + alen]
    apath = vpath[:-len('_dir.vpk')] + f'_{arch:03}.vpk'
    with open(apath, 'rb') as f:
        f.seek(off)
        return pre + f.read(alen)


SIZES = [0, 1, 3, 4, 5, 1023, 1024, 1025, 65535, 65536, 70000, 300000]


def _history(spec):
    """spec = (directory?, limit, [ops]) ; ops: ('add', name, size, arch) ('write', name, size, arch) ('del', name)
    ('save',) ('reopen', mode).  Returns None or the first discrepancy."""
    from srctools.vpk import VPK
    directory, limit, ops = spec
    tmp = tempfile.mkdtemp(prefix='c13_')
    try:
        vpath = os.path.join(tmp, 'pak01_dir.vpk' if directory else 'single.vpk')
        vpk = VPK(vpath, mode='w', dir_data_limit=limit)
        model = {}

        def payload(name, size, salt):
            seed = (hash((name, size, salt)) & 0xffff)
            return bytes((seed + i * 7) % 251 for i in range(size))
        salt = 0
        for op in ops:
            salt += 1
            kind = op[0]
            try:
                if kind == 'add':
                    _, name, size, arch = op
                    data = payload(name, size, salt)
                    if name in model:
                        try:
                            vpk.add_file(name, data, arch_index=arch)
                            return f'add_file of existing {name} did not raise'
                        except FileExistsError:
                            continue
                    vpk.add_file(name, data, arch_index=arch)
                    model[name] = data
                elif kind == 'write':
                    _, name, size, arch = op
                    if name not in model:
                        continue
                    data = payload(name, size, salt)
                    vpk[name].write(data, arch)
                    model[name] = data
                elif kind == 'del':
                    if op[1] in model:
                        del vpk[op[1]]
                        del model[op[1]]
                elif kind == 'save':
                    vpk.write_dirfile()
                elif kind == 'reopen':
                    vpk.write_dirfile()
                    vpk = VPK(vpath, mode=op[1], dir_data_limit=limit)
                    if op[1] == 'r':
                        for name in list(model)[:1]:
                            try:
                                vpk[name].write(b'x')
                                return 'read-only archive accepted a write'
                            except ValueError:
                                pass
                        try:
                            vpk.add_file('zz/new.txt', b'1')
                            return 'read-only archive accepted add_file'
                        except ValueError:
                            pass
                        vpk = VPK(vpath, mode='a', dir_data_limit=limit)
            except struct.error as e:
                return f'{op}: struct.error {e} (a value did not fit its field and the directory may be truncated)'
            # in-memory view after every step
            names = {f.filename for f in vpk}
            if names != set(model):
                return f'after {op}: archive lists {sorted(names)}, expected {sorted(model)}'
            for name, data in model.items():
                got = vpk[name].read()
                if got != data:
                    return f'after {op}: {name} reads back {len(got)} bytes (expected {len(data)}; ' \
                           f'first difference at {next((i for i, (a, b) in enumerate(zip(got, data)) if a != b), min(len(got), len(data)))})'
                if not vpk[name].verify():
                    return f'after {op}: checksum verification of {name} fails'
        # final: save, reopen read-only, independent decode
        try:
            vpk.write_dirfile()
        except struct.error as e:
            return f'write_dirfile: struct.error {e}'
        back = VPK(vpath, mode='r')
        if {f.filename for f in back} != set(model):
            return f'reopened archive lists {sorted(f.filename for f in back)}, expected {sorted(model)}'
        for name, data in model.items():
            if back[name].read() != data or not back[name].verify():
                return f'after reopen: {name} does not read back / verify'
            if directory and _read_via_decoder(vpath, name) != data:
                return f'independent decoder reads different bytes for {name}'
        return None
    finally:
        shutil.rmtree(tmp, ignore_errors=True)


def _job_history(spec):
    try:
        return _history(spec)
    except Exception as e:
        return f'{type(e).__name__}: {e}'


NAMES = ['a.txt', 'dir/b.txt', 'dir/sub/c.dat', 'noext', 'dir/noext2', 'x.tar.gz', 'dir/.hidden']


@bounded('C13.B-histories', bound='directory and single-file archives; preload limits None / 0 / 4 / 1024; archive '
         'indexes None / 0 / 1; sizes 0..70000 crossing the limit and 64 KiB; all single add+reopen cases, all '
         'add/overwrite pairs on a size sample, seeded histories of <= 6 operations (add, write, delete, save, reopen '
         'r/w/a)', rule='one case per history; non-trivial when data crosses the preload limit or is overwritten')
def b_histories(ctx):
    jobs = []
    for directory in (True, False):
        for limit in (None, 0, 4, 1024, 65535, 65536, 100000):
            for arch in (None, 0, 1):
                for size in SIZES:
                    jobs.append((directory, limit, (('add', 'dir/b.txt', size, arch),)))
                for s1, s2 in [(5, 3), (3, 5), (2000, 3), (3, 2000), (2000, 0), (70000, 5), (5, 70000), (1025, 1024)]:
                    for arch2 in (None, 0, 1):
                        jobs.append((directory, limit, (('add', 'a.txt', s1, arch), ('write', 'a.txt', s2, arch2),
                                                        ('reopen', 'a'), ('write', 'a.txt', s1, arch))))
    n = 300 if not ctx.thorough else 6000
    for _ in range(n):
        directory = ctx.rng.random() < 0.7
        limit = ctx.rng.choice([None, 0, 4, 1024, 65535, 65536, 1 << 20])
        ops = []
        for _ in range(ctx.rng.randint(2, 6)):
            k = ctx.rng.choice(['add', 'add', 'write', 'write', 'del', 'save', 'reopen'])
            name = ctx.rng.choice(NAMES)
            size = ctx.rng.choice(SIZES[:9])
            arch = ctx.rng.choice([None, 0, 1])
            ops.append({'add': ('add', name, size, arch), 'write': ('write', name, size, arch), 'del': ('del', name),
                        'save': ('save',), 'reopen': ('reopen', ctx.rng.choice(['r', 'a']))}[k])
        jobs.append((directory, limit, tuple(ops)))
    for job, bad in ctx.pmap(_job_history, jobs, batch=256):
        directory, limit, ops = job
        crossing = any(o[0] in ('add', 'write') and limit is not None and o[2] > limit for o in ops)
        ctx.case(job, nontrivial=crossing or any(o[0] == 'write' for o in ops))
        if bad:
            core = minimise(list(ops), lambda c: _job_history((directory, limit, tuple(c))))
            shape = '>'.join(_shape(o, limit) for o in core)
            ctx.violation(f"history={'dir' if directory else 'single'}.limit={limit}:{shape}",
                          f'{_job_history((directory, limit, tuple(core)))} [{"directory" if directory else "single-file"} '
                          f'archive, dir_data_limit={limit}, operations {core}]', [directory, limit, [list(o) for o in core]])


def _shape(op, limit):
    if op[0] in ('add', 'write'):
        size, arch = op[2], op[3]
        rel = 'empty' if size == 0 else ('big' if size > 65535 else ('over' if limit is not None and size > limit else 'small'))
        return f'{op[0]}({rel},arch={arch})'
    return op[0] + (f'({op[1]})' if op[0] == 'reopen' else '')


b_histories.replay = lambda inp: (lambda r: {'failed': bool(r), 'observation': r})(
    _job_history((inp[0], inp[1], tuple(tuple(o) for o in inp[2]))))


def _names_case(folder, name, ext):
    from srctools.vpk import _get_file_parts, _join_file_parts, VPK
    full = _join_file_parts(folder, name, ext)
    forms = [full, (folder, name + ('.' + ext if ext else '')), (folder, name, ext)]
    parts = [_get_file_parts(f) for f in forms]
    if len(set(parts)) != 1:
        return f'forms {forms!r} normalise to {parts!r}'
    if _join_file_parts(*parts[0]) != full:
        return f'_join_file_parts(*_get_file_parts({full!r})) = {_join_file_parts(*parts[0])!r}'
    return None


def _names_archive(names):
    from srctools.vpk import VPK
    tmp = tempfile.mkdtemp(prefix='c13n_')
    try:
        vpk = VPK(os.path.join(tmp, 'n_dir.vpk'), mode='w')
        for i, (folder, name, ext) in enumerate(names):
            vpk.add_file((folder, name, ext), bytes([i]))
        vpk.write_dirfile()
        back = VPK(os.path.join(tmp, 'n_dir.vpk'))
        for i, (folder, name, ext) in enumerate(names):
            full = folder + ('/' if folder else '') + name + ('.' if ext else '') + ext
            for form in (full, (folder, name + ('.' + ext if ext else '')), (folder, name, ext)):
                try:
                    if back[form].read() != bytes([i]):
                        return f'{form!r} resolves to another file'
                except KeyError:
                    return f'{form!r} is not found after reopen (written as {(folder, name, ext)!r})'
                if form not in back:
                    return f'{form!r} not in archive'
        if len(back) != len(names):
            return f'{len(back)} files listed, {len(names)} written'
        return None
    finally:
        shutil.rmtree(tmp, ignore_errors=True)


@bounded('C13.B-names', bound='folder in {"", a, a/b, a/b.c}, name in {f, f.g, f.g.h, .f}, ext in {"", x, tar}: every '
         'combination in string / 2-tuple / 3-tuple form, plus archives holding all of them',
         rule='one case per (folder, name, ext); non-trivial when a part is empty or the name contains a dot')
def b_names(ctx):
    combos = list(itertools.product(['', 'a', 'a/b', 'a/b.c'], ['f', 'f.g', 'f.g.h'], ['', 'x', 'tar']))
    for folder, name, ext in combos:
        if '.' in name and not ext:
            continue   # ('f.g', '') is the same file as ('f', 'g'): not a distinct representable name
        ctx.case((folder, name, ext), nontrivial=not folder or not ext or '.' in name)
        bad = _names_case(folder, name, ext)
        if bad:
            ctx.violation(f'names={folder}|{name}|{ext}', bad, [folder, name, ext])
    good = [c for c in combos if not ('.' in c[1] and not c[2])]
    ctx.case(('archive', len(good)))
    bad = _names_archive(good)
    if bad:
        ctx.violation('names=archive', bad, ['archive'])


b_names.replay = lambda inp: (lambda r: {'failed': bool(r), 'observation': r})(
    _names_case(*inp) if inp[0] != 'archive' else _names_archive(
        [c for c in itertools.product(['', 'a', 'a/b', 'a/b.c'], ['f', 'f.g', 'f.g.h'], ['', 'x', 'tar'])
         if not ('.' in c[1] and not c[2])]))
BOUNDED = [b_histories, b_names]


def _witness(model=None, obligation=None):
    for directory in (True, False):
        for limit in (None, 0, 4):
            for arch in (None, 0):
                for size in (0, 3, 5, 70000):
                    bad = _job_history((directory, limit, (('add', 'a.txt', size, arch),)))
                    if bad:
                        return {'failed': True, 'directory': directory, 'limit': limit, 'arch_index': arch, 'size': size,
                                'observation': bad}
                    for size2 in (0, 3, 2000):
                        for arch2 in (None, 0, 1):
                            ops = (('add', 'a.txt', size, arch), ('write', 'a.txt', size2, arch2))
                            bad = _job_history((directory, limit, ops))
                            if bad:
                                return {'failed': True, 'directory': directory, 'limit': limit, 'operations': ops,
                                        'observation': bad}
    return {'failed': False}


for _c in PROOFS:
    _c.replay_fn = _witness


MUTATIONS = [
    dict(name='write_forgets_offset', file='vpk.py', old="            self.offset = len(self.vpk.footer_data)\n", new="", expect='write_then_read'),
    dict(name='read_wrong_window', file='vpk.py',
         old="                return self.start_data + self.vpk.footer_data[self.offset: self.offset + self.arch_len]",
         new="                return self.start_data + self.vpk.footer_data[self.offset: self.arch_len]", expect='write_then_read'),
    dict(name='join_always_dot', file='vpk.py',
         old="""    return f"{path}{'/' if path else ''}{filename}{'.' if ext else ''}{ext}\"""",
         new="""    return f"{path}{'/' if path else ''}{filename}.{ext}\"""", expect='_join_file_parts'),
    dict(name='preload_cap_removed', file='vpk.py',
         old="        if prefix is None or limit is None or limit > 0xFFFF:\n            limit = 0xFFFF",
         new="        if prefix is None or limit is None:\n            limit = 1 << 40", expect='preload_fits'),
    dict(name='read_only_check_removed', file='vpk.py',
         old="        if not self.vpk.mode.writable:\n            raise ValueError(f\"VPK mode {self.vpk.mode.name} does not allow writing!\")\n        # Split the file",
         new="        # Split the file", expect='read_only'),
]
HARMLESS = [
    dict(name='write_rename', file='vpk.py', old="        arch_data = data[limit:]\n", new="        tail = data[limit:]\n        arch_data = tail\n"),
]
