"""C06 -- VMF export/parse round trip.

Deductive part (AST obligations over the real export/parse code of vmf.py, re-read on every run):
  export.strings_escaped    every interpolation in every `buffer.write(f'...')` of every export method is classified by the
                            declared type of the attribute it prints: str-typed attributes (and anything of unknown
                            type) must go through escape_text; numbers, IDs, Vec/UVAxis objects and indentation need not;
  fixup.*                   the writer's key `replace{id:02}` and the reader's index slice agree for every id >= 0
                            (z3 strings: int -> at-least-two-digit text -> int);
  disp.*                    the displacement writer and reader agree on the shape of every per-vertex / per-quad array
                            (rows x entries, for powers 1-4) and every array is written inside the dispinfo block;
  keys.*                    every editor key the writers emit is a key the matching parser reads (solid, entity, group);
  order.*                   VMF.parse adds entities in one pass over the file.
The format as a whole (floats in text, the object graph) is outside a deductive treatment here: the round-trip laws
themselves are decided by a bounded generator-based tier (contracts/c06_vmf_support.py).
"""
import ast
import random

import z3

from pyvc import extract, smt
from pyvc.driver import bounded
from pyvc.symexec import Unsupported

PROP = 'C06'
LEVEL = 'other'
M = 'vmf'
EXPLANATION = ('AST obligations tie each writer in vmf.py to its reader: all str-typed data is escaped on export (the '
               'parser unescapes: C02), array shapes of displacement data agree for every power, fixup keys and their '
               'index parser agree for every index (discharged by z3 over strings), every editor key written is a key '
               'read, entity order is kept. The round-trip laws over whole maps (text idempotence, equal object graph '
               'within the stated tolerances, options minimal / disp_multiblend / preserve_ids, shipped .vmf files) are '
               'a bounded stand-in over generated maps, not proofs.')
TRUSTED = ['escape_text / tokenizer unescape (C02)', 'type annotations in vmf.py describe the attribute values',
           'format_float / Vec.__str__ print numbers parse_vec_str / float() read back within 5e-7 (C05)']
UNVERIFIED = ['numeric text round trip of every field (bounded)', 'object-graph equality after parse (bounded)',
              'Cython tokenizer twin']
TIMEOUT_MS = {'quick': 30000, 'thorough': 120000}


def _res(name, ok, line=0, note=''):
    r = smt.Result(name, 'proved' if ok else 'refuted', 'ast-scan', 0.0, {}, line, 0, note)
    r.replay_fn = _witness
    return r


def _shape(name, good, bad=False, line=0, note=''):
    """good: the shape the argument needs is present; bad: a shape known to break the property is present; neither:
    the code was restructured - undecided, never a violation."""
    r = smt.shape(name, good, bad, line, note)
    r.replay_fn = _witness
    return r


# ------------------------------------------------------------------------------------------------ escaping
NUMERIC_TYPES = {'int', 'float', 'bool', 'Vec', 'FrozenVec', 'Angle', 'FrozenAngle', 'UVAxis', 'Vec4', 'builtins.int',
                 'builtins.float', 'builtins.bool'}


def _class_field_types(mod):
    """class -> attribute -> annotation text, from class-level annotations, attrs fields and __init__ parameters that
    are stored under the same name."""
    out = {}
    for node in mod.tree.body:
        if not isinstance(node, ast.ClassDef):
            continue
        fields = {}
        for st in node.body:
            if isinstance(st, ast.AnnAssign) and isinstance(st.target, ast.Name):
                fields[st.target.id] = ast.unparse(st.annotation)
            if isinstance(st, ast.FunctionDef) and st.name == '__init__':
                ann = {a.arg: ast.unparse(a.annotation) for a in st.args.args + st.args.kwonlyargs if a.annotation}
                for n in ast.walk(st):
                    if isinstance(n, ast.Assign) and len(n.targets) == 1 and isinstance(n.targets[0], ast.Attribute) \
                            and isinstance(n.targets[0].value, ast.Name) and n.targets[0].value.id == 'self' \
                            and isinstance(n.value, ast.Name) and n.value.id in ann:
                        fields.setdefault(n.targets[0].attr, ann[n.value.id])
                    if isinstance(n, ast.AnnAssign) and isinstance(n.target, ast.Attribute) \
                            and isinstance(n.target.value, ast.Name) and n.target.value.id == 'self':
                        fields.setdefault(n.target.attr, ast.unparse(n.annotation))
        out[node.name] = fields
    return out


_SAFE_ALIASES = {}


def _safe_aliases(mod):
    """Module-level names whose values cannot contain text needing escapes: Literal[...] aliases of numbers, and Enum /
    Flag classes (printed through .value or as numbers)."""
    key = extract.REPO
    if key not in _SAFE_ALIASES:
        names = set()
        for st in mod.tree.body:
            if isinstance(st, (ast.Assign, ast.AnnAssign)):
                tgt = st.targets[0] if isinstance(st, ast.Assign) else st.target
                if isinstance(tgt, ast.Name) and st.value is not None and ast.unparse(st.value).startswith('Literal['):
                    try:
                        vals = ast.literal_eval(st.value.slice)
                        vals = vals if isinstance(vals, tuple) else (vals,)
                        if all(isinstance(v, (int, float)) for v in vals):
                            names.add(tgt.id)
                    except (ValueError, SyntaxError):
                        pass
            if isinstance(st, ast.ClassDef) and any(ast.unparse(b).split('.')[-1] in ('Enum', 'Flag', 'IntEnum', 'IntFlag')
                                                    for b in st.bases):
                names.add(st.name)
        _SAFE_ALIASES[key] = names
    return _SAFE_ALIASES[key]


def _numeric_ann(ann, mod=None):
    ann = ann.replace("'", '').replace('"', '')
    for wrap in ('Optional[', 'Final['):
        if ann.startswith(wrap) and ann.endswith(']'):
            ann = ann[len(wrap):-1]
    return ann in NUMERIC_TYPES or ann.startswith('Literal[') or ann in _safe_aliases(mod or extract.load(M))


def static_escaping(repo):
    mod = extract.load(M)
    types = _class_field_types(mod)
    bad = []
    n_checked = 0
    n_escaped = 0
    for cls in [n for n in mod.tree.body if isinstance(n, ast.ClassDef)]:
        for fn in [n for n in cls.body if isinstance(n, ast.FunctionDef) and (n.name in ('export', 'as_keyvalue')
                                                                                or n.name.startswith('_export'))]:
            # local names bound to numeric things in this function: loop indexes, enumerate counters, ids
            numeric_locals = {'i', 'y', 'x', 'ind', 'indent', 'size', 'title', 'group', 'group_id', 'vis_id', 'point'}
            str_locals = set()
            for n in ast.walk(fn):
                if isinstance(n, ast.For):
                    it = ast.unparse(n.iter)
                    if it.startswith('sorted(self._keys.items()'):
                        for t in ast.walk(n.target):
                            if isinstance(t, ast.Name):
                                str_locals.add(t.id)
            for n in ast.walk(fn):
                if not (isinstance(n, ast.Call) and isinstance(n.func, ast.Attribute) and n.func.attr == 'write'):
                    continue
                for js in [a for a in ast.walk(n) if isinstance(a, ast.JoinedStr)]:
                    for v in js.values:
                        if not isinstance(v, ast.FormattedValue):
                            continue
                        n_checked += 1
                        e = v.value
                        src = ast.unparse(e)
                        if isinstance(e, ast.Call) and ast.unparse(e.func) == 'escape_text':
                            n_escaped += 1
                            continue
                        if v.format_spec is not None and ast.unparse(v.format_spec) not in ("f''",):
                            spec = ''.join(x.value for x in v.format_spec.values if isinstance(x, ast.Constant))
                            if spec and spec[-1] in 'dgfeGFE' or spec.isdigit() or spec in ('02',):
                                continue        # a numeric format spec raises on a str
                        if isinstance(e, ast.Name):
                            if e.id in str_locals:
                                bad.append((cls.name, fn.name, v.lineno if hasattr(v, 'lineno') else n.lineno, src))
                            continue            # other bare locals: indentation / counters (checked by the bounded tier)
                        if isinstance(e, ast.Attribute) and e.attr == 'value' and isinstance(e.value, ast.Attribute) \
                                and isinstance(e.value.value, ast.Name) and e.value.value.id == 'self':
                            ann = types.get(cls.name, {}).get(e.value.attr)
                            if ann is not None and _numeric_ann(ann):
                                # an Enum member's value: the enum classes of vmf.py have identifier / number values
                                continue
                        if isinstance(e, ast.Attribute) and isinstance(e.value, ast.Name) and e.value.id == 'self':
                            ann = types.get(cls.name, {}).get(e.attr)
                            if ann is not None and _numeric_ann(ann):
                                continue
                            bad.append((cls.name, fn.name, n.lineno, f'{src}: {ann}'))
                            continue
                        if isinstance(e, ast.Attribute) and isinstance(e.value, ast.Name):
                            # attribute of a loop variable (fixup.id, fixup.var, vert.x ...): resolve by attribute name
                            owner = {'fixup': 'FixupValue', 'vert': 'DispVertex', 'o': 'Output'}.get(e.value.id)
                            ann = types.get(owner, {}).get(e.attr) if owner else None
                            if ann is not None and _numeric_ann(ann):
                                continue
                            if ann is None and owner is None:
                                continue
                            bad.append((cls.name, fn.name, n.lineno, f'{src}: {ann}'))
                            continue
                        # calls / subscripts / conditionals: numbers or constants by construction (len, format_float,
                        # bool_as_int, "1" if ... else "0", self.planes[0], enum .value)
                        if isinstance(e, (ast.Call, ast.Subscript, ast.IfExp, ast.Constant, ast.BinOp)):
                            f = ast.unparse(e.func) if isinstance(e, ast.Call) else ''
                            if isinstance(e, ast.Call) and f in ('str', 'repr'):
                                bad.append((cls.name, fn.name, n.lineno, src))
                            continue
                        bad.append((cls.name, fn.name, n.lineno, src))
    out = [_res('export.interpolations_found', n_checked >= 60 and n_escaped >= 6, note=f'{n_checked} checked, {n_escaped} escaped'),
           _res('export.strings_escaped', not bad, bad[0][2] if bad else 0, str(bad[:4]))]
    return out


# ------------------------------------------------------------------------------------------------ fixup keys
def static_fixup_keys(repo):
    """Writer: f'replace{fixup.id:02}'; reader: name.startswith('replace') then int(name[K:]).  For every id >= 0 the text
    after the prefix converts back to id (z3: str.from_int / str.to_int with two-digit padding), and K == len('replace')."""
    mod = extract.load(M)
    exp = mod.find('EntityFixup.export')
    par = mod.find('Entity.parse')
    src = ast.unparse(exp)
    out = []
    writer_ok = "replace{fixup.id:02}" in src
    out.append(_shape('fixup.writer_key_is_replace_plus_two_digit_padded_id', writer_ok, False, exp.lineno))
    k = None
    for n in ast.walk(par):
        if isinstance(n, ast.If) and "name.startswith('replace')" in ast.unparse(n.test):
            for st in n.body:
                if isinstance(st, ast.Assign) and ast.unparse(st.targets[0]) == 'ind_str':
                    sl = st.value
                    if isinstance(sl, ast.Subscript) and isinstance(sl.slice, ast.Slice) and sl.slice.upper is None \
                            and sl.slice.lower is not None:
                        try:
                            k = ast.literal_eval(sl.slice.lower)
                        except ValueError:
                            k = None
    out.append(_shape('fixup.reader_takes_everything_after_the_prefix', k == len('replace'), k is not None and k != len('replace'),
                      par.lineno, f'slice start {k!r}'))
    if k is None or not writer_ok:
        return out
    # z3: for all id >= 0: to_int(substr("replace" + pad2(id), k)) == id
    i = z3.Int('id')
    digits = z3.IntToStr(i)
    padded = z3.If(i < 10, z3.Concat(z3.StringVal('0'), digits), digits)
    key = z3.Concat(z3.StringVal('replace'), padded)
    tail = z3.SubString(key, k if k >= 0 else z3.Length(key) + k, z3.Length(key))
    s = z3.Solver()
    s.set('timeout', 20000)
    s.add(i >= 0, z3.StrToInt(tail) != i)
    r = s.check()
    if r == z3.unknown:
        raise Unsupported('fixup index round trip: solver answered unknown')
    note = ''
    if r == z3.sat:
        note = f'id = {s.model()[i]}'
    res = smt.Result('fixup.index_survives_for_every_id', 'proved' if r == z3.unsat else 'refuted', 'z3', 0.0,
                     {'id': str(s.model()[i])} if r == z3.sat else {}, par.lineno, 0, note)
    res.replay_fn = _witness
    out.append(res)
    return out


# ------------------------------------------------------------------------------------------------ displacement arrays
def _const_int(expr, env):
    return eval(compile(ast.Expression(expr), '<c06>', 'eval'), {'__builtins__': {}}, dict(env))      # noqa: S307


def static_disp_shapes(repo):
    """For powers 1-4: rows and entries per row written by _export_displacement / _export_disp_rowset equal what
    _parse_displacement_data / _iter_disp_row require; every array is written before dispinfo is closed."""
    mod = extract.load(M)
    exp = mod.find('Side._export_displacement')
    rowset = mod.find('Side._export_disp_rowset')
    par = mod.find('Side._parse_displacement_data')
    vecrow = mod.find('Side._parse_disp_vecrow')
    out = []
    # --- reader requirements: name -> entries per row (expression in size / tri_tags_count)
    need = {}
    for n in ast.walk(par):
        if isinstance(n, ast.Call) and ast.unparse(n.func) == 'self._iter_disp_row' and len(n.args) == 3:
            need[ast.literal_eval(n.args[1])] = n.args[2]
        if isinstance(n, ast.Call) and ast.unparse(n.func) == 'self._parse_disp_vecrow' and len(n.args) == 3 \
                and isinstance(n.args[1], ast.Constant):
            need[n.args[1].value] = 'VEC'
    vec_width = None
    for n in ast.walk(vecrow):
        if isinstance(n, ast.Call) and ast.unparse(n.func) == 'self._iter_disp_row':
            vec_width = n.args[2]
    # multiblend colour arrays are parsed through the _disprow_multiblend table
    try:
        table = [ast.literal_eval(e.elts[0]) for e in mod.assign_value('_disprow_multiblend').elts]
    except Exception:
        table = [f'multiblend_color_{i}' for i in range(4)]
    for nm in table:
        need[nm] = 'VEC'
    out.append(_shape('disp.reader_arrays_found', {'alphas', 'distances', 'triangle_tags', 'normals', 'offsets',
                                                   'offset_normals', 'multiblend'} <= set(need) and vec_width is not None,
                      False, par.lineno, str(sorted(need))))
    # --- writer: rowset arrays (name, member) and the two hand-written loops
    member_width = {'normal': 3, 'offset': 3, 'offset_norm': 3, 'distance': 1, 'alpha': 1, 'multi_blend': 4, 'multi_alpha': 4}
    written = {}
    for n in ast.walk(exp):
        if isinstance(n, ast.Call) and ast.unparse(n.func) == 'self._export_disp_rowset':
            written[ast.literal_eval(n.args[0])] = ('rowset', ast.literal_eval(n.args[1]))
    # rowset writes `size` rows of `size` vertices
    rs = ast.unparse(rowset)
    rowset_ok = 'for y in range(size)' in rs and 'rows[size * y:size * (y + 1)]' in rs
    out.append(_shape('disp.rowset_writes_size_rows_of_size_vertices', rowset_ok, False, rowset.lineno))
    problems = []
    for power in (1, 2, 3, 4):
        size = 2 ** power + 1
        env = {'size': size, 'tri_tags_count': 2 ** power, 'disp_power': power}
        for name, (kind, member) in written.items():
            if name not in need:
                problems.append(f'{name}: written but never read')
                continue
            want = need[name]
            want_n = _const_int(vec_width, env) if want == 'VEC' else _const_int(want, env)
            got_n = size * member_width.get(member, 0)
            if want_n != got_n:
                problems.append(f'power {power}: {name} rows have {got_n} entries, reader wants {want_n}')
    out.append(_res('disp.rowset_arrays_have_the_width_the_reader_requires', not problems and len(written) >= 7, exp.lineno,
                    str(problems[:3])))
    # triangle tags: writer loop
    tt = None
    for n in ast.walk(exp):
        if isinstance(n, ast.For) and 'triangle_a' in ast.unparse(n):
            tt = n
    tt_problems = []
    if tt is None:
        tt_problems.append('triangle tag loop not found')
    else:
        sl = None
        for n in ast.walk(tt):
            if isinstance(n, ast.Subscript) and ast.unparse(n.value) == 'self._disp_verts' and isinstance(n.slice, ast.Slice):
                sl = n.slice
        for power in (1, 2, 3, 4):
            size = 2 ** power + 1
            rows = len(list(_const_int(tt.iter, {'size': size, 'range': range})))
            y = 0
            width = _const_int(sl.upper, {'size': size, 'y': y}) - _const_int(sl.lower, {'size': size, 'y': y}) if sl else -1
            want_rows = 2 ** power
            want_entries = _const_int(need['triangle_tags'], {'tri_tags_count': 2 ** power, 'size': size})
            if rows != want_rows or 2 * width != want_entries:
                tt_problems.append(f'power {power}: {rows} rows x {2 * width} entries written, reader wants {want_rows} x {want_entries}')
    out.append(_res('disp.triangle_tags_are_written_per_quad', not tt_problems, tt.lineno if tt else exp.lineno, str(tt_problems[:2])))
    # multiblend colours: 3 numbers per vertex also for the default
    src = ast.unparse(exp)
    out.append(_shape('disp.default_multiblend_colour_has_three_components', "else '1 1 1'" in src, "else '1')" in src or "else '1' " in src
                      or "is not None else '1'\n" in src, exp.lineno))
    # everything inside dispinfo: the statement that closes dispinfo is the last write of the function
    writes = [n for n in ast.walk(exp) if isinstance(n, ast.Call) and isinstance(n.func, ast.Attribute) and n.func.attr == 'write']
    last_top = exp.body[-1]
    closes_last = isinstance(last_top, ast.Expr) and 'write' in ast.unparse(last_top) and "\\t}}\\n" in ast.unparse(last_top) \
        and '\\t\\t' not in ast.unparse(last_top)
    early = [w.lineno for w in writes if "}}\\n{ind}\\t}}" in ast.unparse(w)]
    out.append(_res('disp.every_array_is_written_inside_dispinfo', closes_last and not early, exp.lineno,
                    f'dispinfo closed early at {early}' if early else ''))
    return out


# ------------------------------------------------------------------------------------------------ editor keys, order
def _written_keys(fn):
    keys = set()
    for n in ast.walk(fn):
        if isinstance(n, ast.Constant) and isinstance(n.value, str):
            for part in n.value.split('"'):
                pass
    import re
    for m in re.finditer(r'\\t"([a-z_]+)" "', ast.unparse(fn)):
        keys.add(m.group(1))
    return keys


def static_editor_keys(repo):
    import re
    mod = extract.load(M)
    out = []
    pairs = [('Solid.export', 'Solid.parse', {'id'}), ('Entity.export', 'Entity.parse', {'id'}),
             ('EntityGroup.export', 'EntityGroup.parse', set())]
    for wname, rname, skip in pairs:
        w, r = mod.find(wname), mod.find(rname)
        wkeys = _written_keys(w) - skip
        rsrc = ast.unparse(r)
        read = set(re.findall(r"'([a-z_]+)'", rsrc)) | set(re.findall(r'"([a-z_]+)"', rsrc))
        missing = sorted(k for k in wkeys if k not in read)
        out.append(_res(f'keys.{wname.split(".")[0].lower()}_editor_keys_written_are_read', not missing and len(wkeys) >= 3,
                        r.lineno, f'written but not read: {missing}'))
    # include_groups: world brushes carry group/visgroup ids
    ent = ast.unparse(mod.find('Entity.export'))
    out.append(_shape('keys.world_brushes_keep_their_group_ids', 'include_groups=_is_worldspawn' in ent,
                      'include_groups=not _is_worldspawn' in ent))
    # set-valued ids are written sorted
    for cname in ('Solid.export', 'Entity.export'):
        fn = mod.find(cname)
        unsorted_ = [n.lineno for n in ast.walk(fn) if isinstance(n, ast.For)
                     and ast.unparse(n.iter) in ('self.visgroup_ids', 'self.groups')]
        out.append(_res(f'order.{cname.split(".")[0].lower()}_id_sets_are_written_sorted', not unsorted_,
                        unsorted_[0] if unsorted_ else fn.lineno))
    par = mod.find('VMF.parse')
    src = ast.unparse(par)
    two_pass = "tree.find_all('Entity')" in src and "tree.find_all('hidden')" in src
    out.append(_res('order.entities_are_read_in_file_order', not two_pass, par.lineno))
    return out


STATIC = [static_escaping, static_fixup_keys, static_disp_shapes, static_editor_keys]

# `any(vert.multi_blend for vert in ...)` decides whether multiblend data is written at all: Vec4 truthiness must mean
# "some component is non-zero", for every value of the four components.
from pyvc.symexec import Obj                     # noqa: E402
from pyvc.vc import Contract, Registry, native    # noqa: E402
REG = Registry()
VEC4 = REG.add(Contract('vmf:Vec4.__bool__', PROP, name='multiblend.vec4_truth', modular=False))


@VEC4.setup
def _vec4(h):
    v = Obj('Vec4', {k: h.real('c_' + k) for k in 'xyzw'}, module='vmf')
    return {'args': [v], 'ghost': dict(V=v)}


@native
def some_component_nonzero(I, v):
    import z3 as _z3
    return _z3.Or(*[v.fields[k] != 0 for k in 'xyzw'])


@VEC4.ensures
def true_exactly_when_some_component_is_nonzero(result, V):
    return result == some_component_nonzero(V)


PROOFS = [VEC4]


# ------------------------------------------------------------------------------------------------ bounded
def _job_map(job):
    seed, combo = job
    from contracts import c06_vmf_support as S
    rng = random.Random(seed)
    try:
        vmf = S.gen_map(rng)
    except Exception as e:
        return ('harness', f'gen_map: {type(e).__name__}: {e}')
    bad = []
    combos = S.OPTION_COMBOS if combo is None else [S.OPTION_COMBOS[combo]]
    picks = [combos[seed % len(combos)], combos[(seed // 7 + 3) % len(combos)]] if combo is None else combos
    for opts in picks:
        try:
            d = S.check_roundtrip(vmf, *opts) if isinstance(opts, (tuple, list)) else S.check_roundtrip(vmf, **opts)
        except Exception as e:
            d = f'{type(e).__name__}: {str(e)[:120]}'
        if d:
            bad.append((str(opts), d))
    return ('ok', 1) if not bad else ('bad', bad)


def _job_targeted(idx):
    from contracts import c06_vmf_support as S
    name, make = S.TARGETED[idx]
    bad = []
    for opts in S.OPTION_COMBOS:
        try:
            vmf = make()
            d = S.check_roundtrip(vmf, *opts) if isinstance(opts, (tuple, list)) else S.check_roundtrip(vmf, **opts)
        except Exception as e:
            d = f'{type(e).__name__}: {str(e)[:120]}'
        if d:
            bad.append((str(opts), d))
            break
    return ('ok', name) if not bad else ('bad', name, bad)


def _job_sample(path):
    from contracts import c06_vmf_support as S
    bad = []
    for opts in S.OPTION_COMBOS:
        try:
            vmf = S.load_sample(path)
            d = S.check_roundtrip(vmf, *opts) if isinstance(opts, (tuple, list)) else S.check_roundtrip(vmf, **opts)
        except Exception as e:
            d = f'{type(e).__name__}: {str(e)[:120]}'
        if d:
            bad.append((str(opts), d))
            break
    return ('ok', path) if not bad else ('bad', path, bad)


def _sig(text):
    return ''.join(ch for ch in text if ch.isalpha() or ch in ' ._')[:40]


@bounded('C06.B-roundtrip', bound='the targeted maps and every .vmf under tests/ x all 8 combinations of minimal / '
         'disp_multiblend / preserve_ids; generated maps (<= 4 entities, <= 3 world brushes, displacements of power 1-4, '
         'groups, nested visgroups, cameras, cordons, Strata viewports, fixups up to index 400, strings with quotes, '
         'backslashes, newlines, tabs, braces and non-ASCII) x 2 option combinations each; quick 1500 maps, thorough 40000',
         rule='a map counts once')
def b_roundtrip(ctx):
    from contracts import c06_vmf_support as S
    for idx, res in ctx.pmap(_job_targeted, list(range(len(S.TARGETED))), job_timeout=20.0):
        ctx.case(S.TARGETED[idx][0])
        if isinstance(res, str) or res[0] != 'ok':
            what = res if isinstance(res, str) else f'{res[2][0][0]}: {res[2][0][1]}'
            ctx.violation(f'targeted={S.TARGETED[idx][0]}', what, [idx])
    for path, res in ctx.pmap(_job_sample, S.sample_files(), job_timeout=60.0):
        ctx.case(path)
        if isinstance(res, str) or res[0] != 'ok':
            what = res if isinstance(res, str) else f'{res[2][0][0]}: {res[2][0][1]}'
            ctx.violation(f'sample={path.split("/")[-1]}', what, [path])
    n = 40000 if ctx.thorough else 1500
    seen = set()
    for job, res in ctx.pmap(_job_map, [(ctx.seed * 15485863 + i, None) for i in range(n)], batch=256, job_timeout=20.0):
        ctx.case(job)
        if isinstance(res, str) or res[0] != 'ok':
            what = res if isinstance(res, str) else f'{res[1][0][0]}: {res[1][0][1]}'
            sig = _sig(what.split(': ', 1)[-1])
            if sig in seen:
                continue
            seen.add(sig)
            ctx.violation(f'map.seed={job[0]}', what, list(job))


def _replay(inp):
    if isinstance(inp[0], str):
        res = _job_sample(inp[0])
    elif len(inp) == 1:
        res = _job_targeted(inp[0])
    else:
        res = _job_map(tuple(inp))
    return {'failed': isinstance(res, str) or res[0] != 'ok', 'observation': res}


b_roundtrip.replay = _replay
BOUNDED = [b_roundtrip]
_WITNESS = []


def _witness(model=None, obligation=None):
    from pyvc.driver import _call_with_timeout
    if _WITNESS:
        return _WITNESS[0]
    out = {'failed': False}
    try:
        from contracts import c06_vmf_support as S
        for idx in range(len(S.TARGETED)):
            res = _call_with_timeout((_job_targeted, idx, 20.0))
            if isinstance(res, str) or res[0] != 'ok':
                out = {'failed': True, 'scenario': S.TARGETED[idx][0], 'observation': res if isinstance(res, str) else res[2][:1]}
                break
    except Exception as e:
        out = {'failed': False, 'error': f'{type(e).__name__}: {e}'}
    _WITNESS.append(out)
    return out


# ------------------------------------------------------------------------------------------------ self-test catalogue
MUTATIONS = [
    dict(name='material_unescaped', file='vmf.py', old="""            f'{ind}\\t"material" "{escape_text(self.mat)}"\\n'""",
         new="""            f'{ind}\\t"material" "{self.mat}"\\n'""", expect='export.strings_escaped'),
    dict(name='entity_key_unescaped', file='vmf.py', old="""            buffer.write(f'{ind}\\t"{escape_text(key)}" "{escape_text(value)}"\\n')""",
         new="""            buffer.write(f'{ind}\\t"{key}" "{escape_text(value)}"\\n')""", expect='export.strings_escaped'),
    dict(name='comments_unescaped', file='vmf.py', old="""            buffer.write(f'{ind}\\t\\t"comments" "{escape_text(self.comments)}"\\n')""",
         new="""            buffer.write(f'{ind}\\t\\t"comments" "{self.comments}"\\n')""", expect='export.strings_escaped'),
    dict(name='fixup_index_last_two_digits', file='vmf.py', old="                ind_str = name[7:]", new="                ind_str = name[-2:]",
         expect='fixup.reader_takes_everything_after_the_prefix'),
    dict(name='fixup_index_slice_off_by_one', file='vmf.py', old="                ind_str = name[7:]", new="                ind_str = name[8:]",
         expect='fixup.reader_takes_everything_after_the_prefix'),
    dict(name='triangle_tags_per_vertex', file='vmf.py',
         old="        for y in range(size - 1):\n            row = [\n                f'{vert.triangle_a.value} {vert.triangle_b.value}'\n                for vert in self._disp_verts[size * y:size * (y+1) - 1]",
         new="        for y in range(size):\n            row = [\n                f'{vert.triangle_a.value} {vert.triangle_b.value}'\n                for vert in self._disp_verts[size * y:size * (y+1)]",
         expect='disp.triangle_tags_are_written_per_quad'),
    dict(name='multiblend_after_dispinfo', file='vmf.py',
         old="""        buffer.write(f'{ind}\\t\\t}}\\n')\n\n        if disp_multiblend and any(vert.multi_blend for vert in self._disp_verts):""",
         new="""        buffer.write(f'{ind}\\t\\t}}\\n{ind}\\t}}\\n')\n\n        if disp_multiblend and any(vert.multi_blend for vert in self._disp_verts):""",
         expect='disp.every_array_is_written_inside_dispinfo'),
    dict(name='multiblend_default_colour_scalar', file='vmf.py', old="is not None else '1 1 1'", new="is not None else '1'",
         expect='disp.default_multiblend_colour_has_three_components'),
    dict(name='group_key_only_old_spelling', file='vmf.py', old="            elif v.name in ('groupid', 'group'):", new="            elif v.name == 'group':",
         expect='keys.solid_editor_keys_written_are_read'),
    dict(name='autoshown_key_typo', file='vmf.py', old="            editor_block.bool('visgroupautoshown', True),",
         new="            editor_block.bool('visgroupsautoshown', True),", expect='keys.entitygroup_editor_keys_written_are_read'),
    dict(name='world_groups_inverted', file='vmf.py', old="                    include_groups=_is_worldspawn,", new="                    include_groups=not _is_worldspawn,",
         expect='keys.world_brushes_keep_their_group_ids'),
    dict(name='visgroup_ids_unsorted', file='vmf.py', old="            for group in sorted(self.visgroup_ids):", new="            for group in self.visgroup_ids:",
         expect='order.solid_id_sets_are_written_sorted'),
    dict(name='uvaxis_scale_lost', file='vmf.py', old="            scale=float(vals[4]),", new="            scale=abs(float(vals[4])),",
         expect='VIOLATION'),
]
HARMLESS = [
    dict(name='material_escaped_via_local', file='vmf.py', old="""        buffer.write(f'{ind}side\\n')\n        buffer.write(f'{ind}{{\\n')""",
         new="""        buffer.write(f'{ind}side\\n')\n        buffer.write(ind + '{\\n')"""),
]


for _c in PROOFS:
    _c.replay_fn = _witness
