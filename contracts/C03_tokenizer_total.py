"""C03 -- tokenizing is total and independent of how the input is chunked.

Proof tier:
  P-refine   Tokenizer._next_char against the *remaining stream* rem = cur[idx+1:] ++ concat(unread chunks): it returns
             the first character of rem (None iff rem is empty) and leaves rem[1:] -- so everything observable is a
             function of the concatenated text, however it is cut (empty chunks included).
  P-frame    nothing but _next_char and the one-step rewind idiom touches the chunk state (AST scan), and every rewind
             directly follows a read in the same iteration.
  P-total    _handle_string, _handle_comment and every loop iteration of _get_token raise nothing but
             self.error(...) (TokenSyntaxError), for all 2^7 option combinations (symbolic booleans).
  P-linear   every iteration that stays in a loop advances the read position by at least one.
Bounded tier: cut-vs-uncut differential test over strings x option sets x cuts, Keyvalues.parse error types.
"""
import ast
import itertools

import z3

from pyvc import extract, smt
from pyvc.driver import bounded
from pyvc.symexec import ExcVal, Obj, PList, SIter, to_z3
from pyvc.vc import Contract, Lemma, Registry, native

REG = Registry()
PROP = 'C03'
LEVEL = 'proof'
M = 'tokenizer'
EXPLANATION = ('_next_char proved to refine "pop the first character of the remaining text" for any sequence of chunks '
               '(loop invariant over the chunk iterator, uninterpreted concatenation with its two defining axioms); the '
               'chunk state is private to it and to the rewind idiom (AST scan), each rewind follows a read; each loop '
               'body of _get_token/_handle_comment/_handle_string is executed symbolically for arbitrary characters and '
               'all option combinations: only self.error() escapes, and an iteration that continues advances the '
               'position. Keyvalues.parse totality and the literal cut/uncut comparison are bounded stand-ins.')
TRUSTED = ['concatenation of the unread chunks as an uninterpreted function with axioms FLAT(p) = chunk[p] ++ FLAT(p+1), '
           'FLAT(len) = ""', 'BaseTokenizer.error returns an instance of the configured TokenSyntaxError subclass '
           '(summary; its message formatting is exercised by the bounded tier)', 'Enum members represented by values']
UNVERIFIED = ['_tokenizer.pyx', 'IterTokenizer sources supplied by callers', 'Keyvalues.parse (bounded only)']

FLAT = z3.Function('FLAT', z3.IntSort(), z3.StringSort())


# ------------------------------------------------------------------------------------------------ P-refine
refine = REG.add(Contract(f'{M}:Tokenizer._next_char', PROP, name='Tokenizer._next_char.refines_text', modular=False))
refine.raises('ValueError')     # documented: non-str chunks (not reachable with str chunks; see harness)


@refine.setup
def _(h):
    cur = h.str('cur')
    idx = h.int('idx')
    chunks = z3.Array('chunks', z3.IntSort(), z3.StringSort())     # the unread chunks as (array, count)
    nchunks = h.int('nchunks')
    pos = h.int('pos')
    h.assume(z3.And(idx >= -1, pos >= 0, pos <= nchunks))
    p = z3.Int('ax!p')
    h.assume(z3.ForAll([p], z3.Implies(z3.And(p >= 0, p < nchunks), FLAT(p) == z3.Concat(chunks[p], FLAT(p + 1)))))
    h.assume(FLAT(nchunks) == z3.StringVal(''))
    it = SIter(chunks, pos, nchunks)
    tok = Obj('Tokenizer', dict(_cur_chunk=cur, _char_index=idx, _chunk_iter=it), module=M)
    rem0 = z3.Concat(z3.SubString(cur, idx + 1, z3.Length(cur)), FLAT(pos))
    return {'args': [tok], 'ghost': dict(rem0=rem0, it=it)}


@native
def rem(I, self, it):
    cur, idx = self.fields['_cur_chunk'], to_z3(self.fields['_char_index'])
    cur = to_z3(cur)
    return z3.Concat(z3.SubString(cur, idx + 1, z3.Length(cur)), FLAT(to_z3(it.pos)))


@native
def is_none(I, v):
    return v is None


@native
def head(I, s):
    return z3.SubString(s, 0, 1)


@native
def tail(I, s):
    return z3.SubString(s, 1, z3.Length(s))


@refine.ensures
def none_iff_stream_empty(result, rem0):
    return iff(is_none(result), rem0 == '')


@refine.ensures
def returns_first_char_and_leaves_the_rest(self, it, result, rem0):
    # stated as a recomposition (one character + what remains == what remained), which string solvers decide at once
    return implies(not is_none(result), len(result) == 1 and rem0 == result + rem(self, it))


@refine.ensures
def stays_empty_at_eof(self, it, result):
    return implies(is_none(result), rem(self, it) == '')


@refine.ensures
def index_allows_one_rewind(self):
    # the rewind idiom `self._char_index -= 1` needs an index >= 0 (at -2 Python would read from the chunk's end)
    return self._char_index >= 0


@refine.invariant(0)
def skipped_chunks_were_empty(self, it, rem0):
    return rem(self, it) == rem0 and self._char_index >= 0 and rem0 == flat_at(it)


@native
def flat_at(I, it):
    return FLAT(to_z3(it.pos))


# ------------------------------------------------------------------------------------------------ P-frame (AST)
def _res(name, ok, line=0, note=''):
    return smt.Result(name, 'proved' if ok else 'refuted', 'ast-effects', 0.0, {}, line, 0, note)


CHUNK_STATE = ('_cur_chunk', '_chunk_iter', '_char_index')


def static_frame(repo):
    mod = extract.load(M)
    cls = mod.classdef('Tokenizer')
    out = []
    rewinds = 0
    for fn in [n for n in cls.body if isinstance(n, ast.FunctionDef)]:
        if fn.name in ('_next_char', '__init__'):
            continue
        parents = {}
        for node in ast.walk(fn):
            for ch in ast.iter_child_nodes(node):
                parents[ch] = node
        for node in ast.walk(fn):
            if isinstance(node, ast.Attribute) and node.attr in CHUNK_STATE:
                par = parents.get(node)
                ok = (node.attr == '_char_index' and isinstance(par, ast.AugAssign) and par.target is node
                      and isinstance(par.op, ast.Sub) and isinstance(par.value, ast.Constant) and par.value.value == 1)
                out.append(_res(f'frame.{fn.name}.chunk_state_only_via_rewind@{node.lineno}', ok, node.lineno,
                                ast.unparse(par)[:80] if par is not None else ''))
                if ok:
                    rewinds += 1
                    out.append(_res(f'frame.{fn.name}.rewind_follows_read@{node.lineno}',
                                    _read_precedes(fn, par, parents), node.lineno))
    for other in [n for n in mod.tree.body if isinstance(n, ast.ClassDef) and n.name != 'Tokenizer']:
        for node in ast.walk(other):
            if isinstance(node, ast.Attribute) and node.attr in CHUNK_STATE:
                out.append(_res(f'frame.{other.name}.touches_chunk_state', False, node.lineno))
    out.append(_res('frame.rewind_sites_found', rewinds >= 4, 0, f'{rewinds} rewind sites'))
    return out


def _read_precedes(fn, rewind_stmt, parents):
    """A `self._next_char()` call occurs earlier in the innermost enclosing loop body (or function body) and no other
    rewind lies between that read and this rewind."""
    node = rewind_stmt
    while node in parents and not isinstance(parents[node], (ast.While, ast.For, ast.FunctionDef)):
        node = parents[node]
    scope = parents.get(node, fn)
    last_event = None
    for n in sorted((x for x in ast.walk(scope) if hasattr(x, 'lineno')), key=lambda x: (x.lineno, x.col_offset)):
        if n is rewind_stmt:
            break
        if isinstance(n, ast.Call) and isinstance(n.func, ast.Attribute) and n.func.attr == '_next_char':
            last_event = 'read'
        elif isinstance(n, ast.AugAssign) and isinstance(n.target, ast.Attribute) and n.target.attr == '_char_index':
            last_event = 'rewind'
    return last_event == 'read'


STATIC = [static_frame]

# ------------------------------------------------------------------------------------------------ abstract reader
next_char = REG.add(Contract(f'{M}:Tokenizer._next_char', PROP, name='Tokenizer._next_char(contract)'))


@next_char.result
def _(h, vals):
    # abstract view proved by P-refine: the position advances by one; a character comes back while text remains
    I = h.I
    self = vals['self']
    pos = self.fields['_char_index'] + 1
    self.fields['_char_index'] = pos
    text = self.fields['_gtext']
    if I.path.branch(pos < z3.Length(text), 'next_char.has_more'):
        return z3.SubString(text, pos, 1)
    return None


err = REG.add(Contract(f'{M}:BaseTokenizer.error', PROP, name='BaseTokenizer.error(summary)'))


@err.result
def _(h, vals):
    return ExcVal('TokenSyntaxError', ())


def _tok(h):
    text = h.str('text')
    p0 = h.int('p0')
    h.assume(p0 >= -1)
    return Obj('Tokenizer', dict(allow_escapes=h.bool('allow_escapes'), line_num=h.int('line0'), _char_index=p0,
                                 _gtext=text, filename=None, string_bracket=h.bool('string_bracket'),
                                 string_parens=h.bool('string_parens'), allow_star_comments=h.bool('star'),
                                 colon_operator=h.bool('colon'), plus_operator=h.bool('plus'),
                                 preserve_comments=h.bool('keep_comments'), _last_was_cr=h.bool('last_cr')),
               module=M), p0


# whole functions: only self.error() may escape, and the position has advanced on return
hs = REG.add(Contract(f'{M}:Tokenizer._handle_string', PROP, name='Tokenizer._handle_string.total'))
hs.raises('TokenSyntaxError')


@hs.setup
def _(h):
    tok, p0 = _tok(h)
    return {'args': [tok], 'ghost': dict(p0=p0)}


@hs.ensures
def string_token_and_progress(self, result, p0):
    return result[0] == 1 and self._char_index >= p0 + 1


@hs.invariant(0)
def position_only_advances(self, p0):
    return self._char_index >= p0


@hs.result
def _(h, vals):
    return (1, h.fresh('strval', z3.StringSort()))


@hs.modifies
def _(a):
    return [(a['self'], '_char_index'), (a['self'], 'line_num')]


@hs.ensures
def position_advanced(self):
    return self._char_index >= old(self._char_index) + 1


hc = REG.add(Contract(f'{M}:Tokenizer._handle_comment', PROP, name='Tokenizer._handle_comment.total'))
hc.raises('TokenSyntaxError')


@hc.setup
def _(h):
    tok, p0 = _tok(h)
    return {'args': [tok], 'ghost': dict(p0=p0)}


@hc.ensures
def comment_token_or_none_and_progress(self, result, p0):
    return (is_none(result) or result[0] == 5) and self._char_index >= p0


@hc.invariant(0)
def star_comment_position(self, p0):
    return self._char_index >= p0 + 1


@hc.invariant(1)
def line_comment_position(self, p0):
    return self._char_index >= p0 + 1


@hc.result
def _(h, vals):
    I = h.I
    if I.path.branch(h.fresh('comment_kept', z3.BoolSort()), 'comment.kept'):
        return (5, h.fresh('comment', z3.StringSort()))
    return None


@hc.modifies
def _(a):
    return [(a['self'], '_char_index'), (a['self'], 'line_num')]


@hc.ensures
def net_position_not_behind(self):
    # reads at least the character after the slash and rewinds at most once
    return self._char_index >= old(self._char_index)


# _get_token: one arbitrary iteration of the main loop (inner scanning loops by invariant)
gt = REG.add(Lemma('Tokenizer._get_token.iteration', PROP, [{'body': f'{M}:Tokenizer._get_token', 'loop': 0}],
                   inline=()))
gt.raises('TokenSyntaxError')


@gt.setup
def _(h):
    tok, p0 = _tok(h)
    return {'locals': dict(self=tok), 'ghost': dict(p0=p0)}


for _ord in (1, 2, 3, 4):
    def _inv(self, p0):
        return self._char_index >= p0 + 1
    _inv.__name__ = f'scan_loop_{_ord}_position'
    gt.invariant(_ord)(_inv)


@gt.ensures
def iteration_that_continues_advances(self, p0, exit_kind):
    return implies(exit_kind != 'return', self._char_index >= p0 + 1)


@gt.ensures
def returned_token_is_a_pair(exit_kind, result, self, p0):
    return implies(exit_kind == 'return', self._char_index >= p0)


PROOFS = [refine, hs, hc, gt]


# ------------------------------------------------------------------------------------------------ bounded tier
ALPHA = ['"', '\\', '/', '*', '\r', '\n', '[', ']', '(', ')', '{', ':', '+', '#', 'a', ' ', "'", '﻿', 'n']
OPTS = ['string_bracket', 'string_parens', 'allow_escapes', 'allow_star_comments', 'preserve_comments',
        'colon_operator', 'plus_operator']


def _run(chunks, opts):
    """Token stream with line numbers, or the error, of the real Tokenizer on the given chunks."""
    from srctools.tokenizer import Tokenizer, Token, TokenSyntaxError
    if not isinstance(chunks, str):
        chunks = list(chunks)
        budget = 4 * sum(len(c) for c in chunks) + 8
        tok = Tokenizer(iter(chunks), **opts)      # a one-shot iterator, like a file object
    else:
        budget = 4 * len(chunks) + 8
        tok = Tokenizer(chunks, **opts)
    out = []
    try:
        for _ in range(budget):
            t, v = tok()
            out.append((t.name, v, tok.line_num))
            if t is Token.EOF:
                # stays at EOF
                for _ in range(3):
                    t2, v2 = tok()
                    if t2 is not Token.EOF:
                        return out, f'token {t2} after EOF'
                return out, None
        return out, 'no EOF within 4*len+8 tokens (not linear)'
    except TokenSyntaxError as e:
        return out, ('TokenSyntaxError', e.mess, e.line_num)
    except Exception as e:      # anything else violates totality
        return out, ('UNEXPECTED', type(e).__name__, str(e))


def _cuts(s):
    n = len(s)
    if n == 0:
        return [[''], [], ['', '']]
    res = []
    for mask in range(1 << (n - 1)):
        parts, cur = [], s[0]
        for i in range(1, n):
            if mask >> (i - 1) & 1:
                parts.append(cur)
                cur = s[i]
            else:
                cur += s[i]
        parts.append(cur)
        res.append(parts)
    res.append([''] + list(s) + [''])        # single characters with empty chunks around
    res.append([x for c in s for x in (c, '')])
    return res


def _job_cut(job):
    s, optmask = job
    opts = {name: bool(optmask >> i & 1) for i, name in enumerate(OPTS)}
    ref = _run(s, opts)
    if isinstance(ref[1], tuple) and ref[1][0] == 'UNEXPECTED':
        return f'tokenizing raised {ref[1][1]}: {ref[1][2]} (only TokenSyntaxError is allowed)'
    if isinstance(ref[1], str):
        return ref[1]
    for parts in _cuts(s):
        got = _run(iter(parts), opts)
        if got != ref:
            return f'chunks {parts!r} give {got!r}, the whole string gives {ref!r}'
    lines = _run(iter(s.splitlines(keepends=True)), opts)
    if lines != ref:
        return f'line-wise input gives {lines!r}, the whole string gives {ref!r}'
    return None


@bounded('C03.B-cuts', bound='all strings of length <= 3 (thorough: <= 4) over a 19-character syntax alphabet; all 128 '
         'option sets for length <= 2, 24 fixed option sets beyond; every cut into chunks + empty-chunk variants + '
         'line-wise delivery; seeded longer strings', rule='one case per (string, option set); non-trivial when the '
         'string has at least two characters (there is something to cut)')
def b_cuts(ctx):
    maxlen = 4 if ctx.thorough else 3
    fixed = [0, 127, 1, 2, 4, 8, 16, 32, 64, 5, 12, 24, 28, 96, 100, 3, 7, 15, 31, 63, 85, 42, 119, 110]
    jobs = []
    for n in range(0, maxlen + 1):
        masks = range(128) if n <= 2 else fixed
        for t in itertools.product(ALPHA, repeat=n):
            s = ''.join(t)
            for m in masks:
                jobs.append((s, m))
    for _ in range(2000 if not ctx.thorough else 20000):
        n = ctx.rng.randint(5, 12)
        jobs.append((''.join(ctx.rng.choice(ALPHA) for _ in range(n)), ctx.rng.randrange(128)))
    for job, bad in ctx.pmap(_job_cut, jobs, batch=4096):
        ctx.case(job, nontrivial=len(job[0]) >= 2)
        if bad:
            ctx.violation(f'cut={job[0]!r}.opts={job[1]}', bad, [job[0], job[1]])


b_cuts.replay = lambda inp: (lambda r: {'failed': bool(r), 'observation': r})(_job_cut((inp[0], inp[1])))

PIECES = ['"a"', '"b"', '{', '}', '[x]', '[!x]', '\n', '"c" "d"', 'bare', '//c\n']


def _job_parse(pieces):
    from srctools.keyvalues import Keyvalues, KeyValError
    text = ' '.join(pieces)
    for src in (text, iter(text.splitlines(keepends=True))):
        try:
            Keyvalues.parse(src)
        except KeyValError:
            pass
        except Exception as e:
            return f'Keyvalues.parse raised {type(e).__name__}: {e}'
    return None


LINES = ['"a"', '"a" [x]', '"a" [!x]', '"c" "d"', '"c" "d" [x]', '"c" "d" [!x]', '{', '}', '"a" {', '} "b"', 'bare',
         '"c" "d" "e"', '// x', '"a" "b" {', '"a" [x] {', '']


def _job_lines(lines):
    return _job_parse(tuple('\n'.join(lines).split(' ')) if False else ('\n'.join(lines) + '\n',))


@bounded('C03.B-parse-lines', bound='all documents of <= 4 (thorough: <= 5) lines from 16 KeyValues line shapes (names '
         'with true/false flags, key-value pairs with flags, braces alone and on name lines, comments, stray tokens)',
         rule='one case per document; non-trivial when it contains a brace')
def b_parse_lines(ctx):
    maxlen = 5 if ctx.thorough else 4
    jobs = [t for n in range(0, maxlen + 1) for t in itertools.product(LINES, repeat=n)]
    from pyvc.driver import minimise
    for job, bad in ctx.pmap(_job_lines, jobs, batch=8192):
        ctx.case(job, nontrivial=any('{' in l or '}' in l for l in job))
        if bad:
            core = minimise(list(job), lambda c: _job_lines(tuple(c)))
            ctx.violation('parse-lines=' + '|'.join(core), f'{_job_lines(tuple(core))} for the document {core!r}', list(core))


b_parse_lines.replay = lambda inp: (lambda r: {'failed': bool(r), 'observation': r})(_job_lines(tuple(inp)))


@bounded('C03.B-parse-total', bound='all sequences of <= 5 (thorough: <= 6) pieces from 10 KeyValues fragments (quoted '
         'names, braces, [flag] / [!flag], newline, key-value pair, bare word, comment)',
         rule='one case per piece sequence; non-trivial when it contains a brace or a flag')
def b_parse(ctx):
    maxlen = 6 if ctx.thorough else 5
    jobs = [t for n in range(0, maxlen + 1) for t in itertools.product(PIECES, repeat=n)]
    for job, bad in ctx.pmap(_job_parse, jobs, batch=8192):
        ctx.case(job, nontrivial=any(p in ('{', '}', '[x]', '[!x]') for p in job))
        if bad:
            core = list(job)
            from pyvc.driver import minimise
            core = minimise(core, lambda c: _job_parse(tuple(c)))
            ctx.violation('parse=' + ' '.join(core).replace('\n', '\\n'), f'{_job_parse(tuple(core))} for {" ".join(core)!r}',
                          list(core))


b_parse.replay = lambda inp: (lambda r: {'failed': bool(r), 'observation': r})(_job_parse(tuple(inp)))
LONG_UNITS = ['/**/ ', '/* x */\t', '//c\n', ' ', '\n', '\r\n', '{', '}', '"a" ', 'bare ', '[f] ', '"\\n" ', '+', ':', ',', '= ',
              '#d ', '(p) ', '\ufeff', '/**/', '"a"\n{\n', '}\n']


def _job_long(job):
    """Long runs of one syntactic unit: the work per token must not grow with the run (no recursion per skipped unit)."""
    unit, count, optmask = job
    opts = {name: bool(optmask >> i & 1) for i, name in enumerate(OPTS)}
    text = unit * count + '"end"'
    ref = _run(text, opts)
    if isinstance(ref[1], tuple) and ref[1][0] == 'UNEXPECTED':
        return f'{count} x {unit!r}: tokenizing raised {ref[1][1]}: {ref[1][2][:80]} (only TokenSyntaxError is allowed)'
    if isinstance(ref[1], str):
        return f'{count} x {unit!r}: {ref[1]}'
    for chunks in (list(text), [text[i:i + 7] for i in range(0, len(text), 7)], text.splitlines(keepends=True)):
        got = _run(iter(chunks), opts)
        if got != ref:
            return f'{count} x {unit!r}: chunked input gives a different token stream / error than the whole string'
    return None


@bounded('C03.B-long-runs', bound='22 syntactic units (both comment kinds, blanks, line ends, braces, quoted / bare strings, '
         'flags, operators, directives, BOM, block open/close) repeated 3000 times (thorough: also 20000), under 6 option '
         'sets, whole / per character / 7-character chunks / per line', rule='one case per (unit, count, options)')
def b_long(ctx):
    masks = [0, 0b0001000, 0b0011000, 0b1100011, 0b1111111, 0b0000100]
    counts = [3000] + ([20000] if ctx.thorough else [])
    jobs = [(u, n, m) for u in LONG_UNITS for n in counts for m in masks]
    for job, bad in ctx.pmap(_job_long, jobs, batch=64, job_timeout=30.0):
        ctx.case(job)
        if bad:
            ctx.violation(f'long={job[0]!r}x{job[1]}.opts={job[2]}'.replace(' ', '_').replace('\n', 'n'), bad, list(job))


b_long.replay = lambda inp: (lambda r: {'failed': bool(r), 'observation': r})(_job_long(tuple(inp)))
BOUNDED = [b_cuts, b_parse, b_parse_lines, b_long]


def _witness(model, obligation):
    for n in range(0, 4):
        for t in itertools.product(ALPHA[:12], repeat=n):
            for m in (0, 127, 8, 24):
                bad = _job_cut((''.join(t), m))
                if bad:
                    return {'failed': True, 'string': ''.join(t), 'option_mask': m, 'observation': bad}
    return {'failed': False}


for _c in PROOFS:
    _c.replay_fn = _witness


def static_error_templates(repo):
    """BaseTokenizer.error(template, *args) formats with str.format: at every call site with a literal template the
    number of automatic fields equals the number of arguments and no field carries a conversion/format spec that
    could reject a str argument -- so building the error message cannot itself raise."""
    import string
    out = []
    n = 0
    for modname in ('tokenizer', 'keyvalues'):
        mod = extract.load(modname)
        for node in ast.walk(mod.tree):
            if not (isinstance(node, ast.Call) and isinstance(node.func, ast.Attribute) and node.func.attr == 'error'
                    and node.args):
                continue
            first = node.args[0]
            tmpl = None
            if isinstance(first, ast.Constant) and isinstance(first.value, str):
                tmpl = first.value
            elif isinstance(first, ast.IfExp) and all(isinstance(x, ast.Constant) and isinstance(x.value, str)
                                                     for x in (first.body, first.orelse)):
                tmpl = first.body.value + first.orelse.value if False else None
                for t in (first.body.value, first.orelse.value):
                    fields = [f for f in string.Formatter().parse(t) if f[1] is not None]
                    n += 1
                    out.append(_res(f'error_template.{modname}.arity@{node.lineno}', len(fields) == len(node.args) - 1
                                    and all(f[1] == '' and not f[2] and not f[3] for f in fields), node.lineno, t[:60]))
                continue
            if tmpl is None:
                continue        # error(Token, value) / f-string forms do not go through str.format with arguments
            try:
                fields = [f for f in string.Formatter().parse(tmpl) if f[1] is not None]
                ok = len(fields) == len(node.args) - 1 and all(f[1] == '' and not f[2] and not f[3] for f in fields)
            except ValueError:
                ok = False
            n += 1
            out.append(_res(f'error_template.{modname}.arity@{node.lineno}', ok, node.lineno, tmpl[:60]))
    out.append(_res('error_template.call_sites_found', n >= 20, 0, f'{n} literal templates'))
    return out


STATIC.append(static_error_templates)

MUTATIONS = [
    dict(name='rewind_guarded', file='tokenizer.py',
         old="                            # We need to reparse this, to ensure\n                            # \"**/\" parses correctly!\n                            self._char_index -= 1",
         new="                            # We need to reparse this, to ensure\n                            # \"**/\" parses correctly!\n                            if self._char_index > 0:\n                                self._char_index -= 1",
         expect='frame._handle_comment'),
    dict(name='refill_keeps_index', file='tokenizer.py',
         old="                        self._cur_chunk = chunk\n                        self._char_index = 0\n                        return chunk[0]",
         new="                        self._cur_chunk = chunk\n                        return chunk[0]", expect='_next_char.refines_text'),
    dict(name='empty_chunk_ends_input', file='tokenizer.py',
         old="                    if chunk:\n                        self._cur_chunk = chunk",
         new="                    if not chunk:\n                        return None\n                    if chunk:\n                        self._cur_chunk = chunk",
         expect='_next_char.refines_text'),
    dict(name='bad_error_template', file='tokenizer.py',
         old="                raise self.error('Unexpected character \"{}\"!', next_char)",
         new="                raise self.error('Unexpected character \"{}\" (U+{:04X})!', next_char)", expect='error_template'),
    dict(name='prop_flag_none_unchecked', file='tokenizer.py',
         old="                    elif next_char is None:\n                        raise self.error(\n                            'Unterminated property flag!\\n\\n'\n                            'Like \"name\" \"value\" [flag_without_end'\n                        )\n                    value_chars.append(next_char)",
         new="                    value_chars.append(next_char)", expect='C03'),
    dict(name='parse_flag_replace_unguarded', file='keyvalues.py',
         old="                can_flag_replace = bool(cur_block_contents) and cur_block_contents[-1] is closed_block",
         new="                can_flag_replace = True", expect='parse-lines'),
]
HARMLESS = [
    dict(name='next_char_rename', file='tokenizer.py',
         old="                for chunk in self._chunk_iter:\n                    if isinstance(chunk, bytes):\n                        raise ValueError('Cannot parse binary data!')\n                    if not isinstance(chunk, str):\n                        raise ValueError(\"Data was not a string!\")\n                    if chunk:\n                        self._cur_chunk = chunk\n                        self._char_index = 0\n                        return chunk[0]",
         new="                for piece in self._chunk_iter:\n                    if isinstance(piece, bytes):\n                        raise ValueError('Cannot parse binary data!')\n                    if not isinstance(piece, str):\n                        raise ValueError(\"Data was not a string!\")\n                    if piece:\n                        self._char_index = 0\n                        self._cur_chunk = piece\n                        return piece[0]"),
]
