"""C05 -- Angle stays in [0,360), frozen values never change, text form is canonical.

Proof tier
  P-range   every store to an angle slot in math.py (found by an AST scan, so a new writer without the right shape is
            an alarm) stores (i) `E % 360 % 360`, (ii) a slot of another angle, or (iii) a literal in range; the two
            IEEE-754 lemmas behind (i) are proved in z3's Float64 theory over an axiomatised fmod.
  P-frozen  every store to a slot of Vec/Angle/Matrix objects, and every call of the in-place helpers
            (_mat_mul, _vec_rot, _to_angle), targets `self` inside a method of a *mutable* final class, or an object
            that the same function just created (fresh-object analysis on the AST).  `x.copy()` is not fresh: frozen
            classes return self from copy().
  P-format  format_float: symbolic execution over a structured model of f'{x:.6f}' (sign, integer digits, six
            fraction digits) -- result is never '-0', has no trailing zeros / bare dot.
Bounded tier: operation histories over the public API, str/from_str round trips.
"""
import ast
import copy
import itertools
import math
import pickle

import z3

from pyvc import extract, smt
from pyvc.driver import bounded, minimise
from pyvc.symexec import Obligation

PROP = 'C05'
LEVEL = 'proof'
TIMEOUT_MS = {'quick': 120000, 'thorough': 300000}
M = 'math'
EXPLANATION = ('All stores to _pitch/_yaw/_roll are enumerated from the AST and each is shown to be a double modulo, a '
               'copy of another angle slot or an in-range literal; a single float modulo is shown (Float64) to reach '
               'only [0,360] and the second one [0,360). All slot stores and in-place helper calls are shown to target '
               'self of a mutable class or a freshly created object, so no operation can change a frozen value. '
               'format_float is executed symbolically over the structure of a fixed-point numeral.')
TRUSTED = ['float % float model: r = fmod(x, y) with |r| < y and sign(r) = sign(x) or r = 0, fmod exact for 0 <= x < y; '
           'result r if r >= 0 else r + y (one rounding)',
           "f'{x:.6f}' of a finite float is [-]digits.dddddd (no exponent); '-' iff x < 0 or x is -0.0",
           'objects returned by constructors / classmethods / __new__ / thaw() / freeze() of the math classes are new']
UNVERIFIED = ['_math.pyx (Cython twin)', 'NaN / infinity inputs', 'float() parsing of decimal text (correctly rounded)']

ANGLE_SLOTS = ('_pitch', '_yaw', '_roll')
VEC_SLOTS = ('_x', '_y', '_z')
MAT_SLOTS = tuple(f'_{a}{b}' for a in 'abc' for b in 'abc')
ALL_SLOTS = ANGLE_SLOTS + VEC_SLOTS + MAT_SLOTS
MUTABLE = ('Vec', 'Angle', 'Matrix')
HELPERS = {'_mat_mul': 'recv', '_vec_rot': 0, '_to_angle': 0}     # which operand is modified in place
FRESH_CALLS = {'Py_Vec', 'Py_Angle', 'Py_Matrix', 'Py_FrozenVec', 'Py_FrozenAngle', 'Py_FrozenMatrix', 'Vec', 'Angle',
               'Matrix', 'FrozenVec', 'FrozenAngle', 'FrozenMatrix'}


def _res(name, ok, line=0, note='', replay=None):
    r = smt.Result(name, 'proved' if ok else 'refuted', 'ast-scan', 0.0, {}, line, 0, note)
    if replay is not None:
        r.replay_fn = replay
    return r


# ------------------------------------------------------------------------------------------------ P-range
def _is_mod360(node):
    return isinstance(node, ast.BinOp) and isinstance(node.op, ast.Mod) and isinstance(node.right, ast.Constant) \
        and node.right.value in (360, 360.0)


def static_angle_stores(repo):
    mod = extract.load(M)
    out = []
    n = 0
    funcs = [(c.name + '.' + f.name, f) for c in mod.tree.body if isinstance(c, ast.ClassDef)
             for f in c.body if isinstance(f, ast.FunctionDef)]
    funcs += [(f.name, f) for f in mod.tree.body if isinstance(f, ast.FunctionDef)]
    for qual, fn in funcs:
        for node in ast.walk(fn):
            pairs = []
            if isinstance(node, ast.Assign):
                for t in node.targets:
                    if isinstance(t, ast.Tuple) and isinstance(node.value, ast.Tuple):
                        pairs += list(zip(t.elts, node.value.elts))
                    elif isinstance(t, ast.Tuple):
                        pairs += [(e, None) for e in t.elts]
                    else:
                        pairs.append((t, node.value))
            elif isinstance(node, ast.AugAssign):
                pairs.append((node.target, None))
            elif isinstance(node, ast.AnnAssign) and node.value is not None:
                pairs.append((node.target, node.value))
            for tgt, val in pairs:
                if not (isinstance(tgt, ast.Attribute) and tgt.attr in ANGLE_SLOTS):
                    continue
                n += 1
                kind = None
                if val is not None and _is_mod360(val) and _is_mod360(val.left):
                    kind = 'double-mod'
                elif isinstance(val, ast.Attribute) and val.attr in ANGLE_SLOTS:
                    kind = 'copy-of-angle-slot'
                elif isinstance(val, ast.Constant) and isinstance(val.value, (int, float)) and 0 <= val.value < 360:
                    kind = 'literal-in-range'
                elif isinstance(val, ast.Name) and qual.startswith('_mk_'):
                    kind = None
                out.append(_res(f'range.store.{qual}.{tgt.attr}@{node.lineno}', kind is not None, node.lineno,
                                kind or f'not a double modulo / angle copy / literal: {ast.unparse(node)[:90]}',
                                replay=_witness_range))
    out.append(_res('range.stores_found', n >= 40, 0, f'{n} stores to angle slots'))
    return out


def static_fp_lemmas(repo):
    """The two facts behind the double modulo, in IEEE-754 binary64 (z3 FP theory); fmod axiomatised."""
    F = z3.Float64()
    rm = z3.RNE()
    x = z3.FP('x', F)
    f = z3.FP('f', F)      # fmod(x, 360)
    c360 = z3.FPVal(360.0, F)
    zero = z3.FPVal(0.0, F)
    finite = z3.And(z3.Not(z3.fpIsNaN(x)), z3.Not(z3.fpIsInf(x)))
    fmod_ax = [finite, z3.Not(z3.fpIsNaN(f)), z3.fpLT(z3.fpAbs(f), c360),
               z3.Or(z3.fpIsZero(f), z3.fpIsNegative(f) == z3.fpIsNegative(x)),
               z3.Implies(z3.And(z3.fpGEQ(x, zero), z3.fpLT(x, c360)), z3.fpEQ(f, x)),
               z3.Implies(z3.fpEQ(x, c360), z3.fpIsZero(f))]
    # Python: r = f if f is zero or has the sign of the (positive) divisor, else f + y
    r = z3.If(z3.Or(z3.fpIsZero(f), z3.Not(z3.fpIsNegative(f))), z3.fpAbs(f) if False else f, z3.fpAdd(rm, f, c360))
    obs = [
        Obligation('range.pymod.once_lands_in_closed_interval', fmod_ax, z3.And(z3.fpGEQ(r, zero), z3.fpLEQ(r, c360))),
        Obligation('range.pymod.second_lands_in_half_open_interval', fmod_ax + [z3.fpGEQ(x, zero), z3.fpLEQ(x, c360)],
                   z3.And(z3.fpGEQ(r, zero), z3.fpLT(r, c360))),
    ]
    res = smt.discharge(obs, timeout_ms=60000)
    # the closed upper end is really attained: a *single* modulo is not enough (vacuity guard, must be satisfiable)
    res += smt.discharge([Obligation('range.pymod.single_modulo_can_return_360', fmod_ax + [z3.fpEQ(r, c360)],
                                     z3.BoolVal(False), kind='cover')], timeout_ms=60000)
    return res


def _witness_range(model=None, obligation=None):
    from srctools.math import Angle, FrozenAngle, Matrix, Vec
    cands = []
    tiny = [-1e-14, -1e-300, -5e-324, 1e-14]
    for t in tiny:
        cands.append(('Matrix.from_yaw(%r).to_angle()' % t, lambda t=t: Matrix.from_yaw(t).to_angle()))
        cands.append(('Matrix.from_pitch(%r).to_angle()' % t, lambda t=t: Matrix.from_pitch(t).to_angle()))
        cands.append(('Matrix.from_roll(%r).to_angle()' % t, lambda t=t: Matrix.from_roll(t).to_angle()))
        cands.append(('Angle(%r, 0, 0)' % t, lambda t=t: Angle(t, 0, 0)))
        cands.append(('FrozenAngle(0, %r, 0)' % t, lambda t=t: FrozenAngle(0, t, 0)))
        cands.append(('a = Angle(45, 90, 270); a *= %r' % t, lambda t=t: _imul(Angle(45, 90, 270), t)))
        cands.append(('a = Angle(); a.yaw = %r' % t, lambda t=t: _setattr(Angle(), 'yaw', t)))
        cands.append(('a = Angle(); a[1] = %r' % t, lambda t=t: _setitem(Angle(), 1, t)))
        cands.append(('Angle(0, %r, 0) @ Matrix()' % t, lambda t=t: Angle(0, 10, 0) @ Matrix.from_yaw(-10 + t)))
    for v in (360, 360.0, 720, -360):
        cands.append(('a = Angle(); a[0] = %r' % v, lambda v=v: _setitem(Angle(), 0, v)))
        cands.append(('a = Angle(); a["yaw"] = %r' % v, lambda v=v: _setitem(Angle(), 'yaw', v)))
        cands.append(('Angle.with_axes("roll", %r)' % v, lambda v=v: Angle.with_axes('roll', v)))
        cands.append(('Angle(%r, %r, %r)' % (v, v, v), lambda v=v: Angle(v, v, v)))
    for desc, fn in cands:
        try:
            a = fn()
        except Exception:
            continue
        vals = (a.pitch, a.yaw, a.roll)
        if not all(0.0 <= c < 360.0 for c in vals):
            return {'failed': True, 'expression': desc, 'angle': vals}
    return {'failed': False}


def _imul(a, k):
    a *= k
    return a


def _setattr(a, n, v):
    setattr(a, n, v)
    return a


def _setitem(a, i, v):
    a[i] = v
    return a


# ------------------------------------------------------------------------------------------------ P-frozen
def _fresh_locals(fn):
    """Local names that only ever hold objects created in this function."""
    fresh, tainted = set(), set()
    for node in ast.walk(fn):
        if isinstance(node, ast.Assign) and len(node.targets) == 1 and isinstance(node.targets[0], ast.Name):
            name = node.targets[0].id
            (fresh if _is_fresh_expr(node.value) else tainted).add(name)
        elif isinstance(node, ast.AnnAssign) and isinstance(node.target, ast.Name) and node.value is not None:
            (fresh if _is_fresh_expr(node.value) else tainted).add(node.target.id)
    for a in fn.args.args + fn.args.kwonlyargs + fn.args.posonlyargs:
        tainted.add(a.arg)
    return fresh - tainted


def _is_fresh_expr(e):
    if isinstance(e, ast.Call):
        f = e.func
        if isinstance(f, ast.Name) and f.id in FRESH_CALLS:
            # FrozenX(x) returns x itself when x is already frozen: only fresh when built from numbers / mutable
            return not f.id.endswith(('FrozenVec', 'FrozenAngle', 'FrozenMatrix')) or len(e.args) != 1
        if isinstance(f, ast.Call) and isinstance(f.func, ast.Name) and f.func.id == 'type' and len(e.args) >= 2:
            return True     # type(self)(x, y, z): built from numbers, new even for the frozen classes
        if isinstance(f, ast.Attribute):
            if f.attr == '__new__':
                return True
            if f.attr in ('thaw', 'freeze'):
                return True
            if f.attr.startswith('from_') and isinstance(f.value, ast.Name) and f.value.id in FRESH_CALLS:
                return True
            if f.attr == '_to_angle' and e.args and _is_fresh_expr(e.args[0]):
                return True
    return False


def static_frozen(repo):
    mod = extract.load(M)
    out = []
    n = 0
    scopes = [(c.name, f) for c in mod.tree.body if isinstance(c, ast.ClassDef)
              for f in c.body if isinstance(f, ast.FunctionDef)]
    scopes += [('', f) for f in mod.tree.body if isinstance(f, ast.FunctionDef)]
    for cls, fn in scopes:
        fresh = _fresh_locals(fn)
        qual = (cls + '.' if cls else '') + fn.name
        own_param = None
        if fn.name in HELPERS:
            own_param = 'self' if HELPERS[fn.name] == 'recv' else fn.args.args[1 + HELPERS[fn.name]].arg

        def allowed(target_expr):
            if isinstance(target_expr, ast.Name):
                if target_expr.id == 'self' and (cls in MUTABLE or fn.name in ('__new__', '__init__')):
                    return True
                if target_expr.id in fresh:
                    return True
                if own_param is not None and target_expr.id == own_param:
                    return True     # the helper's documented in-place operand; its call sites are checked below
                if target_expr.id == 'self' and fn.name in ('__setstate__',):
                    return True
            return _is_fresh_expr(target_expr)
        for node in ast.walk(fn):
            # slot stores
            tgts = []
            if isinstance(node, ast.Assign):
                for t in node.targets:
                    tgts += list(t.elts) if isinstance(t, ast.Tuple) else [t]
            elif isinstance(node, (ast.AugAssign, ast.AnnAssign)):
                tgts = [node.target]
            for t in tgts:
                if isinstance(t, ast.Attribute) and t.attr in ALL_SLOTS:
                    n += 1
                    out.append(_res(f'frozen.store.{qual}.{t.attr}@{node.lineno}', allowed(t.value), node.lineno,
                                    '' if allowed(t.value) else f'{ast.unparse(t)} may belong to a frozen object',
                                    replay=_witness_frozen))
            # in-place helper calls
            if isinstance(node, ast.Call) and isinstance(node.func, ast.Attribute) and node.func.attr in HELPERS:
                which = HELPERS[node.func.attr]
                operand = node.func.value if which == 'recv' else (node.args[which] if len(node.args) > which else None)
                if operand is None:
                    continue
                n += 1
                ok = allowed(operand)
                out.append(_res(f'frozen.inplace_call.{qual}.{node.func.attr}@{node.lineno}', ok, node.lineno,
                                '' if ok else f'{ast.unparse(operand)} is modified in place but may be a frozen object '
                                              f'(copy() of a frozen value is the value itself)', replay=_witness_frozen))
            # setattr(self, slot, ...) in a base class
            if isinstance(node, ast.Call) and isinstance(node.func, ast.Name) and node.func.id == 'setattr' \
                    and node.args and isinstance(node.args[0], ast.Name):
                ok = node.args[0].id == 'self' and cls in MUTABLE
                out.append(_res(f'frozen.setattr.{qual}@{node.lineno}', ok, node.lineno, replay=_witness_frozen))
    out.append(_res('frozen.sites_found', n >= 100, 0, f'{n} slot stores / in-place calls'))
    return out


def _snap(o):
    return tuple(o) if not hasattr(o, '_aa') else tuple(getattr(o, s) for s in MAT_SLOTS)


def _witness_frozen(model=None, obligation=None):
    from srctools.math import Angle, FrozenAngle, FrozenMatrix, FrozenVec, Matrix, Vec
    fm = FrozenMatrix.from_yaw(30)
    fv = FrozenVec(1, 2, 3)
    fa = FrozenAngle(10, 20, 30)
    others = [Matrix.from_pitch(40), FrozenMatrix.from_roll(50), Angle(5, 6, 7), FrozenAngle(5, 6, 7), Vec(4, 5, 6),
              FrozenVec(4, 5, 6), (1.0, 2.0, 3.0), 2.5]
    ops = [('@', lambda a, b: a @ b), ('r@', lambda a, b: b @ a), ('*', lambda a, b: a * b), ('+', lambda a, b: a + b),
           ('-', lambda a, b: a - b), ('r*', lambda a, b: b * a)]
    for name, frozen in (('FrozenMatrix', fm), ('FrozenVec', fv), ('FrozenAngle', fa)):
        before = _snap(frozen)
        for oname, op in ops:
            for other in others:
                try:
                    op(frozen, other)
                except Exception:
                    pass
                if _snap(frozen) != before:
                    return {'failed': True, 'frozen': name, 'operator': oname, 'other': repr(other),
                            'before': before, 'after': _snap(frozen)}
    return {'failed': False}


# ------------------------------------------------------------------------------------------------ P-format
def static_format_float(repo):
    """format_float over the structure of f'{x:.6f}' (trusted shape): sign s in {'', '-'}, integer part ip (one digit
    '0' or digits without leading zero), fraction of six digits with k trailing zeros.  The real body is executed by
    the interpreter on every shape k = 0..6 (digits symbolic); obligations: not '-0', no trailing zero or dot."""
    from pyvc.symexec import Interp, Path, Env, FuncVal, PyRaise, PathEnd
    from pyvc.vc import Registry
    mod = extract.load(M)
    fnode = mod.find('format_float')
    obs = []
    digit = z3.Range('0', '9')
    nonzero = z3.Range('1', '9')
    for neg in (False, True):
        for k in range(0, 7):
            for ip_zero in (False, True):
                path = Path([], [])
                I = Interp(path, None)
                ip = z3.String('ip')
                head = z3.String('fh')       # first 6-k fraction digits, last one non-zero
                path.assume(z3.InRe(ip, z3.Re('0') if ip_zero else z3.Concat(nonzero, z3.Star(digit))))
                path.assume(z3.Length(ip) <= 9)      # |x| < 1e9 (the property speaks of magnitudes up to 1e6)
                if k < 6:
                    path.assume(z3.And(z3.Length(head) == 6 - k,
                                       z3.InRe(head, z3.Concat(z3.Star(digit), nonzero))))
                    frac = z3.Concat(head, z3.StringVal('0' * k)) if k else head
                else:
                    frac = z3.StringVal('000000')
                text = z3.Concat(z3.StringVal('-' if neg else ''), ip, z3.StringVal('.'), frac)
                # model of the f-string: the format call yields `text`
                I.format_model = lambda I_, val, spec, lineno, text=text: text
                I.extra_methods = _rstrip_model
                env = Env(None, M)
                fn = FuncVal(fnode, M, 'format_float')
                xr = z3.Real('x')
                try:
                    result = I.call_function(fn, [xr], {}, force_inline=True)
                except (PyRaise, PathEnd) as e:
                    obs.append(Obligation(f'format.no_exception.neg={neg}.k={k}', list(path.pc), z3.BoolVal(False)))
                    continue
                from pyvc.symexec import to_z3
                r = to_z3(result)
                tag = f"{'neg' if neg else 'pos'}.trailing_zeros={k}.int_part={'0' if ip_zero else 'digits'}"
                obs.append(Obligation(f'format.never_minus_zero.{tag}', list(path.pc), r != z3.StringVal('-0')))
                obs.append(Obligation(f'format.no_trailing_zero_or_dot.{tag}', list(path.pc),
                                      z3.And(z3.Not(z3.SuffixOf(z3.StringVal('.'), r)),
                                             z3.Or(z3.Not(z3.Contains(r, z3.StringVal('.'))),
                                                   z3.Not(z3.SuffixOf(z3.StringVal('0'), r))))))
                want = z3.Concat(z3.StringVal('-' if neg else ''), ip) if k == 6 else \
                    z3.Concat(z3.StringVal('-' if neg else ''), ip, z3.StringVal('.'), head)
                if not (neg and k == 6 and ip_zero):
                    obs.append(Obligation(f'format.keeps_significant_digits.{tag}', list(path.pc), r == want))
    res = smt.discharge(obs, timeout_ms=30000)
    for r in res:
        r.replay_fn = _witness_format
    return res


def _rstrip_model(I, obj, name, lineno):
    """str.rstrip(chars) on a symbolic string: s == t ++ z, z in chars*, t empty or not ending in chars (summary)."""
    from pyvc.symexec import Builtin, is_sym_str, to_z3
    if name != 'rstrip' or not is_sym_str(obj):
        return None

    def rstrip(chars=None):
        if not isinstance(chars, str) or len(chars) != 1:
            from pyvc.symexec import Unsupported
            raise Unsupported('rstrip model handles one concrete character')
        I.used_summaries.add('str.rstrip(c): longest prefix not ending in c')
        t = I.fresh('rs_t', z3.StringSort())
        z = I.fresh('rs_z', z3.StringSort())
        I.path.assume(obj == z3.Concat(t, z))
        I.path.assume(z3.InRe(z, z3.Star(z3.Re(chars))))
        I.path.assume(z3.Not(z3.SuffixOf(z3.StringVal(chars), t)))
        return t
    return Builtin('str.rstrip', rstrip)


def _witness_format(model=None, obligation=None):
    from srctools.math import format_float, Vec, Angle
    for x in [-1e-9, -4e-7, -0.0, -1e-300, 1e-9, 0.0, -0.0000004, -0.0000005, -0.0000006, 1.5, -1.5, 100.0, 1e6, 123.456789]:
        r = format_float(x)
        if r == '-0' or 'e' in r or (('.' in r) and (r.endswith('0') or r.endswith('.'))) or abs(float(r) - x) > 5e-7:
            return {'failed': True, 'call': f'format_float({x!r})', 'result': r}
        for obj in (Vec(x, 0, 1), Angle(0, 0, 0)):
            if '-0 ' in str(obj) + ' ' or 'e' in str(obj):
                return {'failed': True, 'call': f'str({obj!r})', 'result': str(obj)}
    return {'failed': False}


STATIC = [static_angle_stores, static_fp_lemmas, static_frozen, static_format_float]


# ------------------------------------------------------------------------------------------------ bounded histories
VALUES = [0.0, -0.0, 1e-14, -1e-14, 360.0, -360.0, 720.0, 359.99999999999994, -1e-9, 90.0, 45.5, -5e-324, 1e6 + 0.25]
OPS = ['ctor', 'fctor', 'set_attr', 'set_item_int', 'set_item_str', 'imul', 'mul', 'imatmul', 'matmul_frozen',
       'to_angle', 'from_basis', 'copy', 'deepcopy', 'pickle', 'freeze_thaw', 'str_round', 'with_axes', 'transform',
       'neg_rot', 'vec_rot']


def _history(ops_vals):
    """Run one history; returns None or a description of the violated clause."""
    from srctools.math import Angle, FrozenAngle, FrozenMatrix, FrozenVec, Matrix, Vec
    ang = Angle(10, 20, 30)
    frozen = [FrozenAngle(1, 2, 3), FrozenVec(1, 2, 3), FrozenMatrix.from_yaw(45)]
    frozen_before = [_snap(f) for f in frozen]
    hashes = [hash(f) for f in frozen[:2]]
    produced = []
    for op, v in ops_vals:
        try:
            if op == 'ctor':
                ang = Angle(v, v / 2, -v)
            elif op == 'fctor':
                produced.append(FrozenAngle(v, -v, v * 3))
            elif op == 'set_attr':
                ang.yaw = v
            elif op == 'set_item_int':
                ang[0] = v
            elif op == 'set_item_str':
                ang['roll'] = v
            elif op == 'imul':
                ang *= v
            elif op == 'mul':
                produced.append(ang * v)
                produced.append(frozen[0] * v)
            elif op == 'imatmul':
                ang @= Matrix.from_yaw(v)
            elif op == 'matmul_frozen':
                produced.append(frozen[0] @ Matrix.from_pitch(v))
                produced.append(frozen[2] @ Matrix.from_roll(v))
                produced.append(frozen[2] @ frozen[0])
                produced.append(frozen[1] @ frozen[2])
                produced.append(frozen[0] @ frozen[2])
            elif op == 'to_angle':
                produced.append(Matrix.from_yaw(v).to_angle())
                produced.append(Matrix.from_pitch(v).to_angle())
                produced.append(FrozenMatrix.from_roll(v).to_angle())
            elif op == 'from_basis':
                produced.append(Angle.from_basis(x=Vec(1, 0, 0) @ Matrix.from_yaw(v), z=Vec(0, 0, 1)))
            elif op == 'copy':
                c = ang.copy()
                c.pitch = v
                produced.append(c)
                if frozen[0].copy() is not frozen[0]:
                    return 'FrozenAngle.copy() is not the same object'
            elif op == 'deepcopy':
                produced.append(copy.deepcopy(ang))
                produced.append(copy.deepcopy(frozen[0]))
            elif op == 'pickle':
                for o in (ang, frozen[0], frozen[1], frozen[2]):
                    p = pickle.loads(pickle.dumps(o))
                    if _snap(p) != _snap(o) or type(p) is not type(o):
                        return f'pickle round trip of {o!r} gives {p!r}'
                    if isinstance(p, (Angle, FrozenAngle)):
                        produced.append(p)
            elif op == 'freeze_thaw':
                f = ang.freeze()
                t = f.thaw()
                t.yaw = v
                if _snap(f) != _snap(ang) and ang.yaw != v:
                    return 'freeze() result differs from its source'
                produced += [f, t]
            elif op == 'str_round':
                for o in (ang, Vec(v, -v, v / 3)):
                    s = str(o)
                    if 'e' in s or '-0 ' in s + ' ':
                        return f'str({o!r}) = {s!r} is not canonical'
                    back = type(o).from_str(s)
                    if any(abs(a - b) > 5e-7 and abs((a - b) % 360) > 5e-7 and abs((b - a) % 360) > 5e-7
                           for a, b in zip(o, back)):
                        return f'{type(o).__name__}.from_str({s!r}) = {back!r}, not within 5e-7 of {o!r}'
                    for part in s.split():
                        if '.' in part and len(part.split('.')[1]) > 6:
                            return f'more than 6 decimals in {s!r}'
            elif op == 'with_axes':
                produced.append(Angle.with_axes('yaw', v))
                produced.append(FrozenAngle.with_axes('pitch', v, 'roll', -v))
            elif op == 'transform':
                with ang.transform() as m:
                    m @= Matrix.from_yaw(v)
            elif op == 'neg_rot':
                produced.append(ang @ Matrix.from_yaw(-v))
            elif op == 'vec_rot':
                Vec(1, 2, 3) @ frozen[0]
                frozen[1] @ ang
        except (ValueError, OverflowError, ZeroDivisionError, TypeError):
            pass
        for a in [ang] + produced[-6:]:
            if hasattr(a, 'pitch'):
                for name in ('pitch', 'yaw', 'roll'):
                    c = getattr(a, name)
                    if not (0.0 <= c < 360.0):
                        return f'{type(a).__name__}.{name} = {c!r} after {op}({v!r})'
        for f, before in zip(frozen, frozen_before):
            if _snap(f) != before:
                return f'{type(f).__name__} changed from {before} to {_snap(f)} after {op}({v!r})'
    if [hash(f) for f in frozen[:2]] != hashes:
        return 'hash of a frozen value changed'
    return None


def _job_history(h):
    try:
        return _history(h)
    except Exception as e:
        return f'harness: {type(e).__name__}: {e}'


@bounded('C05.B-histories', bound='all single operations x 13 special values, all ordered pairs of operations on a '
         'seeded value sample (quick) / all pairs x all values and seeded triples (thorough); 20 operations over the '
         'public API of Angle/FrozenAngle/Vec/Matrix', rule='one case per history; every history is non-trivial')
def b_histories(ctx):
    jobs = [((op, v),) for op in OPS for v in VALUES]
    for a, b in itertools.product(OPS, repeat=2):
        vals = VALUES if ctx.thorough else ctx.rng.sample(VALUES, 3)
        for v in vals:
            jobs.append(((a, v), (b, -v if v else 1e-14)))
    for _ in range(2000 if not ctx.thorough else 40000):
        jobs.append(tuple((ctx.rng.choice(OPS), ctx.rng.choice(VALUES) * ctx.rng.choice([1, -1, 0.5])) for _ in range(3)))
    for job, bad in ctx.pmap(_job_history, jobs, batch=4096):
        ctx.case(job)
        if bad:
            core = minimise(list(job), lambda c: _job_history(tuple(c)))
            ctx.violation('history=' + '>'.join(f'{o}({v!r})' for o, v in core), _job_history(tuple(core)) or bad,
                          [list(x) for x in core])


b_histories.replay = lambda inp: (lambda r: {'failed': bool(r), 'observation': r})(
    _job_history(tuple(tuple(x) for x in inp)))


def _job_format(x):
    from srctools.math import format_float, parse_vec_str, Vec, Angle
    r = format_float(x)
    if r == '-0':
        return f'format_float({x!r}) == "-0"'
    if 'e' in r or 'E' in r or 'n' in r:
        return f'format_float({x!r}) = {r!r} uses an exponent'
    if '.' in r and (r.endswith('0') or r.endswith('.') or len(r.split('.')[1]) > 6):
        return f'format_float({x!r}) = {r!r} is not canonical'
    tol = 5e-7 + 4 * abs(x) * 2.3e-16 + 1e-18     # 5e-7 plus the representation error of the two doubles involved
    if abs(float(r) - x) > tol:
        return f'format_float({x!r}) = {r!r} is not within 5e-7'
    v = Vec(x, -x, x / 7)
    back = parse_vec_str(str(v))
    if any(abs(a - b) > 5e-7 + 4 * abs(a) * 2.3e-16 + 1e-18 for a, b in zip(v, back)):
        return f'parse_vec_str(str({v!r})) = {back!r}'
    if '-0 ' in str(v) + ' ':
        return f'str({v!r}) = {str(v)!r} contains -0'
    return None


@bounded('C05.B-format', bound='floats k * 10^e for k in -2000..2000 (step 7), e in -12..6, neighbours of rounding '
         'boundaries +-(n + 0.5) * 1e-6, powers of two, seeded random doubles up to 1e6',
         rule='one case per float; non-trivial when the value is not an integer')
def b_format(ctx):
    xs = [0.0, -0.0]
    for e in range(-12, 7):
        for k in range(-2000, 2001, 7):
            xs.append(k * 10.0 ** e)
    for n in range(0, 40):
        for s in (1, -1):
            b = s * (n + 0.5) * 1e-6
            xs += [b, math.nextafter(b, 0), math.nextafter(b, s * 1)]
    xs += [s * 2.0 ** p for p in range(-60, 21) for s in (1, -1)]
    xs += [ctx.rng.uniform(-1e6, 1e6) for _ in range(3000 if not ctx.thorough else 100000)]
    xs += [ctx.rng.uniform(-1e-5, 1e-5) for _ in range(3000 if not ctx.thorough else 100000)]
    for x, bad in ctx.pmap(_job_format, xs, batch=8192):
        ctx.case(x, nontrivial=x != int(x))
        if bad:
            key = 'format=tiny-negative' if (-5e-7 < x < 0) else f'format={x!r}'
            ctx.violation(key, bad, [x])


b_format.replay = lambda inp: (lambda r: {'failed': bool(r), 'observation': r})(_job_format(inp[0]))
BOUNDED = [b_histories, b_format]

MUTATIONS = [
    dict(name='format_minus_zero', file='math.py', old="    return '0' if result == '-0' else result", new="    return result",
         expect='format.never_minus_zero'),
    dict(name='to_angle_single_mod', file='math.py',
         old="            ang._roll = math.degrees(math.atan2(left_z, up_z)) % 360.0 % 360.0",
         new="            ang._roll = math.degrees(math.atan2(left_z, up_z)) % 360.0", expect='range.store.MatrixBase._to_angle'),
    dict(name='matmul_copy_of_frozen', file='math.py',
         old="            mat = Py_Matrix(self)\n            mat._mat_mul(other)\n        elif",
         new="            mat = self.copy()\n            mat._mat_mul(other)\n        elif", expect='frozen.inplace_call.MatrixBase.__matmul__'),
    dict(name='format_keeps_trailing_zero', file='math.py',
         old="        result = result.rstrip('0').rstrip('.')", new="        result = result.rstrip('.')", expect='format.'),
]
HARMLESS = [
    dict(name='to_angle_rename', file='math.py', old="        horiz_dist = math.sqrt(for_x**2 + for_y**2)\n        if horiz_dist > 0.001:",
         new="        horiz = math.sqrt(for_x**2 + for_y**2)\n        horiz_dist = horiz\n        if horiz_dist > 0.001:"),
]
