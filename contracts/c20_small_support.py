"""C20 support: generators and round-trip oracles for the small "secondary" formats.

Formats: Hammer command sequences (cmdseq), soundscripts (sndscript), VMT materials (vmt),
SMD meshes (smd) and PCF particle systems (pcf).

Public surface:
    FORMATS, gen(fmt, rng), check(fmt, value), describe(fmt, value), TARGETED

The oracle for every format is the same pair of laws:
    (1) read(write(v)) is structurally equal to v   (own ``dump`` of all public fields)
    (2) write(read(write(v))) is byte-identical to write(v)

All srctools imports are lazy (inside functions); this module imports without srctools.

Float policy (stated per format):
  * cmdseq    - no floats in the data model.
  * sndscript - numbers are written with ``str(float)`` (shortest repr), which is exact for
                every finite Python float; compared exactly.  ``Pitch`` members are floats
                (``Pitch.PITCH_LOW == 95.0``) and are compared by their float value.
  * vmt       - everything is a string.
  * smd       - positions/normals/UVs/weights are written with ``%.6f``: generated values are
                multiples of 1/64 (exactly 6 decimals) and compared exactly.  Rotations go through
                radians with ``%.6f``: compared with a circular tolerance of 1e-4 degrees.
  * pcf       - binary DMX stores float32 and KV2 text writes 6 decimals: generated floats are
                multiples of 1/64 (asserted to survive ``struct 'f'``) and compared exactly.
"""
import io
import os
import random
import re
import struct
import sys
import uuid as _uuidlib
from typing import Any, Callable, Dict, List, Optional, Tuple

FORMATS = ['cmdseq', 'sndscript', 'vmt', 'smd', 'pcf']


# ---------------------------------------------------------------------------------------------
# Generic structural diff over "dump" trees.
# A dump is built from: dict (ordered, compared key-by-key in order), list/tuple, str, bytes,
# bool, int, float, None and _Ang (angles compared with tolerance).
# ---------------------------------------------------------------------------------------------

class _Ang(tuple):
    """Euler angles in degrees; compared component-wise modulo 360 with tolerance."""
    TOL = 1e-4


def _short(x: Any, limit: int = 40) -> str:
    s = repr(x)
    return s if len(s) <= limit else s[:limit - 3] + '...'


def _diff(a: Any, b: Any, path: str = '') -> Optional[str]:
    """Return a one-line description of the first difference, or None."""
    if isinstance(a, _Ang) and isinstance(b, _Ang):
        for i, (x, y) in enumerate(zip(a, b)):
            d = abs(x - y) % 360.0
            if min(d, 360.0 - d) > _Ang.TOL:
                return f'{path}.{"pyr"[i]}: {x!r} != {y!r} (tol {_Ang.TOL})'
        return None
    if isinstance(a, dict) and isinstance(b, dict):
        ka, kb = list(a), list(b)
        if ka != kb:
            extra = [k for k in kb if k not in a]
            missing = [k for k in ka if k not in b]
            if extra or missing:
                return f'{path}: keys differ, missing={_short(missing)} extra={_short(extra)}'
            return f'{path}: key order differs {_short(ka)} != {_short(kb)}'
        for k in ka:
            r = _diff(a[k], b[k], f'{path}.{k}' if path else str(k))
            if r is not None:
                return r
        return None
    if isinstance(a, (list, tuple)) and isinstance(b, (list, tuple)):
        if len(a) != len(b):
            return f'{path}: length {len(a)} != {len(b)}'
        for i, (x, y) in enumerate(zip(a, b)):
            r = _diff(x, y, f'{path}[{i}]')
            if r is not None:
                return r
        return None
    if isinstance(a, float) and isinstance(b, float):
        # Exact: -0.0 == 0.0 is accepted, NaN never generated.
        return None if a == b else f'{path}: {a!r} != {b!r}'
    if type(a) is not type(b):
        return f'{path}: {type(a).__name__} {_short(a)} != {type(b).__name__} {_short(b)}'
    return None if a == b else f'{path}: {_short(a)} != {_short(b)}'


def _exc_msg(stage: str, exc: BaseException) -> str:
    """'<stage>: <ExceptionType>: <first line of message>' on one line."""
    lines = str(exc).splitlines() or ['']
    return f'{stage}: {type(exc).__name__}: {lines[0][:160]}'


def _bytes_diff(stage: str, b1, b2) -> Optional[str]:
    if b1 == b2:
        return None
    n = min(len(b1), len(b2))
    i = next((k for k in range(n) if b1[k] != b2[k]), n)
    return (f'{stage}: not identical -- first difference at offset {i} (len {len(b1)} vs {len(b2)}): '
            f'{_short(b1[max(0, i - 8):i + 12])} vs {_short(b2[max(0, i - 8):i + 12])}')


def _pick_len(rng: random.Random, width: int) -> int:
    """Edge-heavy length distribution for a fixed-width field."""
    return rng.choice([0, 1, 2, rng.randint(0, 12), rng.randint(0, 40), rng.randint(0, width), width - 1, width])


def _text(rng: random.Random, alphabet: str, n: int) -> str:
    return ''.join(rng.choice(alphabet) for _ in range(n))


_IDENT = 'abcdefghijklmnopqrstuvwxyzABCDEFGHIJKLMNOPQRSTUVWXYZ0123456789_'


# ---------------------------------------------------------------------------------------------
# 1. cmdseq
# Value: dict[str, list[Command]].
# Representable: ASCII (1..127, no NUL) strings, len <= 128 for sequence names and <= 260 for
# exe / args / ensure_file (a string filling the field completely has no terminator; the reader
# accepts that, so it is generated).  The writer only produces version 0.2; the older 0.1 layout
# (no ``no_wait`` field) is exercised on the reader side through an independent encoder.
# ---------------------------------------------------------------------------------------------

_CMD_ASCII = ''.join(chr(c) for c in range(32, 127))
_CMD_CTRL = ''.join(chr(c) for c in range(1, 32)) + '\x7f'
_CMDSEQ_HEADER = b'Worldcraft Command Sequences\r\n\x1a'


def _cmd_str(rng: random.Random, width: int) -> str:
    n = _pick_len(rng, width)
    k = rng.randrange(6)
    if k == 0:
        return _text(rng, _CMD_ASCII + _CMD_CTRL, n)
    if k == 1:
        base = rng.choice(['$vis_exe', '$bsp_exe', '$light_exe', '$game_exe', 'C:\\Program Files\\x.exe',
                           '-game $gamedir $path\\$file', '$path\\$file.bsp', '$bspdir\\$file.bsp'])
        return base[:width]
    return _text(rng, _CMD_ASCII, n)


def _gen_cmdseq(rng: random.Random):
    from srctools.cmdseq import Command, SpecialCommand
    specials = list(SpecialCommand)
    seqs: Dict[str, list] = {}
    for _ in range(rng.choice([0, 1, 1, 2, 3, 5])):
        name = _cmd_str(rng, 128)
        if name in seqs:
            continue
        cmds = []
        for _ in range(rng.choice([0, 1, 2, 3, 6])):
            exe: Any = rng.choice(specials) if rng.random() < 0.4 else _cmd_str(rng, 260)
            ens = rng.choice([None, None, '', _cmd_str(rng, 260)])
            cmds.append(Command(
                exe, _cmd_str(rng, 260),
                enabled=rng.random() < 0.5, ensure_file=ens,
                use_proc_win=rng.random() < 0.5, no_wait=rng.random() < 0.5,
            ))
        seqs[name] = cmds
    return seqs


def _dump_cmd(cmd) -> dict:
    from srctools.cmdseq import SpecialCommand
    exe = cmd.exe
    return {
        'exe': ('special', exe.name) if isinstance(exe, SpecialCommand) else ('str', exe),
        'args': cmd.args,
        'enabled': cmd.enabled,
        'ensure_file': cmd.ensure_file,
        'use_proc_win': cmd.use_proc_win,
        'no_wait': cmd.no_wait,
    }


def _dump_cmdseq(seqs) -> list:
    return [(name, [_dump_cmd(c) for c in cmds]) for name, cmds in seqs.items()]


def _cmdseq_ref_encode(seqs, new_format: bool, junk: Optional[random.Random] = None) -> bytes:
    """Independent encoder of the documented layout (used to cross-check writer and both reader versions)."""
    from srctools.cmdseq import SpecialCommand, SPECIAL_NAMES

    def field(text: str, width: int) -> bytes:
        raw = text.encode('ascii')
        pad = width - len(raw)
        if junk is not None and pad > 1:
            # Real files have garbage after the terminator.
            return raw + b'\0' + bytes(junk.randrange(256) for _ in range(pad - 1))
        return raw + b'\0' * pad

    out = [_CMDSEQ_HEADER, struct.pack('f', 0.2 if new_format else 0.1), struct.pack('I', len(seqs))]
    st = struct.Struct('Bi260s260sii260sii' if new_format else 'Bi260s260sii260si')
    for name, cmds in seqs.items():
        out.append(field(name, 128))
        out.append(struct.pack('I', len(cmds)))
        for cmd in cmds:
            if isinstance(cmd.exe, SpecialCommand):
                special, exe = cmd.exe.value, SPECIAL_NAMES[cmd.exe]
            else:
                special, exe = 0, cmd.exe
            args = [
                int(cmd.enabled), special, field(exe, 260), field(cmd.args, 260), 1,
                int(cmd.ensure_file is not None),
                field(cmd.ensure_file, 260) if cmd.ensure_file is not None else bytes(260),
                int(cmd.use_proc_win),
            ]
            if new_format:
                args.append(int(cmd.no_wait))
            out.append(st.pack(*args))
    return b''.join(out)


def _check_cmdseq(seqs) -> Optional[str]:
    from srctools import cmdseq
    want = _dump_cmdseq(seqs)
    f = io.BytesIO()
    cmdseq.write(seqs, f)
    b1 = f.getvalue()
    got = cmdseq.parse(io.BytesIO(b1))
    r = _diff(want, _dump_cmdseq(got), 'reread')
    if r:
        return r
    f = io.BytesIO()
    cmdseq.write(got, f)
    r = _bytes_diff('rewrite', b1, f.getvalue())
    if r:
        return r
    # Layout cross-check against the independent encoder (v0.2), then both reader versions with
    # junk after the terminators.
    ref = _cmdseq_ref_encode(seqs, True)
    if ref != b1:
        return _bytes_diff('layout(v0.2 reference encoder)', ref, b1)
    junk = random.Random(len(b1))
    r = _diff(want, _dump_cmdseq(cmdseq.parse(io.BytesIO(_cmdseq_ref_encode(seqs, True, junk)))), 'read-v0.2-junk')
    if r:
        return r
    old_want = [(n, [dict(c, no_wait=False) for c in cmds]) for n, cmds in want]
    r = _diff(old_want, _dump_cmdseq(cmdseq.parse(io.BytesIO(_cmdseq_ref_encode(seqs, False, junk)))), 'read-v0.1')
    return r


def _describe_cmdseq(seqs) -> str:
    parts = []
    for name, cmds in seqs.items():
        cs = []
        for c in cmds:
            exe = c.exe.name if not isinstance(c.exe, str) else _short(c.exe, 16)
            cs.append(f'{exe}/{len(c.args)}a/{"E" if c.enabled else "e"}'
                      f'{"-" if c.ensure_file is None else len(c.ensure_file)}'
                      f'{"P" if c.use_proc_win else "p"}{"N" if c.no_wait else "n"}')
        parts.append(f'{_short(name, 16)}:[{", ".join(cs)}]')
    return 'cmdseq{' + '; '.join(parts) + '}'


def _cmdseq_targeted() -> List[Tuple[str, Callable[[], Any]]]:
    def C(*a, **k):
        from srctools.cmdseq import Command
        return Command(*a, **k)

    def all_specials():
        from srctools.cmdseq import SpecialCommand
        return {'specials': [C(s, 'a b', ensure_file='x') for s in SpecialCommand]}

    return [
        ('empty_file', lambda: {}),
        ('empty_sequence', lambda: {'Empty': []}),
        ('several_empty', lambda: {'': [], 'b': [], 'c': []}),
        ('all_specials', all_specials),
        ('max_width_fields', lambda: {'n' * 128: [C('e' * 260, 'a' * 260, ensure_file='f' * 260)]}),
        ('max_minus_one', lambda: {'n' * 127: [C('e' * 259, 'a' * 259, ensure_file='f' * 259)]}),
        ('empty_strings', lambda: {'': [C('', '', ensure_file='')]}),
        ('ensure_none_vs_empty', lambda: {'s': [C('x', '', ensure_file=None), C('x', '', ensure_file='')]}),
        ('all_flag_combos', lambda: {'s': [
            C('x', 'y', enabled=bool(i & 1), use_proc_win=bool(i & 2), no_wait=bool(i & 4)) for i in range(8)]}),
        ('exe_named_like_special', lambda: {'s': [C('Change Directory', '$path'), C('Copy File', 'a b')]}),
        ('control_chars', lambda: {'s\t\x01': [C('a\x7f\x1a', '\r\n')]}),
        ('default_hl2_like', lambda: {'Default': [
            C('$bsp_exe', '-game $gamedir $path\\$file'),
            C('$vis_exe', '-game $gamedir $path\\$file'),
            C('$light_exe', '-game $gamedir $path\\$file', ensure_file='$path\\$file.bsp'),
            C(_special('COPY_FILE'), '$path\\$file.bsp $bspdir\\$file.bsp'),
            C('$game_exe', '-dev -console +map $file', use_proc_win=False, no_wait=True),
        ]}),
    ]


def _special(name: str):
    from srctools.cmdseq import SpecialCommand
    return SpecialCommand[name]


# ---------------------------------------------------------------------------------------------
# 2. sndscript
# Value: list[Sound] (one soundscript file); names unique after casefolding.
# Writer: Sound.export per sound into one text file.  Reader: Sound.parse(Keyvalues.parse(text))
# with the library defaults (escapes enabled).
# Canonicalisation applied by dump (documented, not defects):
#   * Pitch members are floats and compare by float value (PITCH_NORM is not written at all and
#     is read back as 100.0).
#   * a stack that is None equals an empty stack; the stack root's own name is ignored.
#   * force_v2 is compared as "force_v2 or any stack non-empty" (non-empty stacks force v2).
# Numbers are generated as floats only (an int level 75 would be written '75' and rewritten '75.0').
# ---------------------------------------------------------------------------------------------

_SND_NUMS = [0.0, 0.5, 1.0, 0.25, 0.75, 0.8, 0.35, 1.5, 2.0, 10.0, 60.0, 75.0, 80.0, 95.0, 100.0, 120.0, 140.0,
             255.0, 0.1, 1e-05, 123.456, -1.0, -0.0, 1e+16]
_SND_CHARS = '*@#<>^)}$!?('
_SND_NAME = 'abcdefghijklmnopqrstuvwxyzABCDEFGHIJKLMNOPQRSTUVWXYZ0123456789_. -'


def _snd_num(rng: random.Random) -> float:
    k = rng.randrange(4)
    if k == 0:
        return round(rng.uniform(0, 200), rng.randrange(0, 4))
    if k == 1:
        return rng.uniform(-1, 300)
    return rng.choice(_SND_NUMS)


def _snd_interval(rng: random.Random, members: list):
    """Single enum, single float, or a (low, high) pair mixing both."""
    def one():
        return rng.choice(members) if rng.random() < 0.5 else _snd_num(rng)
    k = rng.randrange(10)
    if k < 3:
        m = rng.choice(members)
        return (m, m)
    if k < 6:
        x = _snd_num(rng)
        return (x, x)
    return (one(), one())


def _gen_kv_tree(rng: random.Random, name_alpha: str, val_alpha: str, depth: int, blocks_only: bool = False):
    """A list of Keyvalues children (leaves and nested blocks)."""
    from srctools.keyvalues import Keyvalues
    out = []
    for _ in range(rng.choice([0, 1, 1, 2, 3])):
        name = _text(rng, name_alpha, rng.choice([1, 2, 5, 9]))
        if depth > 0 and (blocks_only or rng.random() < 0.35):
            out.append(Keyvalues(name, _gen_kv_tree(rng, name_alpha, val_alpha, depth - 1)))
        elif not blocks_only:
            out.append(Keyvalues(name, _text(rng, val_alpha, rng.choice([0, 1, 3, 8]))))
    return out


def _gen_sndscript(rng: random.Random):
    from srctools.sndscript import Sound, Channel, Level, Pitch, VOL_NORM
    from srctools.keyvalues import Keyvalues
    # Flavours keep inputs that trip already-known defects to a fraction of the seeds.
    allow_ranges = rng.random() < 0.30   # (low, high) intervals
    hard_text = rng.random() < 0.10   # backslash / quote / tab / newline in name or wave
    sounds = []
    seen = set()
    for _ in range(rng.choice([1, 1, 2, 3])):
        name = rng.choice(['Weapon_Pistol.Single', 'NPC_Turret.Ping', 'ambient.x', '']) \
            if rng.random() < 0.3 else _text(rng, _SND_NAME, rng.choice([1, 4, 12, 40]))
        if hard_text and rng.random() < 0.5:
            name += rng.choice(['\\', '"', '\t', 'a\\tb'])
        if name.casefold() in seen:
            continue
        seen.add(name.casefold())
        waves = []
        for _ in range(rng.choice([0, 1, 1, 1, 2, 4])):
            w = _text(rng, _SND_CHARS, rng.choice([0, 0, 1, 2])) + rng.choice([
                'weapons/pistol/fire1.wav', 'npc/turret_floor/ping.wav', 'common/null.wav', 'a b.mp3', 'x',
                _text(rng, _SND_NAME + '/', rng.choice([0, 3, 20])),
            ])
            if hard_text and rng.random() < 0.6:
                w = rng.choice(['npc\\turret\\ping.wav', 'a"b.wav', 'x\\', 'music\\n1.mp3', 'tab\there.wav'])
            waves.append(w)

        def interval(members):
            iv = _snd_interval(rng, members)
            return iv if (allow_ranges or iv[0] == iv[1]) else (iv[0], iv[0])

        chan: Any = rng.choice(list(Channel)) if rng.random() < 0.75 else rng.choice([0, 1, 6, 8, 9, 136, -1])
        stacks = [None, None, None]
        if rng.random() < 0.35:
            for i in range(3):
                if rng.random() < 0.5:
                    val_alpha = _SND_NAME + ("\\\"\t\n'" if rng.random() < 0.3 else '')
                    stacks[i] = Keyvalues(rng.choice(['', 'start_stack', 'x']), _gen_kv_tree(rng, _IDENT, val_alpha, 2))
        # Exercise both constructor forms: scalar and tuple.
        vol = interval([VOL_NORM])
        sounds.append(Sound(
            name, waves,
            volume=vol[0] if vol[0] == vol[1] and rng.random() < 0.5 else vol,
            channel=chan,
            level=interval(list(Level)),
            pitch=interval(list(Pitch)),
            stack_start=stacks[0], stack_update=stacks[1], stack_stop=stacks[2],
            force_v2=rng.random() < 0.25,
        ))
    return sounds


def _dump_kv(kv) -> Any:
    """Keyvalues -> (real_name, str | [children])."""
    if kv.has_children():
        return (kv.real_name, [_dump_kv(c) for c in kv])
    return (kv.real_name, kv.value)


def _dump_snd_num(x) -> Any:
    import enum
    if isinstance(x, float):          # includes Pitch members (float subclass)
        return float(x)
    if isinstance(x, enum.Enum):
        return ('enum', type(x).__name__, x.name)
    if isinstance(x, int) and not isinstance(x, bool):
        return float(x)
    return ('other', repr(x))


def _dump_sound(snd) -> dict:
    import enum
    stacks = {}
    any_stack = False
    for key in ('stack_start', 'stack_update', 'stack_stop'):
        raw = getattr(snd, '_' + key)      # avoid the property: it mutates (lazily creates) the stack
        children = [] if raw is None else [_dump_kv(c) for c in raw]
        any_stack = any_stack or bool(children)
        stacks[key] = children
    chan = snd.channel
    d = {
        'name': snd.name,
        'sounds': list(snd.sounds),
        'volume': [_dump_snd_num(x) for x in snd.volume],
        'channel': ('enum', chan.name) if isinstance(chan, enum.Enum) else ('int', chan),
        'level': [_dump_snd_num(x) for x in snd.level],
        'pitch': [_dump_snd_num(x) for x in snd.pitch],
        'v2': bool(snd.force_v2) or any_stack,
    }
    d.update(stacks)
    return d


def _snd_write(sounds) -> str:
    f = io.StringIO()
    for snd in sounds:
        snd.export(f)
    return f.getvalue()


def _check_sndscript(sounds) -> Optional[str]:
    from srctools.sndscript import Sound
    from srctools.keyvalues import Keyvalues
    want = [_dump_sound(s) for s in sounds]
    t1 = _snd_write(sounds)
    try:
        tree = Keyvalues.parse(t1)
    except Exception as exc:
        return _exc_msg('reread', exc)
    got = Sound.parse(tree)
    keys = list(got)
    want_keys = [s.name.casefold() for s in sounds]
    if keys != want_keys:
        return f'reread: dict keys {_short(keys)} != {_short(want_keys)}'
    r = _diff(want, [_dump_sound(s) for s in got.values()], 'reread')
    if r:
        return r
    return _bytes_diff('rewrite', t1, _snd_write(list(got.values())))


def _describe_sndscript(sounds) -> str:
    parts = []
    for s in sounds:
        d = _dump_sound(s)
        stk = ''.join(c if d[k] else '-' for c, k in zip('SUP', ('stack_start', 'stack_update', 'stack_stop')))

        def iv(pair):
            a, b = [x[2] if isinstance(x, tuple) else x for x in pair]
            return f'{a}' if a == b and type(a) is type(b) else f'{a}..{b}'
        parts.append(f'{s.name!r} waves={s.sounds!r} vol={iv(d["volume"])} chan={d["channel"][1]} '
                     f'lvl={iv(d["level"])} pitch={iv(d["pitch"])} v2={int(s.force_v2)} stacks={stk}')
    return 'sndscript[' + ' | '.join(parts) + ']'


def _sndscript_targeted() -> List[Tuple[str, Callable[[], Any]]]:
    def S(*a, **k):
        from srctools.sndscript import Sound
        return Sound(*a, **k)

    def KV(name, val):
        from srctools.keyvalues import Keyvalues
        return Keyvalues(name, val)

    def each_member(which):
        def make():
            from srctools import sndscript
            out = []
            if which == 'channel':
                for m in sndscript.Channel:
                    out.append(S(f'c.{m.name}', ['a.wav'], channel=m))
            elif which == 'level':
                for m in sndscript.Level:
                    out.append(S(f'l.{m.name}', ['a.wav'], level=m))
            elif which == 'pitch':
                for m in sndscript.Pitch:
                    out.append(S(f'p.{m.name}', ['a.wav'], pitch=m))
            return out
        return make

    def vol_norm():
        from srctools.sndscript import VOL_NORM
        return [S('v.norm', ['a.wav'], volume=VOL_NORM), S('v.one', ['a.wav'], volume=1.0),
                S('v.half', ['a.wav'], volume=0.5)]

    def ranges():
        from srctools.sndscript import VOL_NORM, Level, Pitch
        return [S('r', ['a.wav'], volume=(0.5, VOL_NORM), level=(Level.SNDLVL_IDLE, Level.SNDLVL_90dB),
                  pitch=(Pitch.PITCH_LOW, Pitch.PITCH_HIGH)),
                S('r2', ['a.wav'], level=(Level.SNDLVL_NONE, 80.0), pitch=(90.0, Pitch.PITCH_NORM))]

    return [
        ('defaults', lambda: [S('Default.Sound', ['common/null.wav'])]),
        ('all_channels', each_member('channel')),
        ('all_levels', each_member('level')),
        ('all_pitches', each_member('pitch')),
        ('vol_norm_vs_one', vol_norm),
        ('int_channels', lambda: [S(f'chan.{i}', ['a.wav'], channel=i) for i in (0, 1, 6, 8, 136, -1)]),
        ('no_waves', lambda: [S('empty', [])]),
        ('many_waves', lambda: [S('multi', [')a.wav', '*b.wav', '#c.mp3', 'd e.wav'])]),
        ('float_singles', lambda: [S('f', ['a.wav'], volume=0.35, level=82.5, pitch=104.25)]),
        ('float_range_volume', lambda: [S('r', ['a.wav'], volume=(0.5, 0.75))]),
        ('float_range_pitch', lambda: [S('r', ['a.wav'], pitch=(95.0, 105.0))]),
        ('mixed_ranges', ranges),
        ('force_v2_no_stacks', lambda: [S('v2', ['a.wav'], force_v2=True)]),
        ('only_update_stack', lambda: [S('st', ['a.wav'], stack_update=KV('', [
            KV('import_stack', 'p2_update_default'),
            KV('mixer', [KV('mixgroup', 'testChamberMusic'), KV('nested', [])])]))]),
        ('all_three_stacks', lambda: [S('st', ['a.wav'], force_v2=True,
                                        stack_start=KV('start_stack', [KV('import_stack', 'a')]),
                                        stack_update=KV('', [KV('b', [KV('c', 'd')])]),
                                        stack_stop=KV('x', [KV('e', 'f g')]))]),
        ('stack_values_with_escapes', lambda: [S('st', ['a.wav'], stack_start=KV('', [KV('k', 'a\\b "q" \t\n')]))]),
        ('wave_backslash_path', lambda: [S('bs', ['npc\\turret_floor\\ping.wav'])]),
        ('name_with_quote', lambda: [S('a"b', ['a.wav'])]),
        ('several_sounds', lambda: [S('A.a', ['a.wav']), S('b.B', [], force_v2=True), S('', ['x'])]),
    ]


# ---------------------------------------------------------------------------------------------
# 3. vmt
# Value: Material.  Reader Material.parse(text) (escapes disabled, [] strings enabled).
# Representable strings: anything without '"' (no escape mechanism in VMTs) and without '\r'
# (normalised to '\n' inside quoted strings).  Further restrictions:
#   * shader non-empty;
#   * top-level blocks are real blocks (a leaf would be read back as a parameter) and are not
#     named "proxies" (those are merged into Material.proxies);
#   * parameter names unique after casefolding (guaranteed by the mapping).
# ---------------------------------------------------------------------------------------------

_VMT_SHADERS = ['LightmappedGeneric', 'VertexLitGeneric', 'UnlitGeneric', 'Patch', 'patch', 'Water', 'Refract',
                'Sprite', 'WorldVertexTransition', 'Lightmapped_4WayBlend', 'SDK_Shader.v2', 'a']
_VMT_PARAMS = ['$basetexture', '$bumpmap', '$surfaceprop', '%keywords', '%compilenodraw', '$envmap', '$color',
               '$BaseTextureTransform', '$alpha', '$translucent', 'include', '$detail', '$detailscale',
               'gpu>=2?$envmap', '!srgb?$color2', '360?$x', '$c0_x', '%tooltexture', '$phong', '$EnvMapTint']
_VMT_VALUES = ['', '1', '0', '0.5', '.25', 'concrete', 'brick/brickwall001a', 'models\\props\\metal_box',
               'env_cubemap', '[1 1 1]', '[ .5 .5 .5 ]', '{255 128 0}', 'center .5 .5 scale 1 1 rotate 0 translate 0 0',
               'materials/foo/bar.vmt', "it's", 'a,b', 'a=b', 'a;b', 'tab\tsep', 'two\nlines', 'trail\\',
               'a//b', 'a/*b*/', 'x#y', 'http://x/y', '(paren)', ' lead', 'trail ', '0 0 0', '$other']
_VMT_BARE = _IDENT + '$%/\\.-+*<>?!&|^~:@#'      # never needs quotes (as long as it is not first: / #)
_VMT_QUOTED = " \t\n'{}[]();,="                  # forces quoting
_VMT_BLOCK_NAMES = ['insert', 'replace', 'Insert', 'REPLACE', '>=dx90_20b', '<dx90', 'gpu<2', 'srgb?', 'Fallback',
                    'LightmappedGeneric_DX8', 'LightmappedGeneric_hdr_dx9', 'a b', 'x\\y']
_VMT_PROXY_NAMES = ['Sine', 'TextureScroll', 'AnimatedTexture', 'Equals', 'LinearRamp', 'PlayerProximity', 'a b']
_VMT_PROXY_KEYS = ['resultVar', 'srcVar1', 'sineperiod', 'sinemin', 'sinemax', 'textureScrollVar',
                   'textureScrollRate', 'animatedtexturevar', 'animatedtextureframerate']


def _vmt_str(rng: random.Random, pool: List[str], alpha: str, allow_empty: bool) -> str:
    if rng.random() < 0.6:
        s = rng.choice(pool)
    else:
        s = _text(rng, alpha, rng.choice([1, 2, 5, 12, 30]))
    if not s and not allow_empty:
        s = 'x'
    return s


def _vmt_fix_lead(s: str) -> str:
    """Avoid a leading '/' or '#' (only generated deliberately, in the 'lead' flavour)."""
    return ('x' + s) if s[:1] in ('/', '#') else s


def _vmt_kv_children(rng: random.Random, depth: int, esc: bool, names: List[str]):
    from srctools.keyvalues import Keyvalues
    # Leaves inside blocks go through Keyvalues.serialise (escaping) but are read without escapes:
    # keep backslash, tab, newline and apostrophe out unless the 'esc' flavour is active.
    val_alpha = _IDENT + '$%/.-+*<>?!:@# {}[]();,=' + ("\\\t\n'" if esc else '')
    out = []
    for _ in range(rng.choice([0, 1, 2, 2, 4])):
        if depth > 0 and rng.random() < 0.3:
            name = rng.choice(_VMT_BLOCK_NAMES + ['Proxies', 'proxies'] + _VMT_PROXY_NAMES)
            out.append(Keyvalues(name, _vmt_kv_children(rng, depth - 1, esc, names)))
        else:
            name = rng.choice(names) if rng.random() < 0.7 else _text(rng, val_alpha, rng.choice([0, 1, 4, 9]))
            pool = [v for v in _VMT_VALUES if esc or not (set(v) & set("\\\t\n'"))]
            val = rng.choice(pool) if rng.random() < 0.6 else _text(rng, val_alpha, rng.choice([0, 1, 4, 15]))
            out.append(Keyvalues(name, val))
    return out


def _gen_vmt(rng: random.Random):
    from srctools.vmt import Material
    from srctools.keyvalues import Keyvalues
    quote_shader = rng.random() < 0.07    # shader name that needs quotes
    lead = rng.random() < 0.07            # parameter name/value starting with / or #, or empty name
    esc = rng.random() < 0.10             # escapable characters inside block / proxy leaves

    shader = rng.choice(_VMT_SHADERS) if rng.random() < 0.8 else _text(rng, _VMT_BARE, rng.choice([1, 3, 10]))
    shader = _vmt_fix_lead(shader)
    if quote_shader:
        shader = rng.choice(['My Shader', 'a{b', "it's", 'x,y', 'tab\tbed', '[gen]', '#include', '/x', 'a=b'])

    params: Dict[str, str] = {}
    for _ in range(rng.choice([0, 1, 2, 3, 5, 9])):
        name = _vmt_fix_lead(_vmt_str(rng, _VMT_PARAMS, _VMT_BARE + _VMT_QUOTED, False))
        value = _vmt_str(rng, _VMT_VALUES, _VMT_BARE + _VMT_QUOTED, True)
        value = _vmt_fix_lead(value) if value else value
        if lead and rng.random() < 0.5:
            k = rng.randrange(3)
            if k == 0:
                value = rng.choice(['/dev/null', '#define', '//c', '/*x*/', '#'])
            elif k == 1:
                name = rng.choice(['/name', '#name'])
            else:
                name = ''
        if name.casefold() in (k.casefold() for k in params):
            continue
        params[name] = value

    blocks = []
    for _ in range(rng.choice([0, 0, 1, 1, 2, 3])):
        blocks.append(Keyvalues(rng.choice(_VMT_BLOCK_NAMES), _vmt_kv_children(rng, 2, esc, _VMT_PARAMS)))
    proxies = []
    for _ in range(rng.choice([0, 0, 1, 2, 4])):
        if rng.random() < 0.12:
            proxies.append(Keyvalues(rng.choice(_VMT_PROXY_KEYS), 'leaf'))  # leaf directly inside Proxies
        else:
            proxies.append(Keyvalues(rng.choice(_VMT_PROXY_NAMES), _vmt_kv_children(rng, 1, esc, _VMT_PROXY_KEYS)))
    return Material(shader, params, blocks, proxies)


def _dump_vmt(mat) -> dict:
    return {
        'shader': mat.shader,
        'params': [(name, mat[name]) for name in mat],       # original-case names, in order
        'blocks': [_dump_kv(b) for b in mat.blocks],
        'proxies': [_dump_kv(p) for p in mat.proxies],
    }


def _vmt_write(mat) -> str:
    f = io.StringIO()
    mat.export(f)
    return f.getvalue()


def _check_vmt(mat) -> Optional[str]:
    from srctools.vmt import Material
    want = _dump_vmt(mat)
    t1 = _vmt_write(mat)
    try:
        got = Material.parse(t1, 'generated.vmt')
    except Exception as exc:
        return _exc_msg('reread', exc)
    r = _diff(want, _dump_vmt(got), 'reread')
    if r:
        return r
    return _bytes_diff('rewrite', t1, _vmt_write(got))


def _describe_vmt(mat) -> str:
    d = _dump_vmt(mat)
    return f'vmt(shader={d["shader"]!r}, params={d["params"]!r}, blocks={d["blocks"]!r}, proxies={d["proxies"]!r})'


def _vmt_targeted() -> List[Tuple[str, Callable[[], Any]]]:
    def M(*a, **k):
        from srctools.vmt import Material
        return Material(*a, **k)

    def KV(name, val):
        from srctools.keyvalues import Keyvalues
        return Keyvalues(name, val)

    return [
        ('bare_minimum', lambda: M('UnlitGeneric')),
        ('typical', lambda: M('LightmappedGeneric', {
            '$basetexture': 'brick/brickwall001a', '$surfaceprop': 'brick', '%keywords': 'a,b', '$envmaptint': '[.5 .5 .5]'})),
        ('empty_value', lambda: M('VertexLitGeneric', {'%compilenodraw': '', '$x': ''})),
        ('values_needing_quotes', lambda: M('VertexLitGeneric', {
            '$a': 'a b', '$b': "it's", '$c': '{255 0 0}', '$d': '[1 2 3]', '$e': '(x)', '$f': 'a;b', '$g': 'a,b',
            '$h': 'a=b', '$i': 'tab\tx', '$j': 'two\nlines'})),
        ('names_needing_quotes', lambda: M('VertexLitGeneric', {'$a b': '1', "it's": '2', '[x]': '3', 'a=b': '4'})),
        ('backslash_param_values', lambda: M('VertexLitGeneric', {'$basetexture': 'models\\props\\tbox', '$x': 'trail\\'})),
        ('comment_like_inside_bare', lambda: M('VertexLitGeneric', {'$a': 'a//b', '$b': 'a/*b*/c', '$c': 'x#y'})),
        ('conditional_names', lambda: M('VertexLitGeneric', {'gpu>=2?$envmap': 'env_cubemap', '!srgb?$color2': '[1 1 1]'})),
        ('case_preserved', lambda: M('vertexlitgeneric', {'$BaseTexture': 'A/B', '$BUMPMAP': 'c'})),
        ('fallback_blocks', lambda: M('LightmappedGeneric', {'$basetexture': 'a'}, [
            KV('LightmappedGeneric_DX8', [KV('$basetexture', 'b')]), KV('>=dx90_20b', [KV('$x', '1'), KV('sub', [])])])),
        ('empty_block', lambda: M('LightmappedGeneric', {}, [KV('Fallback', [])])),
        ('patch_insert_replace', lambda: M('Patch', {'include': 'materials/a/b.vmt'}, [
            KV('insert', [KV('$newparam', '1'), KV('$gone', '')]),
            KV('replace', [KV('$basetexture', 'x/y'), KV('Proxies', [KV('Sine', [KV('resultVar', '$alpha')])])])])),
        ('proxies', lambda: M('UnlitGeneric', {'$basetexture': 'a'}, (), [
            KV('Sine', [KV('resultVar', '$alpha'), KV('sineperiod', '8')]),
            KV('TextureScroll', [KV('texturescrollvar', '$basetexturetransform'), KV('textureScrollRate', '.25')]),
            KV('Empty', [])])),
        ('proxy_leaf_and_nested', lambda: M('UnlitGeneric', {}, (), [KV('leaf', 'v'), KV('A', [KV('B', [KV('c', 'd')])])])),
        ('shader_needing_quotes', lambda: M('My Shader', {'$a': '1'})),
        ('value_leading_slash', lambda: M('UnlitGeneric', {'$basetexture': '/dev/x'})),
        ('value_leading_hash', lambda: M('UnlitGeneric', {'$note': '#1'})),
        ('empty_param_name', lambda: M('UnlitGeneric', {'': 'v'})),
        ('block_leaf_backslash', lambda: M('Patch', {'include': 'a.vmt'}, [KV('insert', [KV('$basetexture', 'models\\a\\b')])])),
        ('proxy_leaf_apostrophe', lambda: M('UnlitGeneric', {}, (), [KV('Sine', [KV('resultVar', "it's")])])),
    ]


# ---------------------------------------------------------------------------------------------
# 4. smd
# Value: Mesh.  Writer Mesh.export(binary file), reader Mesh.parse_smd(lines).
# Representable:
#   * bone names: ASCII without '"' and without the reader's comment markers ('//', '#', ';');
#     unique; every parent is itself in Mesh.bones; dict key == bone.name.
#   * material names: ASCII, non-empty, not 'end', no comment markers, no leading/trailing
#     whitespace, no trailing slash and no extension (the reader documents that it strips them).
#   * a vertex with a single link carries weight 1.0 (the format only stores the bone then).
#   * positions / normals / UVs / weights: multiples of 1/64 (exact under %.6f); rotations compared
#     with tolerance (see module docstring).
# Mesh.bones and Mesh.animation are compared as mappings (order-insensitive): the writer
# renumbers bones and sorts frames by time.
# ---------------------------------------------------------------------------------------------

_SMD_BONE_ALPHA = _IDENT + ' .-:()[]<>!$%&*+=?@^~|,\'\\/'
_SMD_BONES = ['root', 'static_prop', 'ValveBiped.Bip01_Pelvis', 'ValveBiped.Bip01_L_Arm', 'Bone 01', 'a', 'B', 'c.d',
              'joint1', 'joint2', 'joint3', 'weapon_bone', ' lead', 'trail ', '']
_SMD_MATS = ['metal/wall01', 'tools/toolsnodraw', 'concrete', 'a b', 'models\\props\\box', 'MAT_UPPER', 'm1', 'x-y_z',
             'ending', 'nodes', 'triangles', 'version 1', 'time 3', '0']


def _q64(rng: random.Random, lim: int) -> float:
    k = rng.randrange(5)
    if k == 0:
        return rng.choice([0.0, -0.0, 1.0, -1.0, 0.5, 0.015625, -0.015625, float(lim), float(-lim)])
    if k == 1:
        return float(rng.randint(-lim, lim))
    return rng.randint(-lim * 64, lim * 64) / 64.0


def _smd_vec(rng: random.Random, lim: int):
    from srctools.math import Vec
    return Vec(_q64(rng, lim), _q64(rng, lim), _q64(rng, lim))


def _smd_ang(rng: random.Random):
    from srctools.math import Angle
    def comp() -> float:
        return rng.choice([0.0, 90.0, 180.0, 270.0, 45.0, 359.5, 359.99999, 1e-05, rng.uniform(0, 360), rng.uniform(-720, 720)])
    return Angle(comp(), comp(), comp())


def _gen_smd(rng: random.Random):
    from srctools.smd import Mesh, Bone, BoneFrame, Triangle, Vertex
    multi_link = rng.random() < 0.35
    bones: list = []
    names: set = set()
    for _ in range(rng.choice([1, 1, 2, 3, 4, 6, 9])):
        name = rng.choice(_SMD_BONES) if rng.random() < 0.6 else _text(rng, _SMD_BONE_ALPHA, rng.choice([1, 3, 8, 30]))
        if name in names or '//' in name:
            continue
        names.add(name)
        parent = rng.choice(bones) if bones and rng.random() < 0.75 else None
        bones.append(Bone(name, parent))
    if not bones:
        bones.append(Bone('root', None))
    order = list(bones)
    if rng.random() < 0.5:
        rng.shuffle(order)    # children may come before their parents in the dict
    bone_map = {b.name: b for b in order}

    anim: Dict[int, list] = {}
    times = rng.choice([[], [0], [0], [0, 1, 2], [5, 3], [-3, 7, 100], [2 ** 31 - 1, 0]])
    for t in times:
        frame = []
        sel = [b for b in bones if rng.random() < 0.8]
        if rng.random() < 0.3:
            rng.shuffle(sel)
        for b in sel:
            frame.append(BoneFrame(b, _smd_vec(rng, 4096), _smd_ang(rng)))
        anim[t] = frame

    tris = []
    for _ in range(rng.choice([0, 0, 1, 2, 4])):
        mat = rng.choice(_SMD_MATS) if rng.random() < 0.7 else (
            'm' + _text(rng, _IDENT + ' /\\-', rng.choice([0, 3, 12, 40])).replace('//', '/') + 'z')
        verts = []
        for _ in range(3):
            n = rng.choice([2, 2, 3, 4, 7]) if (multi_link and rng.random() < 0.6) else 1
            if n == 1:
                links = [(rng.choice(bones), 1.0)]
            else:
                links = [(rng.choice(bones), rng.randint(0, 64) / 64.0) for _ in range(n)]
            verts.append(Vertex(_smd_vec(rng, 16384), _smd_vec(rng, 1), _q64(rng, 8), _q64(rng, 8), links))
        if rng.random() < 0.15:
            verts[2] = verts[0]   # shared vertex object
        tris.append(Triangle(mat, *verts))
    return Mesh(bone_map, anim, tris)


def _dump_vec(v) -> list:
    return [float(v.x), float(v.y), float(v.z)]


def _dump_smd(mesh) -> dict:
    bones = {}
    for key in sorted(mesh.bones):
        bone = mesh.bones[key]
        bones[key] = {'name': bone.name, 'parent': None if bone.parent is None else bone.parent.name}
    anim = {}
    for t in sorted(mesh.animation):
        anim[t] = [
            {'bone': fr.bone.name, 'pos': _dump_vec(fr.position), 'rot': _Ang(tuple(fr.rotation))}
            for fr in mesh.animation[t]
        ]
    tris = []
    for tri in mesh.triangles:
        tris.append({'mat': tri.mat, 'verts': [
            {'pos': _dump_vec(v.pos), 'norm': _dump_vec(v.norm), 'u': float(v.tex_u), 'v': float(v.tex_v),
             'links': [(b.name, float(w)) for b, w in v.links]}
            for v in (tri.point1, tri.point2, tri.point3)
        ]})
    return {'bones': bones, 'animation': anim, 'triangles': tris}


def _smd_write(mesh) -> bytes:
    f = io.BytesIO()
    mesh.export(f)
    return f.getvalue()


def _smd_node_names(data: bytes) -> List[bytes]:
    lines = data.split(b'\n')
    try:
        return lines[lines.index(b'nodes') + 1:lines.index(b'end')]
    except ValueError:
        return []


def _check_smd(mesh) -> Optional[str]:
    from srctools.smd import Mesh
    want = _dump_smd(mesh)
    b1 = _smd_write(mesh)
    try:
        got = Mesh.parse_smd(io.BytesIO(b1))
    except Exception as exc:
        return _exc_msg('reread', exc)
    r = _diff(want, _dump_smd(got), 'reread')
    if r:
        return r
    b2 = _smd_write(got)
    if b1 != b2:
        n1 = [ln.split(b'"')[1] for ln in _smd_node_names(b1)]
        n2 = [ln.split(b'"')[1] for ln in _smd_node_names(b2)]
        if n1 != n2 and sorted(n1) == sorted(n2):
            return f'rewrite: not identical, bones renumbered -- node order {_short(n1, 60)} became {_short(n2, 60)}'
        return _bytes_diff('rewrite', b1, b2)
    return None


def _describe_smd(mesh) -> str:
    bones = ', '.join(f'{b.name!r}<{b.parent.name if b.parent else None!r}' for b in mesh.bones.values())
    anim = {t: len(fr) for t, fr in mesh.animation.items()}
    tris = [(t.mat, [len(v.links) for v in (t.point1, t.point2, t.point3)]) for t in mesh.triangles]
    return f'smd(bones=[{bones}], frames={anim}, tris(mat, links per vertex)={tris})'


def _smd_targeted() -> List[Tuple[str, Callable[[], Any]]]:
    def mk(bone_spec, times=(0,), tris=()):
        """bone_spec: [(name, parent_name)], tris: [(mat, [[(bone, weight), ...] * 3])]"""
        from srctools.smd import Mesh, Bone, BoneFrame, Triangle, Vertex
        from srctools.math import Vec, Angle
        bones: Dict[str, Any] = {}
        for name, _ in bone_spec:
            bones[name] = Bone(name, None)
        for name, parent in bone_spec:
            bones[name].parent = bones[parent] if parent is not None else None
        anim = {t: [BoneFrame(b, Vec(i, t % 1000, -i / 4), Angle(0, 90 * i, 45)) for i, b in enumerate(bones.values())]
                for t in times}
        out = []
        for mat, vlinks in tris:
            verts = [Vertex(Vec(i, 2 * i, 0.5), Vec(0, 0, 1), i / 2, 1 - i / 4, [(bones[b], w) for b, w in links])
                     for i, links in enumerate(vlinks)]
            out.append(Triangle(mat, *verts))
        return Mesh(bones, anim, out)

    def blank():
        from srctools.smd import Mesh
        return Mesh.blank('static_prop')

    def bbox():
        from srctools.smd import Mesh
        from srctools.math import Vec
        mesh = Mesh.build_bbox('static_prop', 'tools/toolsnodraw', Vec(-16, -16, 0), Vec(16, 16, 72))
        for tri in mesh.triangles:      # build_bbox normals are (+-1,+-1,+-1)/sqrt(3): not exact under %.6f
            for vert in tri:
                vert.norm = Vec(0.0, 0.0, 1.0)
        return mesh

    def no_bones():
        from srctools.smd import Mesh
        return Mesh({}, {}, [])

    def empty_frames():
        mesh = mk([('root', None)], times=())
        mesh.animation = {0: [], 4: []}
        return mesh

    one = [[('root', 1.0)]] * 3
    return [
        ('blank', blank),
        ('bbox', bbox),
        ('no_bones_no_frames', no_bones),
        ('no_animation_frames', lambda: mk([('root', None)], times=())),
        ('empty_frames', empty_frames),
        ('chain_hierarchy', lambda: mk([('a', None), ('b', 'a'), ('c', 'b'), ('d', 'c')], times=(0, 1, 2))),
        ('child_listed_before_parent', lambda: mk([('child', 'parent'), ('parent', None)])),
        ('two_roots', lambda: mk([('r1', None), ('r2', None), ('k', 'r2')])),
        ('negative_and_unsorted_times', lambda: mk([('root', None)], times=(7, -3, 100))),
        ('single_link_triangle', lambda: mk([('root', None)], tris=[('metal/wall01', one)])),
        ('single_link_non_root', lambda: mk([('root', None), ('arm', 'root')], tris=[('m', [[('arm', 1.0)]] * 3)])),
        ('two_links', lambda: mk([('root', None), ('arm', 'root')],
                                 tris=[('m', [[('root', 0.5), ('arm', 0.5)]] * 3)])),
        ('mixed_link_counts', lambda: mk([('root', None), ('arm', 'root'), ('hand', 'arm')], tris=[
            ('m', [[('root', 1.0)], [('root', 0.25), ('arm', 0.75)], [('root', 0.25), ('arm', 0.25), ('hand', 0.5)]])])),
        ('material_with_spaces_and_backslash', lambda: mk([('root', None)], tris=[('my mat\\sub dir/x', one)])),
        ('material_keyword_lookalikes', lambda: mk([('root', None)], tris=[('nodes', one), ('ending', one), ('time 3', one)])),
        ('bone_name_punctuation', lambda: mk([("ValveBiped.Bip01 L_Arm (1)'", None)])),
    ]


# ---------------------------------------------------------------------------------------------
# 5. pcf
# Value: list[Particle] (one PCF file).  Writer: Particle.export(list) -> DMX Element tree, then
# each of: direct Element hand-over, binary DMX (v2 and v5, fmt 'pcf' v2/v1) and KV2 text.
# Reader: Particle.parse(file-or-Element).
# Element UUIDs are random per Element(); before serialising, the exported tree is renumbered
# deterministically (traversal order) so that "byte-identical" is meaningful.
# Representable:
#   * system names unique after casefolding; children refer to systems in the same file.
#     A Child is a reference: it is compared by casefolded name (the reader returns the target's
#     spelling).
#   * option / operator-option dict keys equal attr.name.casefold(); attribute names are not any
#     of the structural names ('name' aside, see below; 'functionName', the six operator lists,
#     'children'); no ELEMENT-typed options.
#   * floats are multiples of 1/64 (exact as float32 and within KV2's 6 decimals), ints 32-bit, strings printable ASCII without '"' and '\\' (the DMX
#     encodings themselves are the subject of C14, not of this contract).
# The reader puts the DMX 'name' attribute into Particle.options / Operator.options; the generator
# therefore produces both shapes: "parsed shape" (with a leading, consistent 'name' attribute)
# and "constructed shape" (without it).
# ---------------------------------------------------------------------------------------------

def _pcf_renamed(rename_operator: bool):
    """What Particle.parse() returns for a one-system file, after the caller renamed the system / its operator."""
    import io
    from srctools.dmx import Element
    from srctools.particles import Particle, Operator
    buf = io.BytesIO()
    Particle.export([Particle('old_name', {}, operators=[Operator('old_op', 'f', {})])]).export_binary(buf, 5)
    buf.seek(0)
    [part] = Particle.parse(Element.parse(buf)[0]).values()
    if rename_operator:
        part.operators[0].name = 'new_op'
    else:
        part.name = 'new_name'
    return [part]


_PCF_OP_LISTS = ['renderers', 'operators', 'initializers', 'emitters', 'forces', 'constraints']
_PCF_RESERVED = {'name', 'functionname', 'children', *_PCF_OP_LISTS}
_PCF_STR = _IDENT + ' ./-_:;<>()[]{}!?#$%&*+=@^~|,\''
_PCF_OPT_NAMES = ['max_particles', 'initial_particles', 'material', 'bounding_box_min', 'bounding_box_max',
                  'cull_radius', 'cull_cost', 'cull_control_point', 'cull_replacement_definition', 'radius',
                  'color', 'rotation', 'rotation_speed', 'sequence_number', 'batch particle systems',
                  'view model effect', 'control point to disable rendering if it is the camera', 'preventNameBasedLookup']
_PCF_OP_OPT_NAMES = ['operator start fadein', 'operator end fadeout', 'operator fade oscillate', 'emission_rate',
                     'emission_duration', 'lifetime_min', 'lifetime_max', 'radius_min', 'radius_max', 'color1',
                     'color2', 'tint_perc', 'animation rate', 'orientation_type', 'gravity', 'drag',
                     'Visibility Proxy Input Control Point Number', 'Visibility Proxy Radius', 'distance_bias']
_PCF_FUNCS = ['render_animated_sprites', 'render_rope', 'Lifespan Decay', 'Movement Basic', 'Alpha Fade Out Random',
              'Position Within Sphere Random', 'Lifetime Random', 'Color Random', 'emit_continuously',
              'emit_instantaneously', 'random force', 'Pull towards control point', 'Constrain distance to control point', '']
_PCF_SYS_NAMES = ['portal_1_edge', 'Explosion_Core', 'water_splash_01', 'fire_small_base', 'a', 'B', 'smoke trail']


def _f32(x: float) -> float:
    return struct.unpack('<f', struct.pack('<f', x))[0]


def _pcf_float(rng: random.Random) -> float:
    """Multiples of 1/64 below 2**17: exact as float32 (binary DMX) and under the 6 decimals of KV2 text."""
    k = rng.randrange(5)
    if k == 0:
        return rng.choice([0.0, 1.0, -1.0, 0.5, 0.25, 255.0, 1024.125, -16384.0, 0.015625])
    if k == 1:
        return float(rng.randint(-1000, 1000))
    x = rng.randint(-4096 * 64, 4096 * 64) / 64.0 if k < 4 else rng.randint(-64, 64) / 64.0
    assert _f32(x) == x
    return x


def _pcf_scalar(rng: random.Random, vt_name: str):
    from srctools import dmx
    from srctools.math import FrozenVec, FrozenAngle, Matrix
    fl = lambda: _pcf_float(rng)
    if vt_name == 'INTEGER':
        return rng.choice([0, 1, -1, 2 ** 31 - 1, -2 ** 31, rng.randint(-10 ** 6, 10 ** 6)])
    if vt_name == 'FLOAT':
        return fl()
    if vt_name == 'BOOL':
        return rng.random() < 0.5
    if vt_name == 'STRING':
        return rng.choice(['', 'particle/smoke1/smoke1', 'effects/spark.vmt']) if rng.random() < 0.5 \
            else _text(rng, _PCF_STR, rng.choice([0, 1, 5, 20]))
    if vt_name == 'BINARY':
        return bytes(rng.randrange(256) for _ in range(rng.choice([0, 1, 5, 17])))
    if vt_name == 'TIME':
        return dmx.Time(rng.randint(-10 ** 7, 10 ** 7) / 10000.0)
    if vt_name == 'COLOR':
        return dmx.Color(*[rng.choice([0, 255, rng.randrange(256)]) for _ in range(4)])
    if vt_name == 'VEC2':
        return dmx.Vec2(fl(), fl())
    if vt_name == 'VEC3':
        return FrozenVec(fl(), fl(), fl())
    if vt_name == 'VEC4':
        return dmx.Vec4(fl(), fl(), fl(), fl())
    if vt_name == 'ANGLE':
        return FrozenAngle(*[rng.choice([0.0, 90.0, 45.5, rng.randint(0, 359 * 64) / 64.0]) for _ in range(3)])
    if vt_name == 'QUATERNION':
        return dmx.Quaternion(fl(), fl(), fl(), fl())
    if vt_name == 'MATRIX':
        m = Matrix()
        for i in range(3):
            for j in range(3):
                m[i, j] = rng.choice([0.0, 1.0, -1.0, rng.randint(-128, 128) / 64.0])
        return m.freeze()
    raise AssertionError(vt_name)


_PCF_TYPES = ['INTEGER', 'FLOAT', 'BOOL', 'STRING', 'BINARY', 'TIME', 'COLOR', 'VEC2', 'VEC3', 'VEC4', 'ANGLE',
              'QUATERNION', 'MATRIX']
_PCF_COMMON_TYPES = ['INTEGER', 'FLOAT', 'BOOL', 'STRING', 'COLOR', 'VEC3']


def _pcf_attr(rng: random.Random, name: str, allow_time: bool):
    from srctools.dmx import Attribute, ValueType
    vt_name = rng.choice(_PCF_COMMON_TYPES) if rng.random() < 0.7 else rng.choice(_PCF_TYPES)
    if vt_name == 'TIME' and not allow_time:
        vt_name = 'FLOAT'
    vt = ValueType[vt_name]
    if rng.random() < 0.12:
        return Attribute(name, vt, [_pcf_scalar(rng, vt_name) for _ in range(rng.choice([0, 1, 3]))])
    return Attribute(name, vt, _pcf_scalar(rng, vt_name))


def _pcf_options(rng: random.Random, owner_name: str, pool: List[str], mixed_case: bool, with_name: bool, allow_time: bool):
    from srctools.dmx import Attribute, ValueType
    opts = {}
    if with_name:
        opts['name'] = Attribute('name', ValueType.STRING, owner_name)
    for _ in range(rng.choice([0, 1, 2, 4, 7])):
        name = rng.choice(pool) if rng.random() < 0.7 else _text(rng, _IDENT + ' ', rng.choice([1, 4, 12]))
        if not mixed_case:
            name = name.casefold()   # flavour: the writer is known to casefold attribute names
        if name.casefold() in _PCF_RESERVED or name.casefold() in opts:
            continue
        opts[name.casefold()] = _pcf_attr(rng, name, allow_time)
    return opts


def _gen_pcf(rng: random.Random):
    from srctools.particles import Particle, Operator, Child
    mixed_case = rng.random() < 0.15     # attribute names with upper-case letters
    with_name = False                    # the reader keeps the DMX 'name' attribute out of the options ('name' is reserved)
    allow_time = rng.random() < 0.5      # TIME attributes need binary v3+, v2 is skipped then
    names: List[str] = []
    for _ in range(rng.choice([0, 1, 1, 2, 3, 5])):
        name = rng.choice(_PCF_SYS_NAMES) if rng.random() < 0.6 else _text(rng, _IDENT + ' ', rng.choice([1, 6, 20]))
        if name.casefold() not in (n.casefold() for n in names):
            names.append(name)
    systems = []
    for name in names:
        part = Particle(name, _pcf_options(rng, name, _PCF_OPT_NAMES, mixed_case, with_name, allow_time))
        for ident in _PCF_OP_LISTS:
            ops = getattr(part, ident)
            for _ in range(rng.choice([0, 0, 1, 1, 2, 3])):
                op_name = rng.choice(_PCF_FUNCS) if rng.random() < 0.7 else _text(rng, _IDENT + ' ', rng.choice([0, 5]))
                ops.append(Operator(op_name, rng.choice(_PCF_FUNCS),
                                    _pcf_options(rng, op_name, _PCF_OP_OPT_NAMES, mixed_case, with_name, allow_time)))
        for _ in range(rng.choice([0, 0, 1, 2, 3])):
            target = rng.choice(names)          # may be itself, may repeat, may form cycles
            part.children.append(Child(rng.choice([target, target, target.upper(), target.casefold()])))
        systems.append(part)
    return systems


_PCF_ACCESS = {
    'INTEGER': 'int', 'FLOAT': 'float', 'BOOL': 'bool', 'STRING': 'str', 'BINARY': 'bin', 'TIME': 'time',
    'COLOR': 'color', 'VEC2': 'vec2', 'VEC3': 'vec3', 'VEC4': 'vec4', 'ANGLE': 'ang', 'QUATERNION': 'quat', 'MATRIX': 'mat',
}


def _dump_dmx_value(vt_name: str, val) -> Any:
    if vt_name in ('INTEGER', 'BOOL', 'STRING', 'BINARY'):
        return val
    if vt_name == 'FLOAT':
        return float(val)
    if vt_name == 'TIME':
        return float(val.value)
    if vt_name == 'COLOR':
        return [val.r, val.g, val.b, val.a]
    if vt_name == 'MATRIX':
        return [float(val[i, j]) for i in range(3) for j in range(3)]
    return [float(c) for c in val]     # vectors, angles, quaternions


def _dump_attr(attr) -> dict:
    vt_name = attr.type.name
    if vt_name == 'ELEMENT':
        return {'name': attr.name, 'type': vt_name, 'array': attr.is_array, 'value': '<elements>'}
    acc = _PCF_ACCESS[vt_name]
    if attr.is_array:
        value: Any = [_dump_dmx_value(vt_name, v) for v in getattr(attr, 'iter_' + acc)()]
    else:
        value = _dump_dmx_value(vt_name, getattr(attr, 'val_' + acc))
    return {'name': attr.name, 'type': vt_name, 'array': attr.is_array, 'value': value}


def _dump_pcf_options(opts) -> list:
    return [(key, _dump_attr(attr)) for key, attr in opts.items()]


def _dump_particle(part) -> dict:
    d: Dict[str, Any] = {'name': part.name, 'options': _dump_pcf_options(part.options)}
    for ident in _PCF_OP_LISTS:
        d[ident] = [
            {'name': op.name, 'function': op.function, 'options': _dump_pcf_options(op.options)}
            for op in getattr(part, ident)
        ]
    d['children'] = [child.particle.casefold() for child in part.children]
    return d


def _pcf_renumber(root) -> None:
    """Give every element of the tree a deterministic UUID (breadth-first, attribute order)."""
    from srctools.dmx import ValueType
    todo = [root]
    seen = {id(root)}
    for elem in todo:
        for attr in elem.values():
            if attr.type is ValueType.ELEMENT:
                for sub in attr.iter_elem():
                    if id(sub) not in seen:
                        seen.add(id(sub))
                        todo.append(sub)
    for i, elem in enumerate(todo):
        elem.uuid = _uuidlib.UUID(int=i + 1)


def _pcf_has_time(systems) -> bool:
    for part in systems:
        attrs = list(part.options.values())
        for ident in _PCF_OP_LISTS:
            for op in getattr(part, ident):
                attrs.extend(op.options.values())
        if any(a.type.name == 'TIME' for a in attrs):
            return True
    return False


_PCF_ENCODINGS = ['element', 'binary5', 'binary2', 'kv2']


def _pcf_write(systems, enc: str):
    """Returns (bytes for comparison, thing to hand to Particle.parse)."""
    from srctools.particles import Particle
    root = Particle.export(list(systems))
    _pcf_renumber(root)
    f = io.BytesIO()
    if enc == 'kv2':
        root.export_kv2(f, fmt_name='pcf', fmt_ver=2)
    elif enc == 'binary2':
        root.export_binary(f, version=2, fmt_name='pcf', fmt_ver=1)
    else:  # binary5, and the canonical bytes used to compare the 'element' path
        root.export_binary(f, version=5, fmt_name='pcf', fmt_ver=2)
    data = f.getvalue()
    return data, (root if enc == 'element' else io.BytesIO(data))


def _check_pcf(systems) -> Optional[str]:
    from srctools.particles import Particle
    want = [_dump_particle(p) for p in systems]
    want_keys = [p.name.casefold() for p in systems]
    has_time = _pcf_has_time(systems)
    for enc in _PCF_ENCODINGS:
        if enc == 'binary2' and has_time:
            continue
        stage = f'{enc} reread'
        try:
            b1, src = _pcf_write(systems, enc)
            got = Particle.parse(src) if enc != 'element' else Particle.parse(src, 2)
        except Exception as exc:
            return _exc_msg(stage, exc)
        if list(got) != want_keys:
            return f'{stage}: dict keys {_short(list(got))} != {_short(want_keys)}'
        r = _diff(want, [_dump_particle(p) for p in got.values()], stage)
        if r:
            return r
        try:
            b2, _ = _pcf_write(list(got.values()), enc)
        except Exception as exc:
            return _exc_msg(f'{enc} rewrite', exc)
        r = _bytes_diff(f'{enc} rewrite', b1, b2)
        if r:
            return r
    return None


def _describe_pcf(systems) -> str:
    def opts(o):
        return '{' + ', '.join(f'{a.name}:{a.type.name}{"[]" if a.is_array else ""}' for a in o.values()) + '}'
    parts = []
    for p in systems:
        ops = ' '.join(
            f'{ident[:4]}=[' + ', '.join(f'{op.name!r}.{op.function!r}{opts(op.options)}' for op in getattr(p, ident)) + ']'
            for ident in _PCF_OP_LISTS if getattr(p, ident))
        parts.append(f'{p.name!r} opts={opts(p.options)} {ops} children={[c.particle for c in p.children]}')
    return 'pcf[' + ' | '.join(parts) + ']'


def _pcf_targeted() -> List[Tuple[str, Callable[[], Any]]]:
    def A(name, vt_name, value):
        from srctools.dmx import Attribute, ValueType
        return Attribute(name, ValueType[vt_name], value)

    def P(name, opts=(), named=False, **lists):
        """opts: attributes; named: add the leading 'name' attribute the reader produces."""
        from srctools.particles import Particle, Child
        options = {}
        if named:
            options['name'] = A('name', 'STRING', name)
        for attr in opts:
            options[attr.name.casefold()] = attr
        children = [Child(c) for c in lists.pop('children', ())]
        return Particle(name, options, children=children, **lists)

    def O(name, func, opts=(), named=False):
        from srctools.particles import Operator
        options = {}
        if named:
            options['name'] = A('name', 'STRING', name)
        for attr in opts:
            options[attr.name.casefold()] = attr
        return Operator(name, func, options)

    def every_list():
        kw = {ident: [O(f'{ident}_op', f'func {i}', [A('rate', 'FLOAT', 0.5 * i)])] for i, ident in enumerate(_PCF_OP_LISTS)}
        return [P('all_lists', [A('max_particles', 'INTEGER', 100)], **kw)]

    def every_type():
        rng = random.Random(20)
        attrs = [A(f'opt_{t.casefold()}', t, _pcf_scalar(rng, t)) for t in _PCF_TYPES]
        arrays = [A(f'arr_{t.casefold()}', t, [_pcf_scalar(rng, t) for _ in range(2)]) for t in _PCF_TYPES]
        return [P('types', attrs + arrays, operators=[O('op', 'f', attrs)])]

    return [
        ('empty_file', lambda: []),
        ('bare_system_parsed_shape', lambda: [P('sys')]),
        ('bare_system_constructed_shape', lambda: [P('sys', named=False)]),
        ('options_only', lambda: [P('sys', [A('max_particles', 'INTEGER', 50), A('material', 'STRING', 'particle/x'),
                                            A('color', 'COLOR', _color(255, 128, 0, 255))])]),
        ('every_operator_list', every_list),
        ('every_value_type', every_type),
        ('operator_without_options', lambda: [P('sys', renderers=[O('r', 'render_animated_sprites')])]),
        ('operator_constructed_shape', lambda: [P('sys', emitters=[O('e', 'emit_continuously', [A('emission_rate', 'FLOAT', 20.0)], named=False)])]),
        ('duplicate_operator_names', lambda: [P('sys', operators=[O('x', 'f1'), O('x', 'f2'), O('', '')])]),
        ('children_chain', lambda: [P('a', children=['b']), P('b', children=['c']), P('c')]),
        ('children_forward_self_cycle_dup', lambda: [P('a', children=['b', 'a', 'b']), P('b', children=['a'])]),
        ('child_reference_other_case', lambda: [P('Parent', children=['CHILD']), P('Child')]),
        ('system_name_case', lambda: [P('MixedCase_System'), P('lower'), P('UPPER')]),
        ('attribute_name_mixed_case', lambda: [P('sys', [A('Max_Particles', 'INTEGER', 5)],
                                                operators=[O('op', 'f', [A('Visibility Proxy Radius', 'FLOAT', 2.0)])])]),
        # What Particle.parse() returns, after the caller renamed the system / the operator.
        ('system_renamed_after_parse', lambda: _pcf_renamed(False)),
        ('operator_renamed_after_parse', lambda: _pcf_renamed(True)),
    ]


def _color(r, g, b, a):
    from srctools.dmx import Color
    return Color(r, g, b, a)


# ---------------------------------------------------------------------------------------------
# Public API
# ---------------------------------------------------------------------------------------------

_GEN = {'cmdseq': _gen_cmdseq, 'sndscript': _gen_sndscript, 'vmt': _gen_vmt, 'smd': _gen_smd, 'pcf': _gen_pcf}
_CHECK = {'cmdseq': _check_cmdseq, 'sndscript': _check_sndscript, 'vmt': _check_vmt, 'smd': _check_smd, 'pcf': _check_pcf}
_DESCRIBE = {'cmdseq': _describe_cmdseq, 'sndscript': _describe_sndscript, 'vmt': _describe_vmt, 'smd': _describe_smd,
             'pcf': _describe_pcf}


def gen(fmt: str, rng: random.Random) -> Any:
    """A generated representable value of the format."""
    return _GEN[fmt](rng)


def check(fmt: str, value: Any) -> Optional[str]:
    """None if both round-trip laws hold, else a one-line description of the first difference."""
    try:
        return _CHECK[fmt](value)
    except Exception as exc:      # writer raised on a representable value (reader errors are tagged 'reread')
        return _exc_msg('write', exc)


def describe(fmt: str, value: Any) -> str:
    try:
        text = _DESCRIBE[fmt](value)
    except Exception as exc:
        text = f'<{fmt} value; describe failed: {type(exc).__name__}: {exc}>'
    return text if len(text) <= 600 else text[:597] + '...'


TARGETED: Dict[str, List[Tuple[str, Callable[[], Any]]]] = {
    'cmdseq': _cmdseq_targeted(),
    'sndscript': _sndscript_targeted(),
    'vmt': _vmt_targeted(),
    'smd': _smd_targeted(),
    'pcf': _pcf_targeted(),
}


def signature(message: str) -> str:
    """Group failure messages: drop details after ' -- ', quoted text, numbers and list payloads."""
    sig = message.split(' -- ', 1)[0]
    sig = re.sub(r"""b?['"][^'"]*?\.\.\.(?=\s|$)""", 'S', sig)      # repr truncated by _short()
    sig = re.sub(r"""b?'(?:[^'\\]|\\.)*'|b?"(?:[^"\\]|\\.)*["]""", 'S', sig)
    sig = re.sub(r'-?\d+(?:\.\d+)?(?:e[-+]?\d+)?', 'N', sig)
    sig = re.sub(r'\[N\]', '[]', sig)
    sig = re.sub(r'\.(?:renderers|operators|initializers|emitters|forces|constraints)\[\]', '.<oplist>[]', sig)
    sig = re.sub(r'(?:\[\]){2,}', '[][]', sig)
    sig = re.sub(r'\[(?!\]).*', '[...]', sig)
    sig = re.sub(r'["\'].*', '...', sig)       # unbalanced quote left over from a truncated message
    return sig[:100]


def run(n_seeds: int = 2000, formats: Optional[List[str]] = None, out=None) -> Dict[str, Dict[str, Tuple[int, str, str]]]:
    """Run seeds + targeted cases; returns {fmt: {signature: (count, example message, example value)}}."""
    out = out or sys.stdout
    result: Dict[str, Dict[str, Tuple[int, str, str]]] = {}
    for fmt in formats or FORMATS:
        groups: Dict[str, list] = {}
        cases: List[Tuple[str, Callable[[], Any]]] = [(f'seed {seed}', (lambda fmt=fmt, seed=seed: gen(fmt, random.Random(f'{fmt}-{seed}'))))
                                                      for seed in range(n_seeds)]
        cases += [(f'targeted {name}', maker) for name, maker in TARGETED[fmt]]
        failed_cases = 0
        for label, maker in cases:
            try:
                value = maker()
            except Exception as exc:
                msg, desc = _exc_msg('generator', exc), '<no value>'
            else:
                msg = check(fmt, value)
                if msg is None:
                    continue
                desc = describe(fmt, value)
            failed_cases += 1
            grp = groups.setdefault(signature(msg), [0, None, None, None, []])
            grp[0] += 1
            if label.startswith('targeted'):
                grp[4].append(label.split(' ', 1)[1])
            if grp[1] is None or len(desc) < len(grp[3]):
                grp[1:4] = [label, msg, desc]
        print(f'== {fmt}: {len(cases)} cases ({n_seeds} seeds + {len(TARGETED[fmt])} targeted), '
              f'{failed_cases} failing, {len(groups)} distinct signature(s)', file=out)
        for sig, (count, label, msg, desc, targeted) in sorted(groups.items(), key=lambda kv: -kv[1][0]):
            print(f'  [{count:5d}] {sig}', file=out)
            print(f'          smallest: {label}: {msg}', file=out)
            print(f'          value:    {desc}', file=out)
            if targeted:
                print(f'          targeted: {", ".join(targeted)}', file=out)
        result[fmt] = {sig: (g[0], g[2], g[3]) for sig, g in groups.items()}
    return result


if __name__ == '__main__':
    _args = [a for a in sys.argv[1:] if not a.startswith('-')]
    _n = int(_args[0]) if _args else 2000
    _fmts = _args[1].split(',') if len(_args) > 1 else None
    if 'PYTHONHASHSEED' not in os.environ:
        print('note: PYTHONHASHSEED is not set; the smd "bones renumbered" count varies from run to run '
              '(Mesh.export iterates a set of bones).')
    run(_n, _fmts)
