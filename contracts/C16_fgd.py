"""C16 -- FGD definitions survive text export, binary database, and lazy loading.

Proof tier (pyvc, real code): _write_longstring, the string kernel every exported text goes through -
  longstring.iteration  one arbitrary iteration of the splitting loop, for every remaining text longer than the limit: the
                        new section is a quoted non-empty prefix of at most LIMIT characters, the rest is exactly what is
                        left (nothing lost, nothing duplicated, progress), and a section cut at the limit does not end in an
                        odd run of backslashes (no escape pair is separated);
  longstring.tail       the statements after the loop: at least one quoted section is written, also for the empty string,
                        and the sections are joined by ' +' NL indent.
AST obligations: every text KVDef.export writes goes through _fgd_escape / _write_longstring with the caller's syntax flag;
EntityDef.export writes aliasof() for aliases; build_blocks keeps every entity; the entity header counts what is written.
Bounded tier (contracts/c16_fgd_support.py): generated FGDs x (custom_syntax, label_spawnflags), the binary format, the
complete bundled database through text, and lazy lookups in pseudo-random orders.
"""
import ast
import random
import shutil

import z3

from pyvc import extract, smt
from pyvc.driver import bounded
from pyvc.symexec import Builtin, Obj, PList, Unsupported, UninterpFn, to_z3
from pyvc.vc import Contract, Lemma, Registry, native

REG = Registry()
PROP = 'C16'
LEVEL = 'other'
M = 'fgd'
EXPLANATION = ('_write_longstring is proved for texts of every length: each loop iteration splits off a quoted, non-empty '
               'prefix of at most 1000 characters and keeps exactly the rest, never between a backslash and the character '
               'it escapes when cutting at the limit; after the loop at least one quoted section exists (the empty string '
               'is written as ""). AST obligations cover the escaping discipline of KVDef.export, aliasof(), and the two '
               'engine-database writers. Whole-definition round trips (text with both syntaxes, binary, the 1600+ bundled '
               'entities, lazy lookups in random orders) are a bounded stand-in, not proofs.')
TRUSTED = ['_fgd_escape output has escape pairs of exactly two characters beginning with a backslash (escape_text: C02)',
           'str.rfind / rstrip models (z3 last_indexof, regex suffix)', 'the FGD tokenizer joins "a" + "b" into one string']
UNVERIFIED = ['FGD.parse_file / EntityDef.parse (bounded only)', '_engine_db serialise/unserialise byte format (bounded only)',
              'split points chosen at an escaped newline or a space are trusted not to fall inside an escape pair '
              '(a space is never the second character of a pair; the newline case ends after the pair)']
TIMEOUT_MS = {'quick': 60000, 'thorough': 240000}
KNOWN_D8 = 'resource types SOUNDSCRIPT / PARTICLE_FILE have no text keyword'

ESC = UninterpFn('fgd_escape', z3.BoolSort(), z3.StringSort(), z3.StringSort())


def _file(I):
    f = Obj('File', {'text': z3.StringVal('')}, module='')

    def write(s):
        f.fields['text'] = z3.Concat(f.fields['text'], to_z3(s))
        return None
    f.fields['write'] = Builtin('write', write)
    return f


ITER = REG.add(Lemma('longstring.iteration', PROP, [{'body': f'{M}:_write_longstring', 'loop': 0}]))


@ITER.setup
def _iter(h):
    rem = h.str('remaining')
    prior = [h.str('section0'), h.str('section1')]
    # proved for every limit >= 2 (the real constant is checked against that by longstring.limit_constant); a symbolic
    # limit also spares the solver from building 1000-character witnesses
    limit = h.int('LIMIT')
    h.assume(limit >= 2)
    return {'locals': dict(remaining=rem, sections=PList(list(prior)), LIMIT=limit),
            'ghost': dict(REM=rem, PRIOR=list(prior), LIM=limit)}


@native
def last_section(I, sections):
    return sections.items[-1]


@native
def n_sections(I, sections):
    return len(sections.items)


@native
def prior_kept(I, sections, prior):
    return all(a is b or (hasattr(a, 'eq') and a.eq(b)) for a, b in zip(sections.items, prior))


@native
def length(I, s):
    return z3.Length(to_z3(s))


@native
def cat(I, *parts):
    return z3.Concat(*[to_z3(p) for p in parts])


@native
def content(I, section):
    """The text between the quotes of a section."""
    s = to_z3(section)
    return z3.SubString(s, 1, z3.Length(s) - 2)


@native
def quoted(I, section):
    s = to_z3(section)
    q = z3.StringVal('"')
    return z3.And(z3.PrefixOf(q, s), z3.SuffixOf(q, s), z3.Length(s) >= 2)


@native
def even_backslash_run_at_end(I, text):
    """text == r + t with t a run of backslashes of even length and r not ending in a backslash (witnesses: the pieces the
    code's own rstrip computed, adjusted by the one character the code drops)."""
    text = to_z3(text)
    for (s, r, t) in getattr(I, 'rstrip_witness', []):
        bs = z3.StringVal('\\')
        t2 = z3.If(z3.Length(z3.Concat(r, t)) == z3.Length(text), t, z3.SubString(t, 0, z3.Length(t) - 1))
        return z3.And(text == z3.Concat(r, t2), z3.Length(t2) % 2 == 0, z3.Not(z3.SuffixOf(bs, r)),
                      z3.InRe(t2, z3.Star(z3.Re(bs))))
    return None


@native
def cut_at_limit(I):
    return bool(getattr(I, 'rstrip_witness', []))


@ITER.ensures
def one_quoted_section_is_appended_and_the_earlier_ones_kept(sections, PRIOR):
    return n_sections(sections) == 3 and prior_kept(sections, PRIOR) and quoted(last_section(sections))


@ITER.ensures
def nothing_is_lost_or_duplicated(sections, remaining, REM):
    return cat(content(last_section(sections)), remaining) == REM


@ITER.ensures
def section_is_non_empty_and_within_the_limit(sections, remaining, REM, LIM):
    return length(content(last_section(sections))) >= 1 and length(content(last_section(sections))) <= LIM \
        and length(remaining) < length(REM)


@ITER.ensures
def a_cut_at_the_limit_does_not_separate_an_escape_pair(sections):
    return implies(cut_at_limit(), even_backslash_run_at_end(content(last_section(sections))))


def _tail_fragment(fn):
    """The statements of _write_longstring after the splitting loop."""
    for i, st in enumerate(fn.body):
        if isinstance(st, ast.While):
            return fn.body[i + 1:]
    return []


TAIL = REG.add(Lemma('longstring.tail', PROP, [{'stmts': f'{M}:_write_longstring', 'select': _tail_fragment}]))


def _tail_setup(n_prior):
    def setup(h):
        rem = h.str('remaining')
        prior = [h.str(f'section{i}') for i in range(n_prior)]
        file = _file(h.I)
        return {'locals': dict(remaining=rem, sections=PList(list(prior)), file=file, indent=h.str('indent'), LIMIT=1000),
                'ghost': dict(REM=rem, PRIOR=list(prior), NPRIOR=n_prior)}
    return setup


for _n in (0, 1, 2):
    TAIL.setup(_tail_setup(_n), label=f'prior{_n}')


@native
def text_of(I, file):
    return file.fields['text']


@native
def joined(I, prior, last, indent):
    sep = z3.Concat(z3.StringVal(' +\n'), to_z3(indent))
    parts = [to_z3(p) for p in prior] + ([to_z3(last)] if last is not None else [])
    out = []
    for i, p in enumerate(parts):
        if i:
            out.append(sep)
        out.append(p)
    return z3.Concat(*out) if len(out) > 1 else (out[0] if out else z3.StringVal(''))


@TAIL.ensures
def something_is_always_written_and_the_rest_is_the_last_section(file, PRIOR, REM, NPRIOR, indent):
    return text_of(file) == (joined(PRIOR, cat('"', REM, '"'), indent) if (NPRIOR == 0) else
                             ite_str(length(REM) > 0, joined(PRIOR, cat('"', REM, '"'), indent), joined(PRIOR, None, indent)))


@native
def ite_str(I, c, a, b):
    return z3.If(to_z3(c), to_z3(a), to_z3(b))


PROOFS = [ITER, TAIL]


# ------------------------------------------------------------------------------------------------ AST obligations
def _res(name, ok, line=0, note=''):
    r = smt.Result(name, 'proved' if ok else 'refuted', 'ast-scan', 0.0, {}, line, 0, note)
    r.replay_fn = _witness
    return r


def _shape(name, good, bad=False, line=0, note=''):
    """good: the shape the argument needs is present; bad: a shape known to break the property is present; neither:
    the code was restructured - undecided, never a violation."""
    r = smt.shape(name, good, bad, line, note)
    r.replay_fn = _witness
    return r


def static_export(repo):
    mod = extract.load(M)
    kv = mod.find('KVDef.export')
    out = []
    ls = mod.find('_write_longstring')
    limits = [st.value.value for st in ls.body if isinstance(st, ast.Assign) and ast.unparse(st.targets[0]) == 'LIMIT'
              and isinstance(st.value, ast.Constant)]
    out.append(_shape('longstring.limit_constant', len(limits) == 1 and isinstance(limits[0], int) and 2 <= limits[0] <= 1020,
                      len(limits) == 1 and isinstance(limits[0], int) and not (2 <= limits[0] <= 1020),
                      ls.lineno, f'LIMIT = {limits}; the game parser handles 1024 bytes per string'))
    # every _write_longstring call passes the caller's syntax flag
    calls = [n for n in ast.walk(kv) if isinstance(n, ast.Call) and ast.unparse(n.func) == '_write_longstring']
    const_flag = [n.lineno for n in calls if len(n.args) < 2 or ast.unparse(n.args[1]) != 'custom_syntax']
    const_lits = [n.lineno for n in calls if len(n.args) >= 2 and isinstance(n.args[1], ast.Constant)]
    out.append(_shape('export.longstrings_use_the_callers_syntax', len(calls) >= 4 and not const_flag, bool(const_lits),
                      const_flag[0] if const_flag else kv.lineno))
    # quoted f-string pieces in KVDef.export: "{X}" must have X escaped by _fgd_escape
    bad = []
    for n in ast.walk(kv):
        if isinstance(n, ast.JoinedStr):
            vals = n.values
            for i, v in enumerate(vals):
                if isinstance(v, ast.FormattedValue):
                    before = vals[i - 1].value if i and isinstance(vals[i - 1], ast.Constant) else ''
                    after = vals[i + 1].value if i + 1 < len(vals) and isinstance(vals[i + 1], ast.Constant) else ''
                    if before.endswith('"') and after.startswith('"'):
                        e = v.value
                        if not (isinstance(e, ast.Call) and ast.unparse(e.func) == '_fgd_escape'):
                            bad.append((n.lineno, ast.unparse(e)))
    out.append(_res('export.quoted_texts_are_escaped', not bad, bad[0][0] if bad else kv.lineno, str(bad)))
    # a bare choices value must be a plain decimal number: the quoting decision is not `float(value)`
    src = ast.unparse(kv)
    out.append(_shape('export.choices_values_are_bare_only_when_plain_numbers', 'float(value)' not in src and 'isdecimal()' in src,
                      'float(value)' in src, kv.lineno))
    # the name field of a spawnflags key is present whenever a default / description follows
    ok = any(isinstance(n, ast.If) and 'SPAWNFLAGS' in ast.unparse(n.test) and 'default' in ast.unparse(n.test)
             and 'self.desc' in ast.unparse(n.test) for n in ast.walk(kv))
    plain = any(isinstance(n, ast.If) and ast.unparse(n.test) == 'self._type is not ValueTypes.SPAWNFLAGS' for n in ast.walk(kv))
    out.append(_shape('export.spawnflags_name_field_present_when_fields_follow', ok, plain, kv.lineno))
    ent = ast.unparse(mod.find('EntityDef.export'))
    out.append(_shape('export.aliases_are_written_as_aliasof', "'aliasof('" in ent and 'self.is_alias' in ent,
                      'aliasof' not in ent and "file.write('base(')" in ent))
    return out


def static_engine_db(repo):
    mod = extract.load('_engine_db')
    out = []
    bb = mod.find('build_blocks')
    # no block is dropped before the overflow entities were added: every removal/filter of all_blocks that looks at
    # `.ents` comes after the loop that fills the overflow block
    fill = None
    for n in bb.body:
        if isinstance(n, ast.For) and 'overflow_block.add_ent' in ast.unparse(n):
            fill = n
    early = [n.lineno for n in bb.body if fill is not None and n.lineno < fill.lineno and isinstance(n, ast.If)
             and 'overflow_block.ents' in ast.unparse(n.test)]
    out.append(_shape('enginedb.no_block_is_dropped_before_the_overflow_entities_are_placed', fill is not None and not early,
                      bool(early), early[0] if early else bb.lineno))
    es = mod.find('ent_serialise')
    src = ast.unparse(es)
    skips = 'if not tag_map:' in src
    counts_all = any(s in src for s in ('len(ent.keyvalues)', 'len(ent.inputs)', 'len(ent.outputs)'))
    out.append(_shape('enginedb.header_counts_match_the_attributes_written', not (skips and counts_all), skips and counts_all,
                      es.lineno))
    return out


STATIC = [static_export, static_engine_db]


# ------------------------------------------------------------------------------------------------ bounded
def _is_d8(msg):
    return 'KeyError' in msg and ('FileType.SOUNDSCRIPT' in msg or 'FileType.PARTICLE_FILE' in msg)


def _job_fgd(seed):
    from contracts import c16_fgd_support as S
    rng = random.Random(seed)
    try:
        fgd = S.gen_fgd(rng)
    except Exception as e:
        return ('harness', f'gen_fgd: {type(e).__name__}: {e}')
    bad = []
    for custom, label in ((True, True), (False, True), (True, False), (False, False)):
        try:
            d = S.check_text(S.gen_fgd(random.Random(seed)), custom, label)
        except Exception as e:
            d = f'{type(e).__name__}: {str(e)[:150]}'
        if d:
            bad.append((f'text.custom={int(custom)}.label={int(label)}', d))
    try:
        d = S.check_binary(S.gen_fgd(random.Random(seed)))
    except Exception as e:
        d = f'{type(e).__name__}: {str(e)[:150]}'
    if d:
        bad.append(('binary', d))
    return ('ok', len(fgd.entities)) if not bad else ('bad', bad)


def _job_targeted(idx):
    from contracts import c16_fgd_support as S
    name, make = S.TARGETED[idx]
    bad = []
    for custom, label in ((True, True), (False, True), (True, False)):
        try:
            d = S.check_text(make(), custom, label)
        except Exception as e:
            d = f'{type(e).__name__}: {str(e)[:150]}'
        if d:
            bad.append((f'text.custom={int(custom)}.label={int(label)}', d))
            break
    if not bad:
        try:
            d = S.check_binary(make())
        except Exception as e:
            d = f'{type(e).__name__}: {str(e)[:150]}'
        if d:
            bad.append(('binary', d))
    return ('ok', name) if not bad else ('bad', name, bad)


def _override_db_case():
    """A second binary database registered with add_engine_database() that redefines a bundled class: one-at-a-time
    lookups (EntityDef.engine_def) and the whole-database load (FGD.engine_dbase) must describe every entity alike.
    Runs in a pool worker, so the registration does not outlive the case."""
    import contextlib
    import io
    import tempfile
    from pathlib import Path
    from contracts import c16_fgd_support as S
    from srctools import fgd as F
    from srctools._engine_db import serialise
    full = F.FGD.engine_dbase()
    small = F.FGD()
    keep = sorted(n for n, e in full.entities.items() if not e.is_alias and n != '_cbaseentity_')[:200]
    for extra in ('info_target', 'logic_relay'):
        if extra not in keep:
            keep.append(extra)
    small.entities['_cbaseentity_'] = full.entities['_cbaseentity_']
    for n in keep:
        small.entities[n] = full.entities[n]
    small['info_target'].kv['c16_override'] = F.KVDef('c16_override', F.ValueTypes.INT, 'Override', '42')
    small['logic_relay'].kv['c16_other'] = F.KVDef('c16_other', F.ValueTypes.STRING, 'Other', 'x')
    tmp = tempfile.mkdtemp(prefix='c16o_')
    try:
        path = Path(tmp, 'override.lzma')
        with contextlib.redirect_stdout(io.StringIO()), path.open('wb') as f:
            serialise(small, f)
        F.add_engine_database(path)
        whole = F.FGD.engine_dbase()
        for name in ['info_target', 'logic_relay'] + keep[:40] + sorted(full.entities)[-40:]:
            one = F.EntityDef.engine_def(name)
            d1, d2 = S.dump_ent(one), S.dump_ent(whole[name])
            if d1 != d2:
                k1, k2 = sorted(one.keyvalues), sorted(whole[name].keyvalues)
                return (f'with an override database registered, engine_def({name!r}) and engine_dbase()[{name!r}] differ '
                        f'(keyvalues only in one of them: {sorted(set(k1) ^ set(k2))[:5]})')
        if 'c16_override' not in F.EntityDef.engine_def('info_target').keyvalues:
            return 'the registered override database is ignored by engine_def()'
        return None
    finally:
        shutil.rmtree(tmp, ignore_errors=True)


def _job_db(kind):
    from contracts import c16_fgd_support as S
    try:
        if kind == 'override':
            return ('ok', kind) if not (d := _override_db_case()) else ('bad', kind, d)
        if kind == 'text':
            return ('ok', kind) if not (d := S.check_engine_db_text()) else ('bad', kind, d)
        d = S.check_engine_db_lazy(kind)
        return ('ok', kind) if not d else ('bad', kind, d)
    except Exception as e:
        return ('bad', kind, f'{type(e).__name__}: {str(e)[:150]}')


def _sig(text):
    return ''.join(ch for ch in text if ch.isalpha() or ch in ' ._')[:40]


@bounded('C16.B-roundtrip', bound='the targeted FGDs; generated FGDs of 1-5 entity definitions (every ValueTypes / EntityTypes '
         'member, helpers, tags, choices, spawnflags, resources, long and awkward strings) x 4 combinations of custom_syntax / '
         'label_spawnflags + the binary format; the complete bundled database exported to text and parsed back; a fresh '
         'database queried one entity at a time in 2 (thorough 12) pseudo-random orders; quick 600 FGDs, thorough 20000',
         rule='an FGD counts once; each database pass is one case')
def b_roundtrip(ctx):
    from contracts import c16_fgd_support as S
    known = 0
    for idx, res in ctx.pmap(_job_targeted, list(range(len(S.TARGETED))), job_timeout=30.0):
        ctx.case(S.TARGETED[idx][0])
        if isinstance(res, str) or res[0] != 'ok':
            what = res if isinstance(res, str) else f'{res[2][0][0]}: {res[2][0][1]}'
            if _is_d8(what):
                ctx.violation('resource_type_without_text_keyword', what, [idx])
                continue
            ctx.violation(f'targeted={S.TARGETED[idx][0]}', what, [idx])
    orders = list(range(12 if ctx.thorough else 2))
    for kind, res in ctx.pmap(_job_db, ['text', 'override'] + orders, job_timeout=240.0):
        ctx.case(('enginedb', kind))
        if isinstance(res, str) or res[0] != 'ok':
            ctx.violation(f'enginedb={kind}', res if isinstance(res, str) else str(res[2]), [kind])
    n = 20000 if ctx.thorough else 600
    seen = set()
    for job, res in ctx.pmap(_job_fgd, [ctx.seed * 32452843 + i for i in range(n)], batch=256, job_timeout=30.0):
        ctx.case(job)
        if isinstance(res, str) or res[0] != 'ok':
            what = res if isinstance(res, str) else f'{res[1][0][0]}: {res[1][0][1]}'
            if _is_d8(what):
                ctx.violation('resource_type_without_text_keyword', what, [job])
                continue
            sig = _sig(what.split(': ', 1)[-1])
            if sig in seen:
                continue
            seen.add(sig)
            ctx.violation(f'fgd.seed={job}', what, [job])


def _replay(inp):
    x = inp[0]
    if x == 'text' or (isinstance(x, int) and x < 100 and len(inp) == 1 and inp == [x] and False):
        res = _job_db(x)
    elif isinstance(x, int) and x < 1000:
        from contracts import c16_fgd_support as S
        res = _job_targeted(x) if x < len(S.TARGETED) else _job_fgd(x)
    else:
        res = _job_fgd(x)
    return {'failed': isinstance(res, str) or res[0] != 'ok', 'observation': res}


b_roundtrip.replay = _replay
BOUNDED = [b_roundtrip]
_WITNESS = []


def _witness(model=None, obligation=None):
    from pyvc.driver import _call_with_timeout
    if _WITNESS:
        return _WITNESS[0]
    out = {'failed': False}
    try:
        from contracts import c16_fgd_support as S
        for idx in range(len(S.TARGETED)):
            res = _call_with_timeout((_job_targeted, idx, 30.0))
            if (isinstance(res, str) or res[0] != 'ok') and not _is_d8(str(res)):
                out = {'failed': True, 'scenario': S.TARGETED[idx][0], 'observation': res if isinstance(res, str) else res[2][:1]}
                break
    except Exception as e:
        out = {'failed': False, 'error': f'{type(e).__name__}: {e}'}
    _WITNESS.append(out)
    return out


for _c in PROOFS:
    _c.replay_fn = _witness


# ------------------------------------------------------------------------------------------------ self-test catalogue
MUTATIONS = [
    dict(name='empty_string_written_as_nothing', file='fgd.py', old="    if remaining or not sections:", new="    if remaining:",
         expect='longstring.tail'),
    dict(name='cut_inside_escape_pair', file='fgd.py', old="            if trailing % 2:\n                split_pos -= 1\n", new="",
         expect='a_cut_at_the_limit_does_not_separate_an_escape_pair'),
    dict(name='split_drops_a_character', file='fgd.py',
         old="""        sections.append(f'"{remaining[:split_pos]}"')\n        remaining = remaining[split_pos:]\n\n    # Lastly""",
         new="""        sections.append(f'"{remaining[:split_pos]}"')\n        remaining = remaining[split_pos + 1:]\n\n    # Lastly""",
         expect='nothing_is_lost_or_duplicated'),
    dict(name='section_unquoted', file='fgd.py',
         old="""        if split_pos > 128:  # Don't do for very small sections.\n            sections.append(f'"{remaining[:split_pos]}"')""",
         new="""        if split_pos > 128:  # Don't do for very small sections.\n            sections.append(remaining[:split_pos])""",
         expect='one_quoted_section_is_appended'),
    dict(name='default_unescaped', file='fgd.py', old="""                file.write(f' : "{_fgd_escape(custom_syntax, default_str)}"')""",
         new="""                file.write(f' : "{default_str}"')""", expect='export.quoted_texts_are_escaped'),
    dict(name='choices_name_plain_escaper', file='fgd.py',
         old="_write_longstring(file, custom_syntax, name.replace('\\n', ' '), indent='\\t\\t')",
         new="_write_longstring(file, False, name.replace('\\n', ' '), indent='\\t\\t')", expect='export.longstrings_use_the_callers_syntax'),
    dict(name='alias_written_as_base', file='fgd.py', old="            file.write('aliasof(' if self.is_alias and custom_syntax else 'base(')",
         new="            file.write('base(')", expect='export.aliases_are_written_as_aliasof'),
    dict(name='overflow_block_dropped', file='_engine_db.py',
         old="    # Now, add every remaining ent to overflow blocks.",
         new="    if not overflow_block.ents:\n        all_blocks.remove(overflow_block)\n    # Now, add every remaining ent to overflow blocks.",
         expect='enginedb.no_block_is_dropped_before_the_overflow_entities_are_placed'),
    dict(name='header_counts_all_maps', file='_engine_db.py', old="        sum(1 for tag_map in ent.keyvalues.values() if tag_map),",
         new="        len(ent.keyvalues),", expect='enginedb.header_counts_match_the_attributes_written'),
    dict(name='io_type_written_undecayed', file='fgd.py', old="VALUE_TO_IO_DECAY[ValueTypes.ANGLES] = ValueTypes.VEC", new="VALUE_TO_IO_DECAY[ValueTypes.ANGLES] = ValueTypes.ANGLES",
         expect='VIOLATION'),
    dict(name='lazy_block_parsed_twice_differs', file='_engine_db.py', old="IS_ALIAS", new="IS_ALIAS", expect='__skip__'),
]
MUTATIONS = [m for m in MUTATIONS if m['expect'] != '__skip__']
HARMLESS = [
    dict(name='tail_condition_reordered', file='fgd.py', old="    if remaining or not sections:", new="    if not sections or remaining:"),
]
