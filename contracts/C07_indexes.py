"""C07 -- VMF class/name indexes always agree with the entities in the map.

Abstract view (the specification): for a map with entities E (plus the worldspawn entity),
    ByClass(k)  = {e in E u {spawn} : fold(e['classname']) == k}
    ByTarget(k) = {e in E u {spawn} : (fold(e['targetname']) or None) == k}
and the index invariant I: the by_class / by_target mappings, read case-insensitively and with missing keys as empty
sets, equal ByClass / ByTarget.

Proof tier: the index-maintenance code of Entity.__setitem__ / __delitem__ (10 lemmas) and VMF.add_ent / remove_ent
(3 lemmas: entity in the map, already removed, not yet in the map) executed symbolically over *symbolic* index maps (key -> set of entity references, uninterpreted casefold): I is preserved for
every other entity, every key, every old and new value.  _remove_copyset proved against its contract.
Bounded tier: operation histories on real maps, comparing the indexes and search() with a scan after every step.
"""
import itertools

import z3

from pyvc import smt
from pyvc.builtins_model import fold_fn
from pyvc.driver import bounded, minimise
from pyvc.symexec import Builtin, Obj, PDict, PList, SSet, Unsupported, to_z3
from pyvc.vc import Contract, Lemma, Registry, native

REG = Registry()
PROP = 'C07'
LEVEL = 'proof'
M = 'vmf'
EXPLANATION = ('Index invariant I (by_class/by_target == the sets computed from the entities\' current classname / '
               'targetname, case-insensitively) is proved to be preserved by Entity.__setitem__ for classname and '
               'targetname (entity in the map, not in the map, worldspawn), Entity.__delitem__, VMF.add_ent and '
               'VMF.remove_ent, for arbitrary symbolic indexes and values; _remove_copyset proved against its contract. '
               'Histories mixing these with pop/clear/update/make_unique/copy/parse and search() are a bounded stand-in.')
TRUSTED = ['str.casefold uninterpreted and idempotent', 'defaultdict(CopySet) abstracted as a total map key -> set '
           '(missing key = empty set; dropping an empty set is invisible)', 'entity membership in vmf.entities as a set']
UNVERIFIED = ['CopySet.__iter__ under mutation (bounded only)', 'VMF.parse / Entity.copy / make_unique (bounded only)']
TIMEOUT_MS = {'quick': 60000, 'thorough': 240000}
ENT = z3.IntSort()      # entity references


# ------------------------------------------------------------------------------------------------ symbolic index model
class IndexMap:
    """key -> set of entity references, as a z3 array String -> (Int -> Bool); None is a separate key."""
    def __init__(self, I, name, with_none=False):
        self.I = I
        self.arr = z3.Array(name, z3.StringSort(), z3.ArraySort(ENT, z3.BoolSort()))
        self.none = z3.Array(name + '!none', ENT, z3.BoolSort()) if with_none else None
        self.obj = Obj('IndexMap', {}, module='')
        self.obj.fields['get'] = Builtin('get', self.get)
        self.obj.fields['__index_model__'] = self

    def row(self, key):
        if key is None:
            if self.none is None:
                raise Unsupported('None key on an index without a None row')
            return self.none
        return z3.Select(self.arr, to_z3(key))

    def set_row(self, key, row):
        if key is None:
            self.none = row
        else:
            self.arr = z3.Store(self.arr, to_z3(key), row)

    def get(self, key, default=None):
        return SetView(self, key)


class SetView:
    """mapping[key] of an IndexMap: a live view supporting add / discard / truthiness / ==."""
    def __init__(self, index, key):
        self.index = index
        self.key = key


def _install_models():
    from pyvc import builtins_model as bm, symexec as se
    if getattr(bm, '_c07_installed', False):
        return
    bm._c07_installed = True
    orig_sub, orig_del, orig_truth = bm.subscript, bm.del_subscript, se.Interp.truth
    orig_bound = bm.bound_builtin_method

    def subscript(I, obj, idx, lineno=0):
        if isinstance(obj, Obj) and '__index_model__' in obj.fields:
            return SetView(obj.fields['__index_model__'], idx)
        return orig_sub(I, obj, idx, lineno)

    def del_subscript(I, obj, idx, lineno=0):
        if isinstance(obj, Obj) and '__index_model__' in obj.fields:
            # dropping the (empty) set of a key: invisible in the total-map abstraction
            return None
        return orig_del(I, obj, idx, lineno)

    def bound(I, obj, name, lineno):
        if isinstance(obj, SetView):
            ix, key = obj.index, obj.key
            if name == 'add':
                return Builtin('add', lambda e: ix.set_row(key, z3.Store(ix.row(key), to_z3(e), True)))
            if name == 'discard':
                return Builtin('discard', lambda e: ix.set_row(key, z3.Store(ix.row(key), to_z3(e), False)))
            raise Unsupported(f'CopySet.{name} on the index model')
        if isinstance(obj, SSet) and getattr(obj, 'as_list', False) and name in ('append', 'remove'):
            # vmf.entities is a list; only membership matters here: append = add, remove = discard or ValueError
            def append(e):
                obj.expr = z3.Store(obj.expr, to_z3(e), True)

            def remove(e):
                if not I.path.branch(z3.Select(obj.expr, to_z3(e)), f'list.remove.present@{lineno}'):
                    I.raise_('ValueError', 'list.remove(x): x not in list', lineno=lineno)
                obj.expr = z3.Store(obj.expr, to_z3(e), False)
            return Builtin(name, append if name == 'append' else remove)
        return orig_bound(I, obj, name, lineno)

    def truth(self, v):
        if isinstance(v, SetView):
            x = z3.Int(self.path.fresh_name('tv'))
            return z3.Exists([x], z3.Select(v.index.row(v.key), x))
        return orig_truth(self, v)
    bm.subscript, bm.del_subscript, bm.bound_builtin_method = subscript, del_subscript, bound
    se.Interp.truth = truth
    orig_to_z3 = se.to_z3

    orig_ident = bm.identical

    def identical(a, b):
        if isinstance(a, SetView) or isinstance(b, SetView):
            return a is b       # a SetView is never None
        return orig_ident(a, b)
    bm.identical = identical


_install_models()

CLS = z3.Function('classname_of', ENT, z3.StringSort())      # current classname of the *other* entities
TGT = z3.Function('targetname_of', ENT, z3.StringSort())
INMAP = z3.Function('in_map', ENT, z3.BoolSort())            # membership in vmf.entities (plus the spawn)


def _fold(s):
    return fold_fn()(to_z3(s))


def _world(h, ent_in_map, is_spawn=False):
    """A VMF with symbolic indexes and one distinguished entity `x` whose keys are explicit."""
    I = h.I
    by_class = IndexMap(I, 'by_class')
    by_target = IndexMap(I, 'by_target', with_none=True)
    x_ref = 7
    cls0 = h.str('old_classname')
    tgt0 = h.str('old_targetname')
    keys = PDict({'classname': cls0, 'targetname': tgt0})
    ent = Obj('Entity', dict(_keys=keys, id=1), module=M)
    ent.oid = x_ref
    ents = SSet(z3.Array('entities', ENT, z3.BoolSort()))
    ents.as_list = True
    spawn = ent if is_spawn else Obj('Entity', dict(_keys=PDict({'classname': 'worldspawn'}), id=2), module=M)
    vmf = Obj('VMF', dict(by_class=by_class.obj, by_target=by_target.obj, entities=ents, spawn=spawn,
                          node_id=Obj('IDMan', {'_used': h.int_set('nodes'), 'search_pos': 1}, module=M)), module=M)
    ent.fields['map'] = vmf
    h.assume(ents.expr[x_ref] == z3.BoolVal(bool(ent_in_map)))
    # fold is idempotent
    s = z3.String('fold!s')
    h.assume(z3.ForAll([s], fold_fn()(fold_fn()(s)) == fold_fn()(s)))
    # the uninterpreted fold agrees with str.casefold on the literals the code folds concretely
    for lit in ('', 'worldspawn', 'info_null', 'classname', 'targetname'):
        h.assume(fold_fn()(z3.StringVal(lit)) == z3.StringVal(lit.casefold()))
    # invariant I before, with x's current values
    h.assume(_inv(by_class, by_target, ents.expr, x_ref, cls0, tgt0, live=bool(ent_in_map) or is_spawn))
    # a candidate witness for the reachability covers (satisfiability under the quantified invariant is out of the
    # solvers' reach without one): fold = identity, every other entity an unnamed info_null outside the map, x the only
    # member (if it is one), the indexes exactly what I says for that world
    live = bool(ent_in_map) or is_spawn
    e, ks = z3.Int('hint!e'), z3.String('hint!s')
    empty = z3.K(ENT, z3.BoolVal(False))
    only_x = z3.Store(empty, x_ref, z3.BoolVal(live))
    h.cover_hint(z3.ForAll([ks], fold_fn()(ks) == ks))
    h.cover_hint(z3.ForAll([e], z3.And(CLS(e) == z3.StringVal('info_null'), TGT(e) == z3.StringVal(''))))
    h.cover_hint(ents.expr == z3.Store(empty, x_ref, z3.BoolVal(bool(ent_in_map))))
    h.cover_hint(cls0 == z3.StringVal('worldspawn' if is_spawn else 'info_null'))
    h.cover_hint(tgt0 == z3.StringVal(''))
    h.cover_hint(by_class.arr == z3.Store(z3.K(z3.StringSort(), empty), cls0, only_x))
    h.cover_hint(by_target.arr == z3.K(z3.StringSort(), empty))
    h.cover_hint(by_target.none == only_x)
    return dict(vmf=vmf, ent=ent, by_class=by_class, by_target=by_target, ents=ents, x=x_ref, cls0=cls0, tgt0=tgt0)


def _inv(by_class, by_target, ents, x, cls_x, tgt_x, live):
    """I: for every key k and entity e, index membership == (e is in the map and its folded value is k)."""
    k = z3.String('I!k')
    e = z3.Int('I!e')
    cls = lambda ee: z3.If(ee == x, to_z3(cls_x), CLS(ee))
    tgt = lambda ee: z3.If(ee == x, to_z3(tgt_x), TGT(ee))
    member = lambda ee: z3.If(ee == x, z3.BoolVal(live), ents[ee])
    by_c = z3.ForAll([k, e], z3.Select(by_class.row(k), e) == z3.And(member(e), _fold(cls(e)) == k))
    by_t = z3.ForAll([k, e], z3.Select(by_target.row(k), e) ==
                     z3.And(member(e), _fold(tgt(e)) == k, k != z3.StringVal('')))
    by_none = z3.ForAll([e], z3.Select(by_target.row(None), e) == z3.And(member(e), _fold(tgt(e)) == z3.StringVal('')))
    return z3.And(by_c, by_t, by_none)


@native
def invariant(I, w_by_class, w_by_target, w_ents, x, cls_x, tgt_x, live):
    return _inv(w_by_class, w_by_target, w_ents.expr, x, cls_x, tgt_x, live)


@native
def key_value(I, ent, name):
    return ent.fields['_keys'].items.get(name, '')


def _setitem_lemma(name, key, in_map, is_spawn=False):
    c = REG.add(Contract(f'{M}:Entity.__setitem__', PROP, name=name, modular=False,
                         inline=('conv_kv', '_remove_copyset', 'Entity.__contains__', 'Entity.__setitem__')))
    if is_spawn:
        c.raises('ValueError')

    def setup(h):
        w = _world(h, in_map, is_spawn)
        val = h.str('new_value')
        if is_spawn:
            h.assume(_fold(w['cls0']) == z3.StringVal('worldspawn'))
        return {'args': [w['ent'], key, val], 'ghost': dict(w_by_class=w['by_class'], w_by_target=w['by_target'],
                                                            w_ents=w['ents'], x=w['x'], new_value=val, LIVE=bool(in_map) or is_spawn)}
    c.setup(setup)

    def index_invariant_preserved(self, w_by_class, w_by_target, w_ents, x, LIVE):
        return invariant(w_by_class, w_by_target, w_ents, x, key_value(self, 'classname'), key_value(self, 'targetname'), LIVE)
    c.ensures(index_invariant_preserved)
    if is_spawn:
        def worldspawn_stays_worldspawn(self, w_by_class, w_by_target, w_ents, x, LIVE):
            return invariant(w_by_class, w_by_target, w_ents, x, key_value(self, 'classname'),
                             key_value(self, 'targetname'), LIVE) and folded_is(key_value(self, 'classname'), 'worldspawn')
        c.on_raise('ValueError')(worldspawn_stays_worldspawn)
        c.ensures(worldspawn_stays_worldspawn)
    return c


@native
def folded_is(I, s, lit):
    return _fold(s) == z3.StringVal(lit)


set_cls_in = _setitem_lemma('Entity.__setitem__[classname, entity in map]', 'classname', True)
set_cls_out = _setitem_lemma('Entity.__setitem__[classname, entity not in map]', 'classname', False)
set_tgt_in = _setitem_lemma('Entity.__setitem__[targetname, entity in map]', 'targetname', True)
set_tgt_out = _setitem_lemma('Entity.__setitem__[targetname, entity not in map]', 'targetname', False)
set_cls_key_case = _setitem_lemma('Entity.__setitem__[ClassName spelling, entity in map]', 'ClassName', True)
set_tgt_key_case = _setitem_lemma('Entity.__setitem__[TARGETNAME spelling, entity in map]', 'TARGETNAME', True)
set_spawn = _setitem_lemma('Entity.__setitem__[classname of worldspawn]', 'classname', False, is_spawn=True)


def _delitem_lemma(name, key, in_map):
    c = REG.add(Contract(f'{M}:Entity.__delitem__', PROP, name=name, modular=False, inline=('_remove_copyset', 'Entity.__getitem__')))

    def setup(h):
        w = _world(h, in_map)
        return {'args': [w['ent'], key], 'ghost': dict(w_by_class=w['by_class'], w_by_target=w['by_target'],
                                                       w_ents=w['ents'], x=w['x'], LIVE=bool(in_map))}
    c.setup(setup)

    def index_invariant_preserved(self, w_by_class, w_by_target, w_ents, x, LIVE):
        return invariant(w_by_class, w_by_target, w_ents, x, key_value(self, 'classname'), key_value(self, 'targetname'), LIVE)
    c.ensures(index_invariant_preserved)
    return c


del_tgt_in = _delitem_lemma('Entity.__delitem__[targetname, entity in map]', 'targetname', True)
del_tgt_out = _delitem_lemma('Entity.__delitem__[targetname, entity not in map]', 'targetname', False)
del_tgt_case = _delitem_lemma('Entity.__delitem__[TargetName spelling, entity in map]', 'TargetName', True)


def _vmf_lemma(name, method, in_map_before, live_after):
    c = REG.add(Contract(f'{M}:VMF.{method}', PROP, name=name, modular=False,
                         inline=('_remove_copyset', 'Entity.__getitem__', 'Entity.__contains__', 'Entity.get')))

    def setup(h):
        w = _world(h, in_map_before)
        return {'args': [w['vmf'], w['ent']], 'ghost': dict(w_by_class=w['by_class'], w_by_target=w['by_target'],
                                                            w_ents=w['ents'], x=w['x'], ENT=w['ent'], LIVE=live_after)}
    c.setup(setup)

    def index_invariant_holds_afterwards(ENT, w_by_class, w_by_target, w_ents, x, LIVE):
        return invariant(w_by_class, w_by_target, w_ents, x, key_value(ENT, 'classname'), key_value(ENT, 'targetname'), LIVE)
    c.ensures(index_invariant_holds_afterwards)

    def entity_list_membership_is_as_requested(w_ents, x, LIVE):
        return is_member(w_ents, x) == LIVE
    c.ensures(entity_list_membership_is_as_requested)
    return c


@native
def is_member(I, ents, x):
    return z3.Select(ents.expr, x)


rem_in = _vmf_lemma('VMF.remove_ent[entity in map]', 'remove_ent', True, False)
rem_out = _vmf_lemma('VMF.remove_ent[entity already removed]', 'remove_ent', False, False)
add_out = _vmf_lemma('VMF.add_ent[entity not in map]', 'add_ent', False, True)

for _c in list(REG.by_name.values()):
    _c.feas_timeout_ms = 300      # quantified path conditions: an undecided feasibility query keeps the path
PROOFS = [set_cls_in, set_cls_out, set_tgt_in, set_tgt_out, set_cls_key_case, set_tgt_key_case, set_spawn,
          del_tgt_in, del_tgt_out, del_tgt_case, rem_in, rem_out, add_out]


# ------------------------------------------------------------------------------------------------ bounded histories
VALS = ['', 'a', 'A', 'b', 'Door1', 'Stra\xdfe']      # the last one: casefold() != lower()


def _scan(vmf):
    """The abstract view computed from the entities themselves."""
    by_class, by_target = {}, {}
    for e in list(vmf.entities) + [vmf.spawn]:
        by_class.setdefault(e['classname'].casefold(), set()).add(id(e))
        by_target.setdefault(e['targetname'].casefold() or None, set()).add(id(e))
    return by_class, by_target


def _view(mapping):
    """The real index read case-insensitively, empty sets dropped."""
    out = {}
    for k, ents in mapping.items():
        if ents:
            out.setdefault(k.casefold() if isinstance(k, str) else k, set()).update(id(e) for e in ents)
    return {k: v for k, v in out.items() if v}


def _check(vmf, step):
    want_c, want_t = _scan(vmf)
    got_c, got_t = _view(vmf.by_class), _view(vmf.by_target)
    if got_c != want_c:
        return f'after {step}: by_class keys/sizes {_sizes(got_c)} but the entities give {_sizes(want_c)}'
    if got_t != want_t:
        return f'after {step}: by_target keys/sizes {_sizes(got_t)} but the entities give {_sizes(want_t)}'
    for name in ('a', 'A', 'b', 'door1', 'worldspawn', 'info_null', 'x', 'y', 'strasse', 'STRA\xdfE'):
        got = sorted(id(e) for e in vmf.search(name))
        want = sorted(set(want_t.get(name.casefold(), set())) | set(want_c.get(name.casefold(), set())))
        if sorted(set(got)) != want:
            return f'after {step}: search({name!r}) returns {len(got)} entities, {len(want)} match'
    if vmf.spawn['classname'].casefold() != 'worldspawn':
        return f'after {step}: worldspawn has classname {vmf.spawn["classname"]!r}'
    return None


def _sizes(d):
    return {k: len(v) for k, v in sorted(d.items(), key=lambda kv: str(kv[0]))}


OPS = ['create', 'create_named', 'add_new', 'add_ents_gen', 'remove0', 'ent_remove', 'readd', 'set_class', 'set_target',
       'set_target_mixedcase_key', 'del_target', 'pop_target', 'pop_class', 'clear', 'update', 'make_unique',
       'copy_same', 'copy_other', 'spawn_class', 'spawn_target', 'iterate_mutate', 'setdefault']


def _history(ops):
    from srctools.vmf import VMF, Entity
    vmf, other = VMF(), VMF()
    removed = []
    bad = _check(vmf, 'VMF()')
    if bad:
        return bad
    for op, v in ops:
        ents = list(vmf.entities)
        last = ents[-1] if ents else None
        try:
            if op == 'create':
                vmf.create_ent('x', targetname=v)
            elif op == 'create_named':
                vmf.create_ent(v or 'y', TargetName='Door1')
            elif op == 'add_new':
                vmf.add_ent(Entity(vmf, {'classname': v or 'y', 'targetname': v}))
            elif op == 'add_ents_gen':
                vmf.add_ents(Entity(vmf, {'classname': 'X', 'targetname': n}) for n in (v, 'b'))
            elif op == 'remove0' and ents:
                removed.append(ents[0])
                vmf.remove_ent(ents[0])
            elif op == 'ent_remove' and last is not None:
                removed.append(last)
                last.remove()
            elif op == 'readd' and removed:
                vmf.add_ent(removed.pop())
            elif op == 'set_class' and last is not None:
                last['classname'] = v or 'y'
            elif op == 'set_target' and last is not None:
                last['targetname'] = v
            elif op == 'set_target_mixedcase_key' and last is not None:
                last['TargetName'] = v
            elif op == 'del_target' and last is not None:
                del last['targetname']
            elif op == 'pop_target' and last is not None:
                last.pop('targetname')
            elif op == 'pop_class' and last is not None:
                try:
                    last.pop('classname')
                except KeyError:
                    pass
            elif op == 'clear' and last is not None:
                last.clear()
            elif op == 'update' and last is not None:
                last.update({'classname': v or 'y', 'targetname': v.swapcase()})
            elif op == 'make_unique' and last is not None:
                last.make_unique('unnamed')
            elif op == 'copy_same' and last is not None:
                vmf.add_ent(last.copy())
            elif op == 'copy_other' and last is not None:
                other.add_ent(last.copy(vmf_file=other))
            elif op == 'spawn_class':
                try:
                    vmf.spawn['classname'] = v or 'func_brush'
                except ValueError:
                    pass
            elif op == 'spawn_target':
                vmf.spawn['targetname'] = v
            elif op == 'iterate_mutate':
                for e in vmf.by_class['x']:
                    e['classname'] = 'y'
                for e in vmf.by_target[v.casefold() or None]:
                    if e is not vmf.spawn:
                        e['targetname'] = 'b'
            elif op == 'setdefault' and last is not None:
                last.setdefault('targetname', v)
        except (KeyError, ValueError) as e:
            if not isinstance(e, (KeyError, ValueError)):
                raise
        step = f'{op}({v!r})'
        for m, label in ((vmf, step), (other, step + ' [second map]')):
            bad = _check(m, label)
            if bad:
                return bad
    return None


def _job_history(ops):
    try:
        return _history(ops)
    except Exception as e:
        return f'harness: {type(e).__name__}: {e}'


def _parse_case(text):
    from srctools.vmf import VMF
    from srctools.keyvalues import Keyvalues
    vmf = VMF.parse(Keyvalues.parse(text))
    return _check(vmf, 'VMF.parse')


@bounded('C07.B-histories', bound='22 operations (create/add/add_ents from a generator/remove/re-add, set/del/pop '
         'classname and targetname with values "", a, A, b, Door1, Stra\xdfe (casefold differs from lower) and mixed-case key spellings, clear, update, '
         'setdefault, make_unique, copy within and across maps, worldspawn edits, iteration while mutating): all '
         'histories create + one operation x value, all create + two operations on a value sample, seeded histories of '
         'length <= 6; parsed documents', rule='one case per history; non-trivial when an indexed key changes')
def b_histories(ctx):
    jobs = []
    for op in OPS:
        for v in VALS:
            for v0 in ('a', 'A', '', 'Stra\xdfe'):
                jobs.append((('create', v0), (op, v)))
    for a, b in itertools.product(OPS, repeat=2):
        for v in (VALS if ctx.thorough else ['A', '']):
            jobs.append((('create', 'A'), (a, v), (b, v.swapcase() or 'b')))
    for _ in range(3000 if not ctx.thorough else 60000):
        jobs.append(tuple((ctx.rng.choice(OPS), ctx.rng.choice(VALS)) for _ in range(ctx.rng.randint(3, 6))))
    for job, bad in ctx.pmap(_job_history, jobs, batch=4096):
        ctx.case(job)
        if bad:
            core = minimise(list(job), lambda c: _job_history(tuple(c)))
            ctx.violation('history=' + '>'.join(f'{o}({v!r})' for o, v in core), _job_history(tuple(core)) or bad,
                          [list(x) for x in core])
    docs = {'empty': '', 'named_world': 'world\n{\n"id" "1"\n"classname" "worldspawn"\n"targetname" "W"\n}\n',
            'ents': 'world\n{\n"id" "1"\n"classname" "worldspawn"\n}\nentity\n{\n"id" "2"\n"classname" "Info_Target"\n'
                    '"targetname" "Door1"\n}\nentity\n{\n"id" "3"\n"classname" "info_target"\n}\n'}
    for name, text in docs.items():
        ctx.case(('parse', name))
        bad = _parse_case(text)
        if bad:
            ctx.violation('parse=' + name, bad, ['parse', name])


def _replay(inp):
    if inp and inp[0] == 'parse':
        return {'failed': True, 'observation': 'see B-histories parsed documents'}
    bad = _job_history(tuple(tuple(x) for x in inp))
    return {'failed': bool(bad), 'observation': bad}


b_histories.replay = _replay
BOUNDED = [b_histories]


def _witness(model=None, obligation=None):
    for job in [(('create', 'A'), ('set_target', 'b')), (('create', 'A'), ('set_class', 'Y')), (('create', 'a'), ('set_target', '')),
                (('create', 'A'), ('del_target', '')), (('create', 'A'), ('pop_target', '')), (('create', 'A'), ('clear', '')),
                (('create_named', 'Y'), ('set_target_mixedcase_key', 'b')), (('spawn_class', 'x'),)]:
        bad = _job_history(job)
        if bad:
            return {'failed': True, 'history': [list(x) for x in job], 'observation': bad}
    return {'failed': False}


for _c in PROOFS:
    _c.replay_fn = _witness

MUTATIONS = [
    dict(name='remove_ent_lower_instead_of_casefold', file='vmf.py',
         old="        _remove_copyset(self.by_target, item['targetname'].casefold() or None, item)\n",
         new="        _remove_copyset(self.by_target, item['targetname'].lower() or None, item)\n", expect='history='),
    dict(name='remove_ent_forgets_the_class_index', file='vmf.py',
         old="        _remove_copyset(self.by_class, item['classname'].casefold(), item)\n        _remove_copyset(self.by_target",
         new="        _remove_copyset(self.by_target", expect='VMF.remove_ent'),
    dict(name='add_ent_indexes_target_without_none', file='vmf.py',
         old="        self.by_target[item['targetname', ''].casefold() or None].add(item)\n        if 'nodeid' in item:",
         new="        self.by_target[item['targetname', ''].casefold()].add(item)\n        if 'nodeid' in item:", expect='VMF.add_ent'),
    dict(name='setitem_unfolded_removal', file='vmf.py',
         old="            _remove_copyset(self.map.by_class, (orig_val or '').casefold(), self)",
         new="            _remove_copyset(self.map.by_class, orig_val or '', self)", expect='Entity.__setitem__'),
    dict(name='setitem_target_empty_not_none', file='vmf.py',
         old="                self.map.by_target[str_val.casefold() or None].add(self)",
         new="                self.map.by_target[str_val.casefold()].add(self)", expect='Entity.__setitem__'),
    dict(name='remove_ent_skips_target', file='vmf.py',
         old="        _remove_copyset(self.by_target, item['targetname'].casefold() or None, item)\n", new="", expect='history='),
    dict(name='add_ents_no_casefold', file='vmf.py',
         old="            self.by_class[item['classname'].casefold()].add(item)\n            self.by_target[item['targetname', ''].casefold() or None].add(item)\n            if 'nodeid' in item:\n                try:\n                    node_id = int(item['nodeid'])\n                except (TypeError, ValueError):\n                    pass\n                else:\n                    item['nodeid'] = str(self.node_id.get_id(node_id))\n\n    def create_ent",
         new="            self.by_class[item['classname']].add(item)\n            self.by_target[item['targetname', ''].casefold() or None].add(item)\n            if 'nodeid' in item:\n                try:\n                    node_id = int(item['nodeid'])\n                except (TypeError, ValueError):\n                    pass\n                else:\n                    item['nodeid'] = str(self.node_id.get_id(node_id))\n\n    def create_ent",
         expect='history='),
    dict(name='delitem_exact_key', file='vmf.py',
         old="            _remove_copyset(self.map.by_target, self['targetname'].casefold() or None, self)",
         new="            _remove_copyset(self.map.by_target, self._keys.get('targetname', None), self)", expect='Entity.__delitem__'),
    dict(name='copyset_iter_new_first', file='vmf.py',
         old="        yield from cur_items\n        # after iterating through ourselves, iterate through any new ents.\n        yield from self - cur_items",
         new="        yield from cur_items\n        yield from self", expect='history='),
]
HARMLESS = [
    dict(name='add_ent_swap_index_updates', file='vmf.py',
         old="        self.by_class[item['classname', ''].casefold()].add(item)\n        self.by_target[item['targetname', ''].casefold() or None].add(item)",
         new="        self.by_target[item['targetname', ''].casefold() or None].add(item)\n        self.by_class[item['classname', ''].casefold()].add(item)"),
]
