"""C12 -- atomic file replacement: old or new contents, never a mixture.

Proof tier: AtomicWriter.__enter__ (make_tempfile), the caller's writes and AtomicWriter.__exit__ are executed
symbolically against an axiomatised file-system model in which *every primitive may fail with OSError* and temp names
may already be taken by another writer.  Obligations are attached to the primitives themselves, so they hold at every
program point, i.e. at every crash point:
  P-atomic   the destination entry is only ever changed by the single replace(temp -> dest), after the temp was closed;
  P-frame    open() is exclusive ('x') and never targets the destination; unlink/replace act only on this writer's temp;
  P-cleanup  on every handled failure the writer's temp file does not exist afterwards and dest keeps the old content;
  P-save     BSP.save performs its file writes only inside `with AtomicWriter(...)` (AST).
Bounded tier: native fault injection, kill-like BaseExceptions in the body, interleavings of two writers.
"""
import ast
import itertools
import os
import shutil
import tempfile

import z3

from pyvc import extract, smt
from pyvc.driver import JobTimeout, bounded
from pyvc.symexec import Builtin, ClassVal, ExcVal, Obj, PyRaise, Unsupported, to_z3
from pyvc.vc import Contract, Lemma, Registry, native

REG = Registry()
PROP = 'C12'
LEVEL = 'proof'
M = '__init__'
EXPLANATION = ('make_tempfile/__enter__/__exit__ run symbolically on a directory model (name -> content id) with a '
               'non-deterministic OSError at every primitive and arbitrary pre-existing tmp_N files; the obligations sit '
               'on the primitives (only replace may change the destination, only after the temp was closed; open is '
               'exclusive; unlink/replace only touch the writer\'s own temp), so they hold at every operation boundary. '
               'Outcomes: success => dest has exactly the written content and no temp remains; any handled failure => dest '
               'unchanged and no temp of this writer remains. BSP.save is shown to write only through AtomicWriter.')
TRUSTED = ['file-system model: exclusive create is atomic, Path.replace is atomic (POSIX rename), a failed primitive '
           'changes nothing', 'durability (no fsync is issued) is not part of the property',
           'the destination is not itself named tmp_N (side condition; then the first temp name could equal it)']
UNVERIFIED = ['real crash behaviour of the operating system', 'writers in different processes racing on one temp name '
              'between exclusive create and unlink (excluded by exclusive create)']
TIMEOUT_MS = {'quick': 60000, 'thorough': 240000}


class FS:
    """One directory.  content: name -> content id (Int); owned: name -> Bool (a temp this writer created and has not
    yet unlinked / renamed away).  Other writers may create or delete any *non-owned* tmp file at any time, so the
    existence of a non-owned name is a fresh unknown at each exclusive open.  At most `faults` primitives fail."""
    def __init__(self, I, h, body_ok, faults=1):
        self.I = I
        S, Int = z3.StringSort(), z3.IntSort()
        self.content = z3.Array('fs_content', S, Int)
        self.owned = z3.K(S, z3.BoolVal(False))
        self.dest = h.str('dest_name')
        self.old = h.int('old_content')            # 0: the destination did not exist
        h.assume(self.old >= 0)
        h.assume(self.old < 100)
        h.assume(z3.Select(self.content, self.dest) == self.old)
        # side condition: the destination is not called tmp_<N>
        h.assume(z3.Not(z3.PrefixOf(z3.StringVal('tmp_'), self.dest)))
        self.created = []           # every name this writer ever created
        self.handles = []           # model handle objects
        self.replaced = False
        self.new_content = z3.IntVal(-1)
        self.next_id = 100
        self.body_ok = body_ok
        self.body_done = False
        self.faults_left = faults
        self.fault_site = None

    def fault(self, what):
        if self.faults_left <= 0:
            return
        b = self.I.fresh('fault_' + what, z3.BoolSort())
        if self.I.path.branch(b, 'fault.' + what):
            self.faults_left -= 1
            self.fault_site = what
            raise PyRaise(ExcVal('OSError', (what,)))

    def new_id(self):
        self.next_id += 1
        return z3.IntVal(self.next_id)

    def check_dest(self, where):
        """Crash-point obligation: whatever happened so far, the destination is the old or the complete new file."""
        want = self.new_content if self.replaced else self.old
        self.I.path.oblige(f'atomic.crash_before_{where}.dest_is_old_or_complete_new',
                           z3.Select(self.content, self.dest) == to_z3(want))

    def is_owned(self, name):
        return z3.Select(self.owned, name)


def _path_obj(fs, name):
    I = fs.I
    p = Obj('Path', {'name': name}, module='')

    def with_name(n):
        return _path_obj(fs, to_z3(n))

    def open_(mode='r', encoding=None):
        fs.check_dest('open')
        I.path.oblige('frame.open_is_exclusive_create', z3.BoolVal(isinstance(mode, str) and 'x' in mode),
                      note=f'mode {mode!r}')
        I.path.oblige('frame.open_never_targets_destination', name != fs.dest)
        fs.fault('open')
        # our own live temp certainly exists; any other name may or may not (other writers)
        other = I.fresh('exists', z3.BoolSort())
        if I.path.branch(z3.Or(fs.is_owned(name), other), 'open.exists'):
            raise PyRaise(ExcVal('FileExistsError', (name,)))
        fs.content = z3.Store(fs.content, name, fs.new_id())      # empty new file
        fs.owned = z3.Store(fs.owned, name, z3.BoolVal(True))
        fs.created.append(name)
        return _handle(fs, name)

    def unlink(missing_ok=False):
        fs.check_dest('unlink')
        I.path.oblige('frame.unlink_only_own_live_temp', fs.is_owned(name),
                      note='unlinking a name this writer does not currently own can delete another writer\'s file')
        fs.fault('unlink')
        if not I.path.branch(fs.is_owned(name), 'unlink.owned'):
            if I.path.branch(I.fresh('missing', z3.BoolSort()), 'unlink.missing'):
                if missing_ok is True:
                    return None
                raise PyRaise(ExcVal('FileNotFoundError', (name,)))
        fs.content = z3.Store(fs.content, name, z3.IntVal(0))
        fs.owned = z3.Store(fs.owned, name, z3.BoolVal(False))
        return None

    def replace(target):
        fs.check_dest('replace')
        tname = target.fields['name']
        I.path.oblige('frame.replace_source_is_own_live_temp', fs.is_owned(name))
        I.path.oblige('frame.replace_target_is_destination', tname == fs.dest)
        closed_ok = [hd.fields['name'] == name for hd in fs.handles if hd.fields['closed_ok'] is True]
        I.path.oblige('atomic.replace_only_after_temp_closed_without_error',
                      z3.Or(*closed_ok) if closed_ok else z3.BoolVal(False),
                      note='the temp file must be complete (flushed and closed) before it replaces the destination')
        I.path.oblige('atomic.replace_only_when_body_completed', z3.BoolVal(fs.body_ok and fs.body_done),
                      note='an abandoned write must never be committed')
        I.path.oblige('atomic.single_replace', z3.BoolVal(not fs.replaced))
        fs.fault('replace')
        data = z3.Select(fs.content, name)
        fs.content = z3.Store(z3.Store(fs.content, tname, data), name, z3.IntVal(0))
        fs.owned = z3.Store(fs.owned, name, z3.BoolVal(False))
        fs.replaced = True
        fs.new_content = data
        return target

    parent = Obj('Path', {'name': z3.StringVal('.')}, module='')
    parent.fields['mkdir'] = Builtin('mkdir', lambda parents=False, exist_ok=False: fs.fault('mkdir'))
    p.fields.update(with_name=Builtin('with_name', with_name), open=Builtin('open', open_),
                    unlink=Builtin('unlink', unlink), replace=Builtin('replace', replace), parent=parent)
    return p


def _handle(fs, name):
    I = fs.I
    hd = Obj('Handle', {'name': name, 'closed': False, 'closed_ok': False}, module='')
    fs.handles.append(hd)

    def write(data=None):
        fs.check_dest('write')
        fs.fault('write')
        I.path.oblige('frame.write_goes_to_own_live_temp', fs.is_owned(name))
        fs.content = z3.Store(fs.content, name, fs.new_id())      # the content changed: a new id
        return None

    def close():
        if hd.fields['closed']:
            return None
        fs.check_dest('close')
        hd.fields['closed'] = True       # the descriptor is released even if the final flush fails
        fs.fault('close')
        hd.fields['closed_ok'] = True
        return None

    def exit_(et=None, ev=None, tb=None):
        close()
        return None
    hd.fields.update(write=Builtin('write', write), close=Builtin('close', close),
                     __enter__=Builtin('__enter__', lambda: hd), __exit__=Builtin('__exit__', exit_))
    return hd


def _body_write(I, vals):
    """The caller's `with` body: one write through the handle __enter__ returned.  As in a real `with` statement, an
    error raised by the body abandons the rest of the body and is handed to __exit__, then re-raised."""
    if vals.get('body_exc') is not None:
        return
    try:
        vals['handle'].fields['write'].fn(b'data')
    except PyRaise as pr:
        vals['body_exc'] = pr
        vals['fs'].body_ok = False
        sfx = '1' if vals.get('first_use') else ''
        vals['exc_type' + sfx], vals['exc' + sfx] = ClassVal(pr.exc.typ, ''), pr.exc


def _body_done(I, vals):
    if vals.get('body_exc') is None:
        vals['fs'].body_done = True


def _reraise(I, vals):
    """__exit__ returned None (it never suppresses): the body's exception propagates to the caller."""
    if vals.get('body_exc') is not None:
        raise vals['body_exc']


ENTER = {'call': f'{M}:AtomicWriter.__enter__', 'args': ['w'], 'result': 'handle'}
EXIT = {'call': f'{M}:AtomicWriter.__exit__', 'args': ['w', 'exc_type', 'exc', 'tb'], 'result': 'exit_result'}
RERAISE = {'native': _reraise}
WRITE = {'native': _body_write}
DONE = {'native': _body_done}


# carrier of the loop contract of make_tempfile's `for i in itertools.count(1)` (the function itself is inlined
# into every lemma, where the invariant is established, shown inductive and used)
MK = REG.add(Contract(f'{M}:AtomicWriter.make_tempfile', PROP, name='make_tempfile.loop'))


@MK.invariant(0)
def candidate_index_is_positive(__idx0):
    return __idx0 >= 0


def _second_use(I, vals):
    """Between two uses of one writer object: the state the first use left is the start state of the second."""
    fs = vals['fs']
    fs.old = z3.Select(fs.content, fs.dest)
    fs.replaced = False
    fs.new_content = z3.IntVal(-1)
    fs.body_ok, fs.body_done = fs.second_ok, False
    vals['first_use'] = False


SECOND = {'native': _second_use}


def _lemma(name, steps, exc=None, faults=1, exc1=None):
    lem = REG.add(Lemma(name, PROP, steps, inline=('*',)))
    lem.raises('OSError')

    def setup(h):
        from pyvc.symexec import ModuleVal
        fs = FS(h.I, h, body_ok=(exc1 if SECOND in steps else exc) is None, faults=faults)
        fs.second_ok = exc is None
        dest = _path_obj(fs, fs.dest)
        w = Obj('AtomicWriter', dict(filename=dest, encoding='utf8', _temp_name=None, is_bytes=h.bool('is_bytes'),
                                     temp=None), module=M)
        h.I.global_overrides = {'Path': Builtin('Path', lambda n: _path_obj(fs, to_z3(n))),
                                '_itertools': ModuleVal('itertools')}
        return {'locals': dict(w=w, exc_type=ClassVal(exc, '') if exc else None,
                               exc=ExcVal(exc, ()) if exc else None, tb=None, fs=fs, first_use=SECOND in steps, body_exc=None,
                               exc_type1=ClassVal(exc1, '') if exc1 else None, exc1=ExcVal(exc1, ()) if exc1 else None),
                'ghost': dict(ABANDON=exc is not None)}
    lem.setup(setup)
    return lem


@native
def dest_content(I, fs):
    return z3.Select(fs.content, fs.dest)


@native
def old_content(I, fs):
    return fs.old


@native
def no_own_temp_left(I, fs):
    return z3.And(*[z3.Not(z3.Select(fs.owned, n)) for n in fs.created]) if fs.created else True


@native
def written_content(I, fs):
    return fs.new_content


@native
def replaced(I, fs):
    return fs.replaced


@native
def fault_at(I, fs):
    return fs.fault_site or ''


def _add_clauses(lem):
    def success_means_complete_new_content_and_no_temp(fs, ABANDON):
        return implies(not ABANDON, replaced(fs) and dest_content(fs) == written_content(fs) and no_own_temp_left(fs))

    def abandoned_write_keeps_old_content_and_no_temp(fs, ABANDON):
        return implies(ABANDON, not replaced(fs) and dest_content(fs) == old_content(fs) and no_own_temp_left(fs))

    def failure_keeps_old_or_has_complete_new(fs):
        return dest_content(fs) == (written_content(fs) if replaced(fs) else old_content(fs))

    def failed_write_keeps_the_previous_contents(fs):
        # a failure before/at the rename: the previous contents remain
        return not replaced(fs) and dest_content(fs) == old_content(fs)

    def handled_failure_leaves_no_temp_file(fs):
        # the one thing that cannot be cleaned up is a failing unlink itself
        return no_own_temp_left(fs) or fault_at(fs) == 'unlink'
    lem.ensures(success_means_complete_new_content_and_no_temp)
    lem.ensures(abandoned_write_keeps_old_content_and_no_temp)
    lem.on_raise('OSError')(failure_keeps_old_or_has_complete_new)
    lem.on_raise('OSError')(failed_write_keeps_the_previous_contents)
    lem.on_raise('OSError')(handled_failure_leaves_no_temp_file)


LEMMAS = [
    _lemma('writer.commit', [ENTER, WRITE, WRITE, DONE, EXIT, RERAISE]),
    _lemma('writer.commit_empty', [ENTER, DONE, EXIT, RERAISE]),
    _lemma('writer.abandon_exception', [ENTER, WRITE, EXIT, RERAISE], exc='RuntimeError'),
    _lemma('writer.abandon_keyboard_interrupt', [ENTER, WRITE, EXIT, RERAISE], exc='KeyboardInterrupt'),
    _lemma('writer.abandon_system_exit', [ENTER, EXIT, RERAISE], exc='SystemExit'),
    _lemma('writer.reenter_without_exit', [ENTER, WRITE, dict(ENTER, unless='body_exc'), WRITE, DONE, EXIT, RERAISE]),
]
for _l in LEMMAS:
    _add_clauses(_l)


EXIT1 = {'call': f'{M}:AtomicWriter.__exit__', 'args': ['w', 'exc_type1', 'exc1', 'tb']}
REUSE = [
    _lemma('writer.reuse_after_commit', [ENTER, WRITE, DONE, EXIT1, RERAISE, SECOND, ENTER, WRITE, DONE, EXIT, RERAISE]),
    _lemma('writer.reuse_after_abandon', [ENTER, WRITE, EXIT1, RERAISE, SECOND, ENTER, WRITE, DONE, EXIT, RERAISE], exc1='ValueError'),
]
for _l in REUSE:
    _add_clauses(_l)
PROOFS = LEMMAS + REUSE


# ------------------------------------------------------------------------------------------------ BSP.save (AST)
def _res(name, ok, line=0, note=''):
    r = smt.Result(name, 'proved' if ok else 'refuted', 'ast-effects', 0.0, {}, line, 0, note)
    r.replay_fn = _witness
    return r


FILE_API = {'open', 'os.replace', 'os.rename', 'os.remove', 'os.unlink', 'os.open', 'os.write', 'os.truncate',
            'shutil.copy', 'shutil.copyfile', 'shutil.move', 'shutil.copyfileobj', 'Path', 'io.open', 'io.FileIO'}


def _shape_target(name, ok, line=0, note=''):
    # good: AtomicWriter(filename or self.filename, ...); known bad: the requested name is ignored (self.filename alone)
    sh = smt.shape(name, ok, note.startswith('AtomicWriter(self.filename'), line, note, 'ast-effects')
    sh.replay_fn = _witness
    return sh


def static_save(repo):
    """BSP.save touches the file system only through one `with AtomicWriter(<requested name>, is_bytes=True) as file`;
    the handle (and the DeferredWrites wrapper built from it) is used only inside that block and does not escape."""
    mod = extract.load('bsp')
    fn = mod.find('BSP.save')
    out = []
    withs = [n for n in ast.walk(fn) if isinstance(n, ast.With)
             and any(isinstance(i.context_expr, ast.Call) and ast.unparse(i.context_expr.func) == 'AtomicWriter'
                     for i in n.items)]
    plain_open = any(isinstance(n, ast.Call) and ast.unparse(n.func) in ('open', 'io.open') for n in ast.walk(fn))
    sh = smt.shape('save.uses_one_atomic_writer_block', len(withs) == 1, plain_open, fn.lineno, '', 'ast-effects')
    sh.replay_fn = _witness
    out.append(sh)
    if len(withs) != 1:
        return out
    w = withs[0]
    item = w.items[0]
    call = item.context_expr
    out.append(_shape_target('save.atomic_writer_targets_the_requested_file',
                             bool(call.args) and ast.unparse(call.args[0]) == 'filename or self.filename', w.lineno,
                             ast.unparse(call)))
    handle = item.optional_vars.id if isinstance(item.optional_vars, ast.Name) else None
    out.append(_res('save.handle_is_bound_by_the_with', handle is not None, w.lineno))
    inside = {id(n) for n in ast.walk(w)}
    # names derived from the handle (DeferredWrites(file))
    derived = {handle}
    for n in ast.walk(w):
        if isinstance(n, ast.Assign) and any(isinstance(x, ast.Name) and x.id in derived for x in ast.walk(n.value)):
            for t in n.targets:
                if isinstance(t, ast.Name):
                    derived.add(t.id)
    bad, escapes = [], []
    for n in ast.walk(fn):
        if isinstance(n, ast.Call):
            f = ast.unparse(n.func)
            if f in FILE_API or f.endswith(('.open', '.write_bytes', '.write_text', '.unlink', '.rename', '.replace'))  \
                    and not f.startswith(('struct.',)):
                bad.append((n.lineno, f))
        if isinstance(n, ast.Name) and n.id in derived and id(n) not in inside:
            bad.append((n.lineno, f'{n.id} used outside the AtomicWriter block'))
        if isinstance(n, (ast.Assign, ast.AnnAssign)) and id(n) in inside:
            tg = n.targets if isinstance(n, ast.Assign) else [n.target]
            if any(isinstance(t, (ast.Attribute, ast.Subscript)) for t in tg) and \
                    any(isinstance(x, ast.Name) and x.id in derived for x in ast.walk(n.value)):
                escapes.append((n.lineno, ast.unparse(n)))
        if isinstance(n, (ast.Return, ast.Yield)) and n.value is not None and \
                any(isinstance(x, ast.Name) and x.id in derived for x in ast.walk(n.value)):
            escapes.append((n.lineno, ast.unparse(n)))
    out.append(_res('save.no_other_file_system_call', not bad, bad[0][0] if bad else fn.lineno, str(bad[:3])))
    out.append(_res('save.handle_does_not_escape', not escapes, escapes[0][0] if escapes else fn.lineno, str(escapes[:3])))
    # DeferredWrites only seeks/writes on the handle it was given
    dw = extract.load('binformat').find('DeferredWrites')
    other = []
    for n in ast.walk(dw):
        if isinstance(n, ast.Call):
            f = ast.unparse(n.func)
            if f in FILE_API or (f.endswith(('.open', '.unlink', '.rename', '.replace'))):
                other.append((n.lineno, f))
            if f.endswith(('.write', '.seek', '.tell')) and not f.startswith('self.file.'):
                other.append((n.lineno, f))
    out.append(_res('deferred_writes.only_uses_the_given_handle', not other, other[0][0] if other else dw.lineno,
                    str(other[:3])))
    return out


STATIC = [static_save]


# ------------------------------------------------------------------------------------------------ bounded: fault injection
class _Boom(OSError):
    pass


def _scenario(spec):
    """spec = (fault_site, fault_index, body_exc, prior_temp_names, old_exists)."""
    import pathlib
    import srctools
    site, index, body_exc, taken, old_exists = spec
    tmp = tempfile.mkdtemp(prefix='c12_')
    counters = {}
    originals = {}

    def arm(cls, attr, key):
        orig = getattr(cls, attr)
        originals[(cls, attr)] = orig

        def patched(self, *a, **k):
            if str(getattr(self, 'parent', '')) == tmp or key == 'close':
                counters[key] = counters.get(key, 0) + 1
                if site == key and counters[key] == index:
                    counters['fired'] = key
                    raise _Boom(f'injected fault at {key} #{index}')
            return orig(self, *a, **k)
        setattr(cls, attr, patched)
    try:
        dest = os.path.join(tmp, 'out.bin')
        if old_exists:
            with open(dest, 'wb') as f:
                f.write(b'OLD-CONTENT')
        for n in taken:
            with open(os.path.join(tmp, n), 'wb') as f:
                f.write(b'other writer: ' + n.encode())
        arm(pathlib.Path, 'open', 'open')
        arm(pathlib.Path, 'replace', 'replace')
        arm(pathlib.Path, 'unlink', 'unlink')
        raised = None
        writer = srctools.AtomicWriter(dest, is_bytes=True)
        try:
            with writer as f:
                if site == 'close':
                    real_close = f.close
                    state = {'n': 0}

                    def bad_close():
                        state['n'] += 1
                        real_close()
                        if state['n'] == index:
                            raise _Boom('injected fault at close')
                    try:
                        f.close = bad_close
                    except AttributeError:
                        pass
                f.write(b'NEW-')
                if body_exc == 'exc':
                    raise RuntimeError('body failed')
                if body_exc == 'kbd':
                    raise KeyboardInterrupt()
                if body_exc == 'exit':
                    raise SystemExit(3)
                f.write(b'CONTENT')
        except BaseException as e:      # noqa: B902 - kill-like exceptions are part of the scenario
            if isinstance(e, (JobTimeout, MemoryError)):
                raise
            raised = e
        finally:
            for (cls, attr), orig in originals.items():
                setattr(cls, attr, orig)
        now = open(dest, 'rb').read() if os.path.exists(dest) else None
        old = b'OLD-CONTENT' if old_exists else None
        if now not in (old, b'NEW-CONTENT'):
            return f'destination holds {now!r}: neither the old content {old!r} nor the complete new content'
        if raised is None and now != b'NEW-CONTENT':
            return f'the writer reported success but the destination holds {now!r}'
        if raised is not None and body_exc and now != old:
            return f'the write was abandoned ({type(raised).__name__}) but the destination changed to {now!r}'
        left = sorted(n for n in os.listdir(tmp) if n.startswith('tmp_') and n not in taken)
        if left and counters.get('fired') != 'unlink':
            # (a failing unlink is the one failure after which the temp file cannot be removed)
            return f'temporary file(s) {left} left behind after {type(raised).__name__ if raised else "success"}'
        for n in taken:
            p = os.path.join(tmp, n)
            if not os.path.exists(p) or open(p, 'rb').read() != b'other writer: ' + n.encode():
                return f"another writer's temp file {n} was clobbered"
        return None
    finally:
        shutil.rmtree(tmp, ignore_errors=True)


def _two_writers(order):
    """Two writers to different files in one directory; `order` is a sequence of steps a_enter, a_write, ..."""
    import srctools
    tmp = tempfile.mkdtemp(prefix='c12w_')
    try:
        W = {'a': srctools.AtomicWriter(os.path.join(tmp, 'a.txt')), 'b': srctools.AtomicWriter(os.path.join(tmp, 'b.txt'))}
        files = {}
        done = {}
        content = {'a': '', 'b': ''}
        gen = {'a': 0, 'b': 0}
        for step in order:
            who, what = step.split('_')
            try:
                if what == 'enter':
                    gen[who] += 1
                    files[who] = W[who].__enter__()
                    content[who] = ''
                elif what == 'write' and who in files:
                    data = f'{who}{gen[who]}-data;'
                    files[who].write(data)
                    content[who] += data
                elif what == 'exit' and who in files:
                    W[who].__exit__(None, None, None)
                    done[who] = content[who]
                    del files[who]
                elif what == 'fail' and who in files:
                    W[who].__exit__(RuntimeError, RuntimeError('x'), None)
                    del files[who]
            except JobTimeout:
                raise
            except Exception as e:
                return f'step {step} raised {type(e).__name__}: {e}'
            for k, want in done.items():
                got = open(os.path.join(tmp, f'{k}.txt')).read()
                if got != want:
                    return f'after {step}: {k}.txt holds {got!r}, its writer committed {want!r}'
        return None
    finally:
        shutil.rmtree(tmp, ignore_errors=True)


class _FailingHandle:
    """Proxy for the temp-file handle: the k-th write raises."""
    def __init__(self, real, k, exc):
        self._real, self._k, self._exc, self.count = real, k, exc, 0

    def write(self, data):
        self.count += 1
        if self.count == self._k:
            self._real.write(data[:len(data) // 2])       # a torn write, then the failure
            raise self._exc
        return self._real.write(data)

    def __getattr__(self, name):
        return getattr(self._real, name)


def _bsp_save_fault(job):
    """BSP.save of the sample map with the k-th write torn and failing (OSError or KeyboardInterrupt)."""
    k, kind = job
    import srctools
    import srctools.bsp as bspmod
    from contracts.bsp_support import SAMPLE
    tmp = tempfile.mkdtemp(prefix='c12b_')
    try:
        dest = os.path.join(tmp, 'map.bsp')
        shutil.copy(os.path.join(extract.REPO, SAMPLE), dest)
        before = open(dest, 'rb').read()
        bsp = bspmod.BSP(dest)
        bsp.ents  # noqa: B018 - parse one lump so that the save rebuilds it
        box = {}

        class Writer(srctools.AtomicWriter):
            def __enter__(self):
                box['h'] = _FailingHandle(super().__enter__(), k, OSError('disk full') if kind == 'os' else KeyboardInterrupt())
                return box['h']
        orig = bspmod.AtomicWriter
        bspmod.AtomicWriter = Writer
        raised = None
        try:
            bsp.save()
        except BaseException as e:      # noqa: B902
            if isinstance(e, (JobTimeout, MemoryError)):
                raise
            raised = e
        finally:
            bspmod.AtomicWriter = orig
        after = open(dest, 'rb').read()
        left = sorted(n for n in os.listdir(tmp) if n != 'map.bsp')
        total = box['h'].count
        if raised is None:
            if k <= total:
                return ('bad', f'write #{k} failed but save() reported success')
            # no fault fired: the new file must be a complete, loadable BSP
            bspmod.BSP(dest)
            return ('writes', total) if not left else ('bad', f'temp files left after success: {left}')
        if after != before:
            return ('bad', f'save() failed at write #{k} ({type(raised).__name__}) and the destination changed '
                           f'({len(before)} -> {len(after)} bytes)')
        if left:
            return ('bad', f'save() failed at write #{k} and left {left}')
        return ('ok', total)
    finally:
        shutil.rmtree(tmp, ignore_errors=True)


def _job_bsp(job):
    try:
        return _bsp_save_fault(job)
    except JobTimeout:
        raise
    except Exception as e:
        return ('bad', f'harness: {type(e).__name__}: {e}')


def _job_scenario(spec):
    try:
        return _scenario(spec)
    except JobTimeout:
        raise
    except Exception as e:
        return f'harness: {type(e).__name__}: {e}'


def _job_writers(order):
    try:
        return _two_writers(order)
    except JobTimeout:
        raise
    except Exception as e:
        return f'harness: {type(e).__name__}: {e}'


@bounded('C12.B-faults', bound='one injected OSError at the k-th open / replace / unlink / close (k = 1..3), body '
         'finishing, raising RuntimeError, KeyboardInterrupt or SystemExit after a partial write, 0..2 temp names already '
         'taken by another writer, destination existing or not; two writers in one directory: all interleavings of '
         '<= 7 steps (thorough: 8) incl. re-entering a writer', rule='one case per scenario; all are non-trivial')
def b_faults(ctx):
    jobs = []
    for site in (None, 'open', 'replace', 'unlink', 'close'):
        for index in ((1,) if site is None else (1, 2, 3)):
            for body in (None, 'exc', 'kbd', 'exit'):
                for taken in ((), ('tmp_1',), ('tmp_1', 'tmp_2')):
                    for old in (True, False):
                        jobs.append((site, index, body, taken, old))
    for job, bad in ctx.pmap(_job_scenario, jobs, batch=256):
        ctx.case(job)
        if bad:
            ctx.violation(f'fault={job[0]}#{job[1]}.body={job[2]}.taken={len(job[3])}.old={int(job[4])}', bad, list(job))
    steps = ['a_enter', 'a_write', 'a_exit', 'a_fail', 'b_enter', 'b_write', 'b_exit']
    n = 8 if ctx.thorough else 6
    orders = []
    for length in range(3, n + 1):
        for o in itertools.product(steps, repeat=length):
            if o[0].endswith('enter') and sum(s.endswith('enter') for s in o) >= 2 and any(s.endswith('exit') for s in o):
                orders.append(o)
    if len(orders) > (200000 if ctx.thorough else 20000):
        orders = ctx.rng.sample(orders, 200000 if ctx.thorough else 20000)
    for job, bad in ctx.pmap(_job_writers, orders, batch=4096):
        ctx.case(job)
        if bad:
            from pyvc.driver import minimise
            core = minimise(list(job), lambda c: _job_writers(tuple(c)))
            ctx.violation('writers=' + '>'.join(core), _job_writers(tuple(core)) or bad, list(core))


@bounded('C12.B-bsp-save', bound='BSP.save of tests/test_vec/rot_main.bsp with the k-th write to the temp file torn in '
         'half and failing, for every k up to the number of writes of a complete save, with OSError and with '
         'KeyboardInterrupt', rule='one case per (k, kind); all non-trivial')
def b_bsp_save(ctx):
    total = [r for _, r in ctx.pmap(_job_bsp, [(10 ** 9, 'os')], job_timeout=20.0)][0]      # (a worker: time-limited)
    if isinstance(total, str) or total[0] != 'writes':
        ctx.violation('bsp_save.nofault', total if isinstance(total, str) else str(total[1]), [10 ** 9, 'os'])
        return
    jobs = [(k, kind) for k in range(1, total[1] + 1) for kind in ('os', 'kbd')]
    for job, res in ctx.pmap(_job_bsp, jobs, batch=64, job_timeout=20.0):
        ctx.case(job)
        if isinstance(res, str) or res[0] == 'bad':
            ctx.violation(f'bsp_save.write{job[0]}.{job[1]}', res if isinstance(res, str) else res[1], list(job))


b_bsp_save.replay = lambda inp: (lambda r: {'failed': isinstance(r, str) or r[0] == 'bad', 'observation': r})(_job_bsp(tuple(inp)))


def _replay(inp):
    if inp and isinstance(inp[0], str) and '_' in inp[0]:
        bad = _job_writers(tuple(inp))
    else:
        bad = _job_scenario((inp[0], inp[1], inp[2], tuple(inp[3]), inp[4]))
    return {'failed': bool(bad), 'observation': bad}


b_faults.replay = _replay
BOUNDED = [b_faults, b_bsp_save]


_WITNESS = []


def _witness(model=None, obligation=None):
    """Native confirmation for a refuted obligation: the fault-injection scenarios that correspond to the model's
    fault sites, run against the real code (once per run; every scenario time-limited)."""
    from pyvc.driver import _call_with_timeout
    if _WITNESS:
        return _WITNESS[0]
    out = {'failed': False}
    for spec in [('close', 1, None, (), True), ('replace', 1, None, (), True), ('unlink', 1, 'exc', (), True),
                 (None, 1, 'kbd', (), True), (None, 1, 'exc', (), True), ('open', 1, None, ('tmp_1',), True),
                 (None, 1, None, ('tmp_1', 'tmp_2'), False), (None, 1, None, (), True)]:
        bad = _call_with_timeout((_job_scenario, spec, 4.0))
        if bad:
            out = {'failed': True, 'scenario': list(spec), 'observation': bad}
            break
    else:
        for order in [('a_enter', 'a_write', 'a_exit', 'b_enter', 'b_write', 'a_enter', 'a_write', 'b_exit', 'a_exit')]:
            bad = _call_with_timeout((_job_writers, order, 4.0))
            if bad:
                out = {'failed': True, 'scenario': list(order), 'observation': bad}
    _WITNESS.append(out)
    return out


for _c in PROOFS:
    _c.replay_fn = _witness


# ------------------------------------------------------------------------------------------------ self-test catalogue
MUTATIONS = [
    dict(name='non_exclusive_open', file='__init__.py', old="self.temp = self._temp_name.open('xb')",
         new="self.temp = self._temp_name.open('wb')", expect='frame.open_is_exclusive_create'),
    dict(name='no_unlink_on_error', file='__init__.py',
         old="            try:\n                self._temp_name.unlink()\n            except FileNotFoundError:\n                pass",
         new="            pass", expect='abandoned_write_keeps_old_content_and_no_temp'),
    dict(name='only_exception_subclasses_abandon', file='__init__.py', old="        if exc_type is not None:\n            # An exception occurred",
         new="        if exc_type is not None and issubclass(exc_type, Exception):\n            # An exception occurred",
         expect='replace_only_when_body_completed'),
    dict(name='write_straight_to_destination', file='__init__.py',
         old="            self._temp_name = self.filename.with_name(f'tmp_{i}')",
         new="            self._temp_name = self.filename", expect='open_never_targets_destination'),
    dict(name='failed_rename_keeps_temp', file='__init__.py',
         old="                # Failed to move it over, don't leave the temp file around.\n                self._temp_name.unlink(missing_ok=True)\n",
         new="", expect='handled_failure_leaves_no_temp_file'),
    dict(name='failed_close_still_commits', file='__init__.py',
         old="            except BaseException:\n                # Couldn't flush and close, so the data is incomplete. Discard it.\n"
             "                if self._temp_name is not None:\n                    self._temp_name.unlink(missing_ok=True)\n                raise",
         new="            except BaseException:\n                pass", expect='replace_only_after_temp_closed_without_error'),
    dict(name='reenter_unlinks_stale_name', file='__init__.py',
         old="        if self.temp is not None:\n            # Already open - close and delete the current file.\n            try:\n                self.temp.close()\n            finally:\n                Path(self.temp.name).unlink()",
         new="        if self._temp_name is not None:\n            if self.temp is not None:\n                self.temp.close()\n            self._temp_name.unlink(missing_ok=True)",
         expect='unlink_only_own_live_temp'),
    dict(name='rename_before_close', file='__init__.py',
         old="        if self.temp is not None:\n            temp, self.temp = self.temp, None\n            try:",
         new="        if self.temp is not None and self._temp_name is not None and exc_type is None:\n            self._temp_name.replace(self.filename)\n        if self.temp is not None:\n            temp, self.temp = self.temp, None\n            try:",
         expect='replace_only_after_temp_closed_without_error'),
    dict(name='bsp_save_plain_open', file='bsp.py', old="        with AtomicWriter(filename or self.filename, is_bytes=True) as file:",
         new="        with open(filename or self.filename, 'wb') as file:", expect='save.uses_one_atomic_writer_block'),
    dict(name='bsp_save_wrong_target', file='bsp.py', old="        with AtomicWriter(filename or self.filename, is_bytes=True) as file:",
         new="        with AtomicWriter(self.filename, is_bytes=True) as file:", expect='save.atomic_writer_targets_the_requested_file'),
]
HARMLESS = [
    dict(name='rename_local', file='__init__.py', old="            temp, self.temp = self.temp, None\n            try:\n                temp.__exit__(exc_type, exc_value, tback)",
         new="            handle, self.temp = self.temp, None\n            try:\n                handle.__exit__(exc_type, exc_value, tback)"),
    dict(name='clear_temp_name_after_use', file='__init__.py', old="        return None  # Don't cancel the exception.",
         new="        self._temp_name = None\n        return None  # Don't cancel the exception."),
]
