"""C09 -- copies of map objects are complete and independent of their source.

Proof tier (contracts on every `copy`, decided on the AST of the real methods + symbolic execution where useful):
  coverage   every field of the class (slots / attrs fields / attributes assigned in __init__) is read by copy();
             for element classes built inside copy() (DispVertex) every field of the element is read from the element;
  freshness  a field of a mutable type is never passed on bare (it goes through .copy()/list()/set()/a constructor/
             a comprehension whose elements are calls) unless the receiving constructor converts it;
  operators  Keyvalues.__add__ assigns / appends to nothing reachable from `self` or `other`;
  Keyvalues.copy executed symbolically on all tree shapes of depth <= 2: every node and every child list of the
             result is allocated in the call.
Bounded tier: generated objects; export of copy == export of original (IDs apart); every in-place mutation of one
side leaves the other's export unchanged; operators leave operands unchanged.
"""
import ast
import io
import itertools

import z3

from pyvc import extract, smt
from pyvc.driver import bounded
from pyvc.symexec import Obj, PList
from pyvc.vc import Contract, Registry, native

REG = Registry()
PROP = 'C09'
LEVEL = 'proof'
EXPLANATION = ('Every copy method of vmf.py / keyvalues.py is checked against a coverage + freshness contract derived '
               'from the class\'s own field list; Keyvalues.copy is executed symbolically on every tree shape up to depth '
               '2 and shown to allocate every node and child list; Keyvalues.__add__ shown to mutate neither operand. '
               'Independence under later mutation follows from freshness; it is additionally exercised by a bounded '
               'stand-in that mutates every reachable vector / key / vertex of generated objects.')
TRUSTED = ['a value produced by .copy(), list(), set(), dict(), a constructor call or a comprehension of such calls is a '
           'new object; attrs converters named in the class body run on construction',
           'field lists are taken from __slots__, attrs annotations and `self.x = ...` in __init__']
UNVERIFIED = ['collapse_one copying (C17)', 'Vec/Angle/Matrix operators (C04/C05)']

MUTABLE_HINTS = ('Vec', 'list', 'List', 'set', 'Set', 'dict', 'Dict', 'Array', 'UVAxis', 'Matrix', 'Angle',
                 'EntityFixup', 'Keyvalues', 'Output', 'Solid', 'Side', 'DispVertex', 'FixupValue')
IMMUTABLE_OVERRIDE = ('FrozenVec', 'FrozenAngle', 'FrozenMatrix', 'frozenset', 'Vec4', 'tuple', 'Tuple', 'VMF', 'str')


def _res(name, ok, line=0, note=''):
    r = smt.Result(name, 'proved' if ok else 'refuted', 'ast-scan', 0.0, {}, line, 0, note)
    r.replay_fn = _witness
    return r


def _class_fields(mod, clsname):
    """name -> annotation text ('' if unknown), from __slots__, class-level annotations and __init__ stores."""
    cd = mod.classdef(clsname)
    fields = {}
    for st in cd.body:
        if isinstance(st, ast.AnnAssign) and isinstance(st.target, ast.Name):
            ann = ast.unparse(st.annotation)
            if not ann.startswith('ClassVar'):
                fields[st.target.id] = ann
        if isinstance(st, ast.Assign) and any(isinstance(t, ast.Name) and t.id == '__slots__' for t in st.targets):
            try:
                for n in ast.literal_eval(st.value):
                    fields.setdefault(n, '')
            except ValueError:
                pass
    init = next((f for f in cd.body if isinstance(f, ast.FunctionDef) and f.name == '__init__'), None)
    if init is not None:
        for node in ast.walk(init):
            if isinstance(node, (ast.Assign, ast.AnnAssign)):
                tgts = node.targets if isinstance(node, ast.Assign) else [node.target]
                for t in tgts:
                    if isinstance(t, ast.Attribute) and isinstance(t.value, ast.Name) and t.value.id == 'self':
                        ann = ast.unparse(node.annotation) if isinstance(node, ast.AnnAssign) else ''
                        if not fields.get(t.attr):
                            fields[t.attr] = ann or fields.get(t.attr, '')
    return fields


def _is_mutable(ann):
    a = ann.replace('Optional[', '').replace("'", '')
    if any(a.startswith(x) or a == x for x in IMMUTABLE_OVERRIDE):
        return False
    return any(h in a for h in MUTABLE_HINTS)


def _reads(fn, base):
    """Fields read as <base>.<field> anywhere in fn."""
    out = {}
    for node in ast.walk(fn):
        if isinstance(node, ast.Attribute) and isinstance(node.value, ast.Name) and node.value.id == base \
                and isinstance(node.ctx, ast.Load):
            out.setdefault(node.attr, node.lineno)
    return out


def _is_fresh_expr(e):
    """The expression builds a new object (not a bare reference to an existing one)."""
    if isinstance(e, (ast.ListComp, ast.SetComp, ast.DictComp, ast.List, ast.Set, ast.Dict, ast.Tuple)):
        return True
    if isinstance(e, ast.Call):
        return True
    if isinstance(e, ast.IfExp):
        return _is_fresh_expr(e.body) and _is_fresh_expr(e.orelse)
    if isinstance(e, ast.Constant):
        return True
    return False


def _elements_fresh(e):
    """For containers of mutable elements: a comprehension (or list display) whose element is a call."""
    if isinstance(e, (ast.ListComp, ast.SetComp, ast.GeneratorExp)):
        return isinstance(e.elt, ast.Call)
    if isinstance(e, (ast.List, ast.Tuple, ast.Set)):
        return all(isinstance(x, ast.Call) for x in e.elts)
    if isinstance(e, ast.IfExp):
        return _elements_fresh(e.body) and _elements_fresh(e.orelse)
    if isinstance(e, ast.Constant):
        return True
    return False


ELEMENT_MUTABLE = {  # field -> element class, for containers whose *elements* are mutable objects
    ('Side', 'planes'): 'Vec', ('Side', '_disp_verts'): 'DispVertex', ('Side', 'strata_points'): 'Vec',
    ('Solid', 'sides'): 'Side', ('Entity', 'outputs'): 'Output', ('Entity', 'solids'): 'Solid',
    ('Entity', '_fixup'): 'FixupValue', ('VisGroup', 'child_groups'): 'VisGroup',
}
COPIES = [  # (module, class, ignore fields: back references, ids, caches)
    ('vmf', 'Side', {'map', 'id'}), ('vmf', 'Solid', {'map', 'id'}), ('vmf', 'Entity', {'map', 'id', '_keys_old'}),
    ('vmf', 'Output', {'SEP'}), ('vmf', 'VisGroup', {'vmf', 'id'}), ('vmf', 'EntityGroup', {'vmf'}),
    ('vmf', 'Camera', {'map'}), ('vmf', 'Cordon', {'map'}), ('vmf', 'UVAxis', set()),
    ('keyvalues', 'Keyvalues', set()),
]
CTOR_CONVERTS = {  # constructor parameters that the receiving __init__ / attrs converter copies itself
    ('Entity', 'keys'), ('Entity', 'groups'), ('Entity', 'vis_ids'), ('Solid', 'visgroup_ids'), ('Entity', 'editor_color'),
}


def static_copy_contracts(repo):
    out = []
    for modname, clsname, ignore in COPIES:
        mod = extract.load(modname)
        cd = mod.classdef(clsname)
        copy_fn = next((f for f in cd.body if isinstance(f, ast.FunctionDef) and f.name == 'copy'), None)
        out.append(_res(f'copy.{clsname}.exists', copy_fn is not None))
        if copy_fn is None:
            continue
        fields = _class_fields(mod, clsname)
        reads = _reads(copy_fn, 'self')
        for f, ann in sorted(fields.items()):
            if f in ignore or f.startswith('__'):
                continue
            out.append(_res(f'copy.{clsname}.coverage.{f}', f in reads, copy_fn.lineno,
                            '' if f in reads else f'{clsname}.copy() never reads self.{f}: the field is not carried over'))
        # freshness of what is handed to the new object
        for node in ast.walk(copy_fn):
            exprs = []
            if isinstance(node, ast.Call) and isinstance(node.func, ast.Name) and node.func.id == clsname:
                exprs += [(a, None) for a in node.args] + [(k.value, k.arg) for k in node.keywords]
            if isinstance(node, ast.Assign) and len(node.targets) == 1 and isinstance(node.targets[0], ast.Attribute) \
                    and not (isinstance(node.targets[0].value, ast.Name) and node.targets[0].value.id == 'self'):
                exprs.append((node.value, node.targets[0].attr))
            for e, kw in exprs:
                src = e
                if isinstance(src, ast.IfExp):
                    srcs = [src.body, src.orelse]
                else:
                    srcs = [src]
                for s in srcs:
                    if isinstance(s, ast.Name):
                        # a local: look through `name = <expr>` when it is assigned exactly once in copy()
                        assigns = [n.value for n in ast.walk(copy_fn) if isinstance(n, ast.Assign) and len(n.targets) == 1
                                   and isinstance(n.targets[0], ast.Name) and n.targets[0].id == s.id]
                        if len(assigns) == 1:
                            s = assigns[0]
                    if isinstance(s, ast.Attribute) and isinstance(s.value, ast.Name) and s.value.id == 'self':
                        f = s.attr
                        if _is_mutable(fields.get(f, '')) and (clsname, kw or f) not in CTOR_CONVERTS \
                                and (clsname, f) not in CTOR_CONVERTS:
                            out.append(_res(f'copy.{clsname}.fresh.{f}', False, s.lineno,
                                            f'self.{f} ({fields.get(f)}) is handed to the copy as is: both objects share it'))
                    for (c, f), elem in ELEMENT_MUTABLE.items():
                        if c != clsname:
                            continue
                        mentions = any(isinstance(n, ast.Attribute) and n.attr == f and isinstance(n.value, ast.Name)
                                       and n.value.id == 'self' for n in ast.walk(s))
                        if mentions and not _elements_fresh(s) and not _is_elem_copy_name(copy_fn, s):
                            out.append(_res(f'copy.{clsname}.fresh_elements.{f}', False, s.lineno,
                                            f'the {elem} objects of self.{f} reach the copy without being copied: '
                                            f'{ast.unparse(s)[:70]}'))
        # positive freshness records for the element containers that are handled
        for (c, f), elem in ELEMENT_MUTABLE.items():
            if c == clsname and f in reads and not any(r.name == f'copy.{clsname}.fresh_elements.{f}' for r in out):
                out.append(_res(f'copy.{clsname}.fresh_elements.{f}', True, reads[f]))
        # element classes constructed inside copy(): all their fields must come from the element
        for node in ast.walk(copy_fn):
            if isinstance(node, (ast.ListComp,)) and isinstance(node.elt, ast.Call) and isinstance(node.elt.func, ast.Name) \
                    and node.elt.func.id == 'DispVertex':
                var = node.generators[0].target.id
                efields = _class_fields(mod, 'DispVertex')
                eread = {n.attr for n in ast.walk(node.elt) if isinstance(n, ast.Attribute)
                         and isinstance(n.value, ast.Name) and n.value.id == var}
                for f in sorted(efields):
                    out.append(_res(f'copy.{clsname}.element.DispVertex.{f}', f in eread, node.lineno,
                                    '' if f in eread else f'DispVertex.{f} is not carried over to the copied vertex'))
    return out


def _is_elem_copy_name(fn, e):
    """`sides` where an earlier statement was `sides = [s.copy(...) for s in self.sides]`; or a call of a helper
    method (EntityFixup.copy_values) whose return expression itself builds new elements."""
    if isinstance(e, ast.IfExp):
        return _is_elem_copy_name(fn, e.body) and _is_elem_copy_name(fn, e.orelse)
    if isinstance(e, ast.Call) and isinstance(e.func, ast.Attribute) and e.func.attr == 'copy_values':
        helper = extract.load('vmf').find('EntityFixup.copy_values')
        rets = [n.value for n in ast.walk(helper) if isinstance(n, ast.Return) and n.value is not None]
        return bool(rets) and all(_elements_fresh(r) for r in rets)
    if isinstance(e, (ast.Tuple, ast.Constant)):
        return True
    if not isinstance(e, ast.Name):
        return False
    for node in ast.walk(fn):
        if isinstance(node, ast.Assign) and len(node.targets) == 1 and isinstance(node.targets[0], ast.Name) \
                and node.targets[0].id == e.id:
            return _elements_fresh(node.value)
    return False


def static_operators(repo):
    """Keyvalues.__add__ produces a new tree: nothing reachable from `self` or `other` is assigned or appended to."""
    mod = extract.load('keyvalues')
    cd = mod.classdef('Keyvalues')
    fn = next(f for f in cd.body if isinstance(f, ast.FunctionDef) and f.name == '__add__')
    out = []
    bad = []
    for node in ast.walk(fn):
        if isinstance(node, ast.Call) and isinstance(node.func, ast.Attribute) \
                and node.func.attr in ('append', 'extend', 'insert', 'clear', 'pop', 'remove'):
            root = node.func.value
            while isinstance(root, ast.Attribute):
                root = root.value
            if isinstance(root, ast.Name) and root.id in ('self', 'other'):
                bad.append((node.lineno, ast.unparse(node)[:60]))
        if isinstance(node, (ast.Assign, ast.AugAssign)):
            tgts = node.targets if isinstance(node, ast.Assign) else [node.target]
            for t in tgts:
                root = t
                while isinstance(root, (ast.Attribute, ast.Subscript)):
                    root = root.value
                if isinstance(root, ast.Name) and root.id in ('self', 'other') and not isinstance(t, ast.Name):
                    bad.append((node.lineno, ast.unparse(node)[:60]))
    out.append(_res('operators.Keyvalues.__add__.operands_unchanged', not bad, bad[0][0] if bad else fn.lineno,
                    '; '.join(f'line {l}: {t}' for l, t in bad)))
    return out


STATIC = [static_copy_contracts, static_operators]

# ------------------------------------------------------------------------------------------------ Keyvalues.copy (symbolic)
kvcopy = REG.add(Contract('keyvalues:Keyvalues.copy', PROP, modular=False, inline=('Keyvalues.copy',)))


def _kv(h, name, value):
    return Obj('Keyvalues', dict(_real_name=h.str(name + '_name'), _folded_name=h.str(name + '_fold'), line_num=h.int(name + '_line'),
                                 _value=value), module='keyvalues')


def _shape(kind):
    def setup(h):
        if kind == 'leaf':
            root = _kv(h, 'r', h.str('r_val'))
        elif kind == 'empty_block':
            root = _kv(h, 'r', PList([]))
        elif kind == 'block_of_leaves':
            root = _kv(h, 'r', PList([_kv(h, 'a', h.str('a_val')), _kv(h, 'b', h.str('b_val'))]))
        else:
            root = _kv(h, 'r', PList([_kv(h, 'a', PList([])), _kv(h, 'b', PList([_kv(h, 'c', h.str('c_val'))]))]))
        return {'args': [root], 'ghost': dict(src=root)}
    return setup


for _k in ('leaf', 'empty_block', 'block_of_leaves', 'nested'):
    kvcopy.setup(_shape(_k), label=_k)


@native
def all_fresh(I, result, src):
    """Every Keyvalues node and every child list reachable from the result was allocated by the call, and none of
    them is reachable from the source."""
    src_ids = set()

    def collect(o):
        src_ids.add(id(o))
        v = o.fields['_value']
        if isinstance(v, PList):
            src_ids.add(id(v))
            for c in v.items:
                collect(c)
    collect(src)

    def check(o):
        if not isinstance(o, Obj) or not o.fresh or id(o) in src_ids:
            return False
        v = o.fields.get('_value')
        if isinstance(v, PList):
            if not v.fresh or id(v) in src_ids:
                return False
            return all(check(c) for c in v.items)
        return True
    return check(result)


@native
def same_content(I, result, src):
    from pyvc.builtins_model import equal
    from pyvc.symexec import to_z3

    def eq(a, b):
        parts = [equal(I, a.fields[f], b.fields[f]) for f in ('_real_name', '_folded_name', 'line_num')]
        va, vb = a.fields['_value'], b.fields['_value']
        if isinstance(va, PList) != isinstance(vb, PList):
            return [False]
        if isinstance(va, PList):
            if len(va.items) != len(vb.items):
                return [False]
            for x, y in zip(va.items, vb.items):
                parts += eq(x, y)
        else:
            parts.append(equal(I, va, vb))
        return parts
    parts = eq(result, src)
    if any(p is False for p in parts):
        return False
    zs = [to_z3(p) for p in parts if p is not True]
    return z3.And(*zs) if zs else True


@kvcopy.ensures
def every_node_and_child_list_is_new(result, src):
    return all_fresh(result, src)


@kvcopy.ensures
def names_values_and_order_are_kept(result, src):
    return same_content(result, src)


PROOFS = [kvcopy]


# ------------------------------------------------------------------------------------------------ bounded stand-in
def _export(obj):
    buf = io.StringIO()
    obj.export(buf, '')
    return buf.getvalue()


def _norm_ids(text):
    import re
    return re.sub(r'"(id|visgroupid)" "\d+"', r'"\1" "#"', text)


def _make_objects():
    """A VMF with an entity (keys, outputs, fixups, a brush with a displacement face), visgroups, camera, cordon."""
    from srctools.vmf import VMF, Entity, Output, Camera, Cordon, VisGroup, EntityGroup, DispVertex, TriangleTag
    from srctools.math import Vec
    vmf = VMF()
    prism = vmf.make_prism(Vec(-64, -64, -8), Vec(64, 64, 8), 'brick/wall')
    solid = prism.solid
    face = prism.top
    face.disp_power = 1
    face.disp_pos = Vec(-64, -64, 8)
    face.disp_elevation = 2.5
    size = 3
    face._disp_verts = [DispVertex(x, y, Vec(0, 0, 1), float(x + y), Vec(x, 0, 0), Vec(0, 0, 1), 10.0 * x,
                                   TriangleTag.WALKABLE, TriangleTag.FLAT) for y in range(size) for x in range(size)]
    # multiblend data: one vertex blends, one has zero weights but its own colours, the others have no colour list
    from srctools.vmf import Vec4
    face._disp_verts[0].multi_blend = Vec4(0.25, 0.5, 0.0, 1.0)
    face._disp_verts[0].multi_alpha = Vec4(1.0, 0.0, 0.5, 0.0)
    face._disp_verts[0].multi_colors = [Vec(1, 0, 0), Vec(0, 1, 0), Vec(0, 0, 1), Vec(0.5, 0.5, 0.5)]
    face._disp_verts[1].multi_colors = [Vec(0.1, 0.2, 0.3), Vec(0.4, 0.5, 0.6), Vec(0.7, 0.8, 0.9), Vec(0.25, 0.75, 1)]
    face._disp_verts[2].multi_alpha = Vec4(0.0, 0.0, 0.0, 0.75)
    from array import array as Array
    face.disp_allowed_vert = Array('i', [1, 2, 3, 4, 5, 6, 7, 8, 9, 10])
    face.strata_points = [Vec(1, 2, 3), Vec(4, 5, 6)]
    solid.editor_color = Vec(10, 20, 30)
    ent = Entity(vmf, {'classname': 'func_detail', 'targetname': 'Thing', 'origin': '1 2 3'})
    ent.solids.append(solid)
    ent.add_out(Output('OnTrigger', 'tgt', 'Fire', 'param', 0.5, times=3))
    ent.fixup['var'] = 'value'
    ent.fixup['other'] = '5'
    ent.visgroup_ids.add(4)
    vmf.add_ent(ent)
    vis = VisGroup(vmf, 'group', 4, Vec(1, 2, 3), [VisGroup(vmf, 'child', 5, Vec(4, 5, 6))])
    cam = Camera(vmf, Vec(1, 2, 3), Vec(4, 5, 6))
    cord = Cordon(vmf, Vec(-1, -2, -3), Vec(1, 2, 3), True, 'cordon')
    grp = EntityGroup(vmf, 7, True, True, Vec(9, 8, 7))
    return vmf, dict(entity=ent, solid=solid, side=face, visgroup=vis, camera=cam, cordon=cord, group=grp)


def _vectors_of(obj, depth=0, seen=None):
    """Every mutable vector / list / dict reachable from obj (through slots and attrs), with a path description."""
    from srctools.math import Vec, Angle, Matrix
    import attrs
    seen = seen if seen is not None else set()
    out = []
    if id(obj) in seen or depth > 6:
        return out
    seen.add(id(obj))
    names = []
    cls = type(obj)
    if attrs.has(cls):
        names = [a.name for a in attrs.fields(cls)]
    else:
        for k in cls.__mro__:
            names += list(getattr(k, '__slots__', []))
        names += list(getattr(obj, '__dict__', {}))
    for n in names:
        if n in ('map', 'vmf'):
            continue
        try:
            v = getattr(obj, n)
        except AttributeError:
            continue
        out += _walk_value(v, f'{cls.__name__}.{n}', depth, seen)
    return out


def _walk_value(v, path, depth, seen):
    from srctools.math import Vec, Angle
    out = []
    if isinstance(v, (Vec, Angle)):
        out.append((path, v))
    elif isinstance(v, list):
        out.append((path + '[]', v))
        for i, x in enumerate(v[:4]):
            out += _walk_value(x, f'{path}[{i}]', depth + 1, seen)
    elif isinstance(v, (set, dict)):
        out.append((path + '{}', v))
    elif hasattr(v, '__slots__') or hasattr(v, '__attrs_attrs__'):
        if type(v).__module__.startswith('srctools') and type(v).__name__ not in ('VMF', 'IDMan'):
            out += _vectors_of(v, depth + 1, seen)
    return out


def _mutate(path, v):
    from srctools.math import Vec, Angle
    if isinstance(v, Vec):
        v.x += 1000.0
    elif isinstance(v, Angle):
        v.yaw = (v.yaw + 45) % 360
    elif isinstance(v, list):
        if v and hasattr(v[0], 'copy'):
            v.append(v[0].copy())
    elif isinstance(v, set):
        v.add(99999)
    elif isinstance(v, dict):
        if all(isinstance(x, str) for x in v.values()):
            v['zz_mutated'] = 'yes'


def _copy_case(kind, other_map):
    from srctools.vmf import VMF
    vmf, objs = _make_objects()
    obj = objs[kind]
    target = VMF() if other_map else None
    kwargs = {}
    if other_map and kind in ('entity', 'solid', 'side'):
        kwargs['vmf_file'] = target
    elif other_map and kind in ('visgroup', 'group'):
        kwargs['vmf'] = target
    before = _export(obj) if hasattr(obj, 'export') else None
    cp = obj.copy(**kwargs)
    if before is not None:
        if _norm_ids(_export(cp)) != _norm_ids(before):
            return f'{kind}: the copy exports differently from the original', None
        if _export(obj) != before:
            return f'{kind}: copy() changed the original', None
    # mutate everything reachable from the copy; the original must not move -- and vice versa
    for side_name, mutated, other in (('copy', cp, obj), ('original', obj, cp)):
        other_before = _export(other) if hasattr(other, 'export') else repr(other)
        for path, v in _vectors_of(mutated):
            _mutate(path, v)
            now = _export(other) if hasattr(other, 'export') else repr(other)
            if now != other_before:
                return f'{kind}: mutating {path} of the {side_name} is visible through the other object', path
        if kind == 'entity':
            mutated['targetname'] = 'Renamed'
            mutated.fixup['var'] = 'changed'
            for o in mutated.outputs:
                o.target = 'elsewhere'
                o.delay = 9.0
            now = _export(other)
            if now != other_before:
                return f'entity: editing keys / fixups / outputs of the {side_name} is visible through the other object', 'keys'
        if kind == 'side' and mutated._disp_verts:
            mutated._disp_verts[0].alpha = 77.0
            mutated._disp_verts[0].normal.x = 5.0
            if mutated.disp_allowed_vert is not None:
                mutated.disp_allowed_vert[0] = 12345
            if _export(other) != other_before:
                return f'side: editing displacement data of the {side_name} is visible through the other object', 'disp'
    return None, None


def _kv_case(case):
    from srctools.keyvalues import Keyvalues
    def tree():
        return Keyvalues('Root', [Keyvalues('Leaf', 'v'), Keyvalues('Empty', []), Keyvalues('Block', [Keyvalues('in', 'x')])])
    a, b = tree(), Keyvalues.root(Keyvalues('k', '1'), Keyvalues('e', []))
    sa, sb = a.serialise(), b.serialise()
    if case == 'copy_then_grow':
        c = a.copy()
        if c.serialise() != sa:
            return 'copy serialises differently'
        for blk in (c.find_key('Empty'), c.find_key('Block')):
            blk.append(Keyvalues('new', 'n'))
        c.find_key('Leaf').value = 'changed'
        if a.serialise() != sa:
            return 'growing / editing the copy is visible in the original'
        c2 = a.copy()
        a.find_key('Empty').append(Keyvalues('new', 'n'))
        a.find_key('Block').extend([Keyvalues('z', '1')])
        if c2.serialise() != sa:
            return 'growing the original is visible in the copy'
    elif case == 'add':
        import warnings
        with warnings.catch_warnings():
            warnings.simplefilter('ignore')
            s = a + b
        if a.serialise() != sa or b.serialise() != sb:
            return 'Keyvalues + Keyvalues changed an operand'
        if len(list(s)) != len(list(a)) + len(list(b)):
            return f'Keyvalues + Keyvalues has {len(list(s))} children, expected {len(list(a)) + len(list(b))}'
        s.find_key('k').value = 'edited'
        if b.serialise() != sb:
            return 'editing the sum is visible in an operand'
    elif case == 'add_list':
        s = a + [Keyvalues('q', '1')]
        if a.serialise() != sa:
            return 'Keyvalues + [..] changed the left operand'
        if len(list(s)) != len(list(a)) + 1:
            return 'Keyvalues + [..] lost the added child'
    elif case == 'iadd':
        extra = [Keyvalues('q', [Keyvalues('w', '1')])]
        a += extra
        a.find_key('q').append(Keyvalues('zz', '2'))
        if extra[0].serialise() != Keyvalues('q', [Keyvalues('w', '1')]).serialise():
            return '+= keeps the given child itself: editing the tree edits the argument'
    return None


@bounded('C09.B-copies', bound='7 generated object kinds (entity with brush/displacement/outputs/fixups, brush, face, '
         'visgroup tree, camera, cordon, group) x copy within / across maps x mutation of every reachable vector, list, '
         'set, key, output, fixup and displacement vertex on either side; 4 Keyvalues operator cases',
         rule='one case per (kind, across maps) and operator case; all are non-trivial')
def b_copies(ctx):
    for kind in ('entity', 'solid', 'side', 'visgroup', 'camera', 'cordon', 'group'):
        for other_map in (False, True):
            if other_map and kind in ('camera', 'cordon'):
                continue
            ctx.case((kind, other_map))
            try:
                bad, where = _copy_case(kind, other_map)
            except Exception as e:
                bad, where = f'{kind}: {type(e).__name__}: {e}', 'error'
            if bad:
                ctx.violation(f'copy={kind}.{where}', bad + (' (copy into another map)' if other_map else ''),
                              [kind, other_map])
    for case in ('copy_then_grow', 'add', 'add_list', 'iadd'):
        ctx.case(('keyvalues', case))
        try:
            bad = _kv_case(case)
        except Exception as e:
            bad = f'{type(e).__name__}: {e}'
        if bad:
            ctx.violation(f'keyvalues={case}', bad, ['keyvalues', case])


def _replay(inp):
    if inp[0] == 'keyvalues':
        bad = _kv_case(inp[1])
    else:
        bad = _copy_case(inp[0], inp[1])[0]
    return {'failed': bool(bad), 'observation': bad}


b_copies.replay = _replay
BOUNDED = [b_copies]


def _witness(model=None, obligation=None):
    ob = obligation or ''
    for kind in ('entity', 'solid', 'side', 'visgroup', 'group'):
        if kind.capitalize() in ob or not ob or 'Vis' in ob and kind == 'visgroup':
            for other_map in (False, True):
                try:
                    bad, where = _copy_case(kind, other_map)
                except Exception as e:
                    bad = f'{type(e).__name__}: {e}'
                if bad:
                    return {'failed': True, 'kind': kind, 'across_maps': other_map, 'observation': bad}
    for case in ('copy_then_grow', 'add', 'add_list', 'iadd'):
        bad = _kv_case(case)
        if bad:
            return {'failed': True, 'case': case, 'observation': bad}
    return {'failed': False}


kvcopy.replay_fn = _witness

MUTATIONS = [
    dict(name='side_reuses_planes', file='vmf.py', old="            [p.copy() for p in self.planes],", new="            self.planes,",
         expect='copy.Side.fresh'),
    dict(name='output_drops_times', file='vmf.py', old="            times=self.times,\n            inst_out=self.inst_out,",
         new="            inst_out=self.inst_out,", expect='copy.Output.coverage.times'),
    dict(name='keyvalues_shallow_children', file='keyvalues.py',
         old="            result._value = [child.copy() for child in self._value]", new="            result._value = list(self._value)",
         expect='Keyvalues.copy'),
    dict(name='keyvalues_shares_empty_list', file='keyvalues.py',
         old="        if isinstance(self._value, list):\n            # This recurses if needed\n            result._value = [child.copy() for child in self._value]",
         new="        if isinstance(self._value, list) and self._value:\n            # This recurses if needed\n            result._value = [child.copy() for child in self._value]",
         expect='Keyvalues.copy'),
    dict(name='dispvertex_triangle_a_twice', file='vmf.py',
         old="                    vert.triangle_a,\n                    vert.triangle_b,\n                    vert.multi_blend,",
         new="                    vert.triangle_a,\n                    vert.triangle_a,\n                    vert.multi_blend,",
         expect='DispVertex.triangle_b'),
    dict(name='entity_shares_outputs', file='vmf.py', old="            outputs=outs,", new="            outputs=self.outputs,",
         expect='copy.Entity.fresh_elements.outputs'),
    dict(name='add_mutates_left', file='keyvalues.py', old="                    copy._value.append(kv.copy())\n            return copy",
         new="                    self._value.append(kv.copy())\n            return copy", expect='operators.Keyvalues.__add__'),
]
HARMLESS = [
    dict(name='solid_copy_named_local', file='vmf.py',
         old="            self.editor_color.copy(),\n        )", new="            Vec(self.editor_color),\n        )"),
]
