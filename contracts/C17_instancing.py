"""C17 -- instance collapse transforms contents exactly and leaves the template intact.

Proof tier (pyvc, real code; reals for floats):
  naming.fixup_name        Instance.fixup_name for every name / instance name / style: blank, '@' and '!' names untouched,
                           NONE untouched, PREFIX = inst-name, SUFFIX = name-inst;
  geometry.vec_localise    Vec.localise(origin, R) is p @ R + origin (row-vector convention of C04), for all p, R, origin;
  geometry.uvaxis_localise UVAxis.localise keeps the texture coordinate of every moved point: for all points P,
                           u'(P @ R + O) - u(P) == (sum_ij P_i vec_j (row_i.row_j - delta_ij)) / scale, which vanishes for
                           every rotation R (three obligations: the polynomial identity, the vanishing, the conclusion);
  geometry.side_localise   Side.localise (called on a displacement face with three plane points and two vertices, all symbolic):
                           the plane points and the displacement start are rotated then offset; vertex offsets, normals and
                           offset normals are rotated only; the texture axes turn with the face; the same objects stay in place;
  template.copy.*          the copy contracts of C09 for Entity / Solid / Side / Output / EntityFixup (re-run here): a copy
                           shares no mutable state with its original - so writes to the copies cannot reach the template;
AST obligations on collapse_one / collapse_all: every store and mutating call in collapse_one goes to the target map, the
Instance object or a fresh copy, never to the instance file; brushes and origins use (origin, orient) of the instance;
$variables are substituted before names are fixed up; collapse_all is bounded by recur_limit and has no other loop that can
run forever.
Bounded tier: generated templates x placements x fixup styles, repeated and interleaved collapses, instance I/O connections
to outer entities, cyclic instance graphs.
"""
import ast
import math
import os
import random
import shutil
import tempfile

import z3

from pyvc import extract, smt, vc
from pyvc.driver import bounded
from pyvc.symexec import Obj, PList, Unsupported, to_z3
from pyvc.vc import Contract, Lemma, Registry, native

from contracts.C04_rotation import _sym_matrix, _sym_vec, rows

REG = Registry()
PROP = 'C17'
LEVEL = 'other'
M = 'instancing'
EXPLANATION = ('The name rule, the point transform and the texture-alignment law are proved on the real code for all '
               'inputs (floats as reals); the frame "the template is not modified" is the combination of the C09 copy '
               'contracts (a copy shares no mutable state with its original; re-run here) with an effect obligation on '
               'collapse_one (it writes only to the target map, the Instance and fresh copies); termination of '
               'collapse_all follows from its bounded for-loops. The composition over whole maps - every brush and entity '
               'placed, names and $variables applied per FGD type, repeated/interleaved collapses differ only by placement, '
               'cyclic graphs end in RecursionError - is a bounded stand-in on generated templates.')
TRUSTED = ['C04 (rotation algebra) and C09 (copy contracts) as dependencies', 'float arithmetic as real arithmetic',
           'Vec.from_str / str(Vec) text round trip (C05)', 'FGD value types of the bundled database']
UNVERIFIED = ['Instance.fixup_key per value type beyond its AST shape (bounded)', 'EntityFixup.substitute regex semantics (bounded)',
              'visgroup handling in collapse_one (bounded)']
TIMEOUT_MS = {'quick': 60000, 'thorough': 240000}


# ------------------------------------------------------------------------------------------------ naming
def _styles():
    return extract.load(M).enum_members('FixupStyle')


NAME = REG.add(Contract(f'{M}:Instance.fixup_name', PROP, name='naming.fixup_name', modular=False))


def _name_setup(style):
    def setup(h):
        inst = Obj('Instance', {'name': h.str('inst_name'), 'fixup_type': _styles()[style]}, module=M)
        nm = h.str('name')
        return {'args': [inst, nm], 'ghost': dict(NAME=nm, INST=inst.fields['name'], STYLE=style)}
    return setup


for _s in ('NONE', 'PREFIX', 'SUFFIX'):
    NAME.setup(_name_setup(_s), label=_s)


@native
def cat(I, *parts):
    return z3.Concat(*[to_z3(p) for p in parts])


@native
def exempt(I, name):
    n = to_z3(name)
    return z3.Or(n == z3.StringVal(''), z3.PrefixOf(z3.StringVal('@'), n), z3.PrefixOf(z3.StringVal('!'), n))


@NAME.ensures
def blank_and_special_names_are_untouched(result, NAME):
    return implies(exempt(NAME), result == NAME)


@NAME.ensures
def other_names_follow_the_style(result, NAME, INST, STYLE):
    return implies(not exempt(NAME), result == (NAME if STYLE == 'NONE' else
                                                cat(INST, '-', NAME) if STYLE == 'PREFIX' else cat(NAME, '-', INST)))


# ------------------------------------------------------------------------------------------------ geometry
VLOC = REG.add(Lemma('geometry.vec_localise', PROP, [{'call': 'math:Vec.localise', 'args': ['p', 'origin', 'R']}]))


@VLOC.setup
def _vloc(h):
    p, o, R = _sym_vec(h, 'p'), _sym_vec(h, 'o'), _sym_matrix(h, 'R')
    return {'locals': dict(p=p, origin=o, R=R), 'ghost': dict(P0=dict(p.fields), O=o, RR=R)}


@native
def moved(I, P0, RR, O):
    r = rows(I, RR)
    p = [P0[k] for k in ('_x', '_y', '_z')]
    o = [O.fields[k] for k in ('_x', '_y', '_z')]
    return [sum(p[i] * r[i][j] for i in range(3)) + o[j] for j in range(3)]


@native
def comps(I, v):
    return [v.fields[k] for k in ('_x', '_y', '_z')]


@VLOC.ensures
def point_is_rotated_then_offset(p, P0, RR, O):
    return comps(p)[0] == moved(P0, RR, O)[0] and comps(p)[1] == moved(P0, RR, O)[1] and comps(p)[2] == moved(P0, RR, O)[2]


@VLOC.ensures
def origin_and_matrix_are_not_modified(origin, O, R, RR):
    return origin is O and R is RR


UVLOC = REG.add(Lemma('geometry.uvaxis_localise', PROP, [
    {'call': 'vmf:UVAxis.localise', 'args': ['ax', 'origin', 'R'], 'result': 'out'}]))


@UVLOC.setup
def _uvloc(h):
    ax = Obj('UVAxis', {'x': h.real('ux'), 'y': h.real('uy'), 'z': h.real('uz'), 'offset': h.real('uoff'),
                        'scale': h.real('uscale')}, module='vmf')
    R, O, P = _sym_matrix(h, 'R'), _sym_vec(h, 'O'), _sym_vec(h, 'P')
    h.assume(ax.fields['scale'] != 0)
    r = rows(h.I, R)
    D = {}
    for i in range(3):
        for j in range(3):
            D[i, j] = h.real(f'rowdot{i}{j}')
            h.assume(D[i, j] == sum(r[i][k] * r[j][k] for k in range(3)))     # definitions, not restrictions
    return {'locals': dict(ax=ax, origin=O, R=R), 'ghost': dict(P=P, AX0=dict(ax.fields), RR=R, OO=O, D=D)}


@native
def texcoord_error(I, out, AX0, P, RR, OO):
    pp = moved(I, P.fields, RR, OO)
    p = [P.fields[k] for k in ('_x', '_y', '_z')]
    f = out.fields
    new = (pp[0] * f['x'] + pp[1] * f['y'] + pp[2] * f['z']) / f['scale'] + f['offset']
    old = (p[0] * AX0['x'] + p[1] * AX0['y'] + p[2] * AX0['z']) / AX0['scale'] + AX0['offset']
    return new - old


@native
def defect(I, AX0, P, D):
    p = [P.fields[k] for k in ('_x', '_y', '_z')]
    v = [AX0['x'], AX0['y'], AX0['z']]
    return sum(p[i] * v[j] * (D[i, j] - (1 if i == j else 0)) for i in range(3) for j in range(3))


@native
def is_rotation(I, D):
    return z3.And(*[D[i, j] == (1 if i == j else 0) for i in range(3) for j in range(3)])


@native
def scale_of(I, AX0):
    return AX0['scale']


@UVLOC.ensures
def error_is_linear_in_the_orthonormality_defect(out, AX0, P, RR, OO, D):
    return texcoord_error(out, AX0, P, RR, OO) * scale_of(AX0) == defect(AX0, P, D)


@UVLOC.ensures
def defect_vanishes_for_rotations(AX0, P, D):
    return implies(is_rotation(D), defect(AX0, P, D) == 0)


@UVLOC.ensures
def texture_coordinate_of_every_moved_point_is_kept(out, AX0, P, RR, OO, D):
    return implies(texcoord_error(out, AX0, P, RR, OO) * scale_of(AX0) == defect(AX0, P, D) and is_rotation(D),
                   texcoord_error(out, AX0, P, RR, OO) == 0)


@UVLOC.ensures
def scale_is_kept(out, AX0):
    return out.scale == scale_of(AX0)


SLOC = REG.add(Lemma('geometry.side_localise', PROP, [
    {'call': 'vmf:Side.localise', 'args': ['side', 'origin', 'R']}]))


def _uvax(h, nm):
    return Obj('UVAxis', {'x': h.real(nm + 'x'), 'y': h.real(nm + 'y'), 'z': h.real(nm + 'z'),
                          'offset': h.real(nm + 'off'), 'scale': h.real(nm + 'scale')}, module='vmf')


@SLOC.setup
def _sloc(h):
    R, O = _sym_matrix(h, 'R'), _sym_vec(h, 'O')
    planes = [_sym_vec(h, f'pl{i}') for i in range(3)]
    verts = [Obj('DispVertex', {'x': i, 'y': 0, 'normal': _sym_vec(h, f'vn{i}'), 'offset': _sym_vec(h, f'vo{i}'),
                                'offset_norm': _sym_vec(h, f'von{i}'), 'distance': h.real(f'vd{i}'),
                                'alpha': h.real(f'va{i}')}, module='vmf') for i in range(2)]
    power = h.int('disp_power')
    h.assume(power > 0)
    pos = _sym_vec(h, 'dpos')
    side = Obj('Side', {'planes': PList(list(planes)), 'uaxis': _uvax(h, 'u'), 'vaxis': _uvax(h, 'v'),
                        'disp_power': power, 'disp_pos': pos, '_disp_verts': PList(list(verts)),
                        'disp_elevation': h.real('elev')}, module='vmf')
    h.assume(side.fields['uaxis'].fields['scale'] != 0)
    h.assume(side.fields['vaxis'].fields['scale'] != 0)
    ghost = dict(RR=R, OO=O, ZERO=Obj('Vec', {'_x': 0, '_y': 0, '_z': 0}, module='math'),
                 PL0=[dict(v.fields) for v in planes], POS0=dict(pos.fields),
                 VN0=[dict(v.fields['normal'].fields) for v in verts],
                 VO0=[dict(v.fields['offset'].fields) for v in verts],
                 VON0=[dict(v.fields['offset_norm'].fields) for v in verts],
                 U0=dict(side.fields['uaxis'].fields), V0=dict(side.fields['vaxis'].fields),
                 VERTS=verts, PLANES=planes, POS=pos)
    return {'locals': dict(side=side, origin=O, R=R), 'ghost': ghost}


def _it(x):
    return x.items if isinstance(x, PList) else x


@native
def same3(I, v, want):
    c = [v.fields[k] for k in ('_x', '_y', '_z')]
    return z3.And(*[to_z3(a) == to_z3(b) for a, b in zip(c, _it(want))])


@native
def all_moved(I, vecs, olds, RR, O):
    return z3.And(*[same3(I, v, moved(I, o, RR, O)) for v, o in zip(_it(vecs), _it(olds))])


@native
def field_vecs(I, verts, name):
    return [v.fields[name] for v in _it(verts)]


@native
def axis_rotated(I, ax, AX0, RR):
    want = moved(I, {'_x': AX0['x'], '_y': AX0['y'], '_z': AX0['z']}, RR,
                 Obj('Vec', {'_x': 0, '_y': 0, '_z': 0}, module='math'))
    return z3.And(*[to_z3(ax.fields[k]) == to_z3(w) for k, w in zip('xyz', want)])


@SLOC.ensures
def plane_points_are_rotated_then_offset(PLANES, PL0, RR, OO):
    return all_moved(PLANES, PL0, RR, OO)


@SLOC.ensures
def side_still_holds_the_same_plane_and_vertex_objects(side, PLANES, VERTS):
    return (len(side.planes) == 3 and side.planes[0] is PLANES[0] and side.planes[1] is PLANES[1]
            and side.planes[2] is PLANES[2] and len(side._disp_verts) == 2 and side._disp_verts[0] is VERTS[0]
            and side._disp_verts[1] is VERTS[1])


@SLOC.ensures
def displacement_start_position_is_rotated_then_offset(side, POS, POS0, RR, OO):
    return side.disp_pos is POS and all_moved([POS], [POS0], RR, OO)


@SLOC.ensures
def displacement_vertex_offsets_are_rotated_only(VERTS, VO0, RR, ZERO):
    return all_moved(field_vecs(VERTS, 'offset'), VO0, RR, ZERO)


@SLOC.ensures
def displacement_vertex_normals_are_rotated_only(VERTS, VN0, RR, ZERO):
    return all_moved(field_vecs(VERTS, 'normal'), VN0, RR, ZERO)


@SLOC.ensures
def displacement_vertex_offset_normals_are_rotated_only(VERTS, VON0, RR, ZERO):
    return all_moved(field_vecs(VERTS, 'offset_norm'), VON0, RR, ZERO)


@SLOC.ensures
def texture_axes_are_rotated_with_the_face(side, U0, V0, RR):
    return axis_rotated(side.uaxis, U0, RR) and axis_rotated(side.vaxis, V0, RR)


PROOFS = [NAME, VLOC, UVLOC, SLOC]


# ------------------------------------------------------------------------------------------------ template frame
def _res(name, ok, line=0, note=''):
    r = smt.Result(name, 'proved' if ok else 'refuted', 'ast-effects', 0.0, {}, line, 0, note)
    r.replay_fn = _witness
    return r


def _shape(name, good, bad=False, line=0, note=''):
    """good: the shape the argument needs is present; bad: a shape known to break the property is present; neither:
    the code was restructured - undecided, never a violation."""
    r = smt.shape(name, good, bad, line, note, 'ast-effects')
    r.replay_fn = _witness
    return r


def static_copy_contracts(repo):
    """The C09 copy contracts the frame argument rests on, re-run on the current tree (coverage and freshness of
    Entity / Solid / Side / Output / EntityFixup / UVAxis / VisGroup copies)."""
    from contracts import C09_copies as C9
    out = []
    for r in C9.static_copy_contracts(repo):
        if any(f'copy.{k}.' in r.name for k in ('Entity', 'Solid', 'Side', 'Output', 'EntityFixup', 'UVAxis', 'VisGroup',
                                                'DispVertex', 'FixupValue')):
            r.name = 'template.' + r.name
            r.replay_fn = _witness
            out.append(r)
    out.append(_res('template.copy.contracts_found', len(out) >= 20, note=f'{len(out)} copy obligations'))
    return out


TEMPLATE_ROOTS = {'file', 'old_brush', 'old_ent', 'old_group', 'proxy_out', 'prox_out'}
TARGET_ROOTS = {'vmf', 'inst', 'new_brush', 'new_ent', 'new_group', 'visgroup', 'angles', 'id_to_ent', 'new_ents',
                'engine_cache', 'ungrouped_group', 'sides', '_UNKNOWN_KV', 'LOGGER', 'warnings'}
MUTATORS = {'append', 'extend', 'insert', 'pop', 'remove', 'clear', 'add', 'discard', 'update', 'sort', 'reverse', 'localise',
            'add_out', 'add_ent', 'add_brush', 'translate', 'setdefault', '__setitem__', '__delitem__', 'make_unique'}


def _root(node):
    while isinstance(node, (ast.Attribute, ast.Subscript, ast.Call)):
        node = node.value if not isinstance(node, ast.Call) else node.func
    return node.id if isinstance(node, ast.Name) else None


def static_collapse_effects(repo):
    mod = extract.load(M)
    fn = mod.find('collapse_one')
    out = []
    bad = []
    unknown = []
    # `out` is bound in three loops: over the target map's outputs, over a fresh copy's outputs, over inst.outputs
    out_loops = {}
    for n in ast.walk(fn):
        if isinstance(n, ast.For) and isinstance(n.target, ast.Name) and n.target.id == 'out':
            out_loops[n] = ast.unparse(n.iter)
    allowed_out_iters = {'ent.outputs', 'new_ent.outputs', 'inst.outputs'}
    if not set(out_loops.values()) <= allowed_out_iters:
        extra = sorted(set(out_loops.values()) - allowed_out_iters)
        (bad if any(_root(ast.parse(e, mode='eval').body) in TEMPLATE_ROOTS for e in extra) else unknown).append(
            (fn.lineno, f'`out` iterates over {extra}'))
    ent_loops = [ast.unparse(n.iter) for n in ast.walk(fn) if isinstance(n, ast.For) and isinstance(n.target, ast.Name)
                 and n.target.id == 'ent']
    if set(ent_loops) - {'vmf.entities'}:
        unknown.append((fn.lineno, f'`ent` iterates over {ent_loops}'))
    for n in ast.walk(fn):
        tgt = None
        if isinstance(n, (ast.Attribute, ast.Subscript)) and isinstance(n.ctx, (ast.Store, ast.Del)):
            tgt = n
        elif isinstance(n, ast.AugAssign) and isinstance(n.target, (ast.Attribute, ast.Subscript)):
            tgt = n.target
        elif isinstance(n, ast.Call) and isinstance(n.func, ast.Attribute) and n.func.attr in MUTATORS:
            tgt = n.func.value
            if isinstance(tgt, ast.Name) and tgt.id in ('sides', 'new_ents'):
                continue
        if tgt is None:
            continue
        root = _root(tgt)
        if root in TEMPLATE_ROOTS:
            bad.append((n.lineno, ast.unparse(n)[:70]))
        elif root in ('out', 'ent'):
            continue        # bound to the target map / fresh copies (checked above); inst.outputs are only read
        elif root not in TARGET_ROOTS and root is not None:
            unknown.append((n.lineno, f'unclassified receiver {root}: {ast.unparse(n)[:60]}'))
    # inst.outputs loop must not write through `out`
    for loop, it in out_loops.items():
        if it == 'inst.outputs':
            for n in ast.walk(loop):
                if isinstance(n, (ast.Attribute, ast.Subscript)) and isinstance(n.ctx, ast.Store) and _root(n) == 'out':
                    bad.append((n.lineno, ast.unparse(n)))
    out.append(_shape('template.collapse_one_writes_only_to_the_target_and_fresh_copies', not bad and not unknown, bool(bad),
                      bad[0][0] if bad else fn.lineno, str((bad or unknown)[:3])))
    src = ast.unparse(fn)
    # every object taken from the template is copied before use
    copies = ['old_brush.copy(', 'old_ent.copy(', 'old_group.copy(']
    uncopied = any(p in src for p in ('new_ent = old_ent\n', 'new_brush = old_brush\n', 'add_ent(old_ent', 'add_brush(old_brush'))
    out.append(_shape('template.contents_are_copied_into_the_target', all(c in src for c in copies), uncopied, fn.lineno))
    added = 'Output.combine(prox_out, out)' in src and 'id_to_ent[ent_id].add_out(' in src
    out.append(_shape('template.proxy_outputs_are_combined_into_new_objects', added, '.add_out(prox_out)' in src, fn.lineno))
    # placement: brushes, origins, angles
    import re
    # the two placement locals, whatever they are called
    mo, mr = re.search(r'(\w+) = inst\.pos\b', src), re.search(r'(\w+) = inst\.orient\b', src)
    O, R = (mo.group(1) if mo else 'inst.pos'), (mr.group(1) if mr else 'inst.orient')
    out.append(_shape('geometry.brushes_are_localised_by_the_instance_placement',
                      src.count(f'new_brush.localise({O}, {R})') == 2,
                      'old_brush.localise(' in src or f'new_brush.localise({R}' in src, fn.lineno))
    out.append(_shape('geometry.entity_origin_is_rotated_then_offset',
                      f"new_ent['origin'] = str(Vec.from_str(value) @ {R} + {O})" in src,
                      f"(Vec.from_str(value) + {O}) @ {R}" in src or f"new_ent['origin'] = str(Vec.from_str(value) + {O})" in src,
                      fn.lineno))
    out.append(_shape('geometry.entity_angles_are_composed_with_the_instance_rotation', f'angles @= {R}' in src
                      and "new_ent['angles'] = str(angles)" in src, f'angles = {R} @ angles' in src, fn.lineno))
    # substitution precedes name fix-up
    good_order = "out.target = inst.fixup_name(inst.fixup.substitute(out.target, ''))" in src \
        and "value = inst.fixup.substitute(value, '')" in src and 'new_ent[key] = inst.fixup_key(' in src \
        and src.index("value = inst.fixup.substitute(value, '')") < src.index('new_ent[key] = inst.fixup_key(')
    out.append(_shape('naming.variables_are_substituted_before_names_are_fixed_up', good_order,
                      'inst.fixup.substitute(inst.fixup_name(' in src, fn.lineno))
    sub_i, org_i = src.find("value = inst.fixup.substitute(value, '')"), src.find("if folded == 'origin'")
    out.append(_shape('naming.variables_are_substituted_before_any_keyvalue_is_transformed', 0 <= sub_i < org_i,
                      0 <= org_i < sub_i, fn.lineno))
    fk = ast.unparse(mod.find('Instance.fixup_key'))
    out.append(_shape('geometry.position_keyvalues_are_rotated_then_offset',
                      'return str(Vec.from_str(value) @ self.orient + self.pos)' in fk
                      and 'return str(Angle.from_str(value) @ self.orient)' in fk,
                      '(Vec.from_str(value) + self.pos) @ self.orient' in fk, note='fixup_key'))
    out.append(_shape('naming.entity_name_keyvalues_use_fixup_name', 'return self.fixup_name(value)' in fk))
    return out


def static_termination(repo):
    mod = extract.load(M)
    ca = mod.find('collapse_all')
    co = mod.find('collapse_one')
    out = []
    wl = [n for n in ast.walk(ca) if isinstance(n, ast.While)] + [n for n in ast.walk(co) if isinstance(n, ast.While)]
    forever = [n.lineno for n in wl if isinstance(n.test, ast.Constant) and n.test.value is True]
    # a `while` loop is not a proof of non-termination: only `while True` counts as the known-bad shape
    out.append(_shape('termination.no_unbounded_loops', not wl, bool(forever), forever[0] if forever else ca.lineno))
    outer = [n for n in ca.body if isinstance(n, ast.For)]
    ok = len(outer) == 1 and ast.unparse(outer[0].iter) == 'range(recur_limit)'
    out.append(_shape('termination.passes_are_bounded_by_recur_limit', ok, bool(forever), ca.lineno))
    inner = [n for n in ast.walk(outer[0]) if isinstance(n, ast.For) and n is not outer[0]] if outer else []
    snap = all(ast.unparse(n.iter) == 'instances' for n in inner) and 'instances = list(' in ast.unparse(ca)
    live = any(ast.unparse(n.iter).startswith('vmf.by_class') for n in inner)
    out.append(_shape('termination.each_pass_iterates_over_a_snapshot', bool(inner) and snap, live, ca.lineno))
    rec = [n.lineno for n in ast.walk(co) if isinstance(n, ast.Call) and ast.unparse(n.func) in ('collapse_one', 'collapse_all')]
    out.append(_res('termination.collapse_one_does_not_recurse', not rec, rec[0] if rec else co.lineno))
    ends = isinstance(ca.body[-1], ast.Raise) and 'RecursionError' in ast.unparse(ca.body[-1])
    out.append(_shape('termination.exhausted_passes_raise_recursion_error', ends, False, ca.lineno))
    return out


STATIC = [static_copy_contracts, static_collapse_effects, static_termination]


# ------------------------------------------------------------------------------------------------ bounded
def _export(vmf):
    return vmf.export(inc_version=False)


def _template(rng, vmf_mod):
    """A semantic template: entities of known classes with names, parents, targets, origins, angles, outputs, $variables."""
    VMF, Output = vmf_mod.VMF, vmf_mod.Output
    from srctools.math import Vec
    t = VMF()
    n = rng.choice([1, 2, 3])
    names = ['relay', '@global', '!player', 'door_1', 'br ush', '$name_var', '', '$at_var', '$blank_var', 'pre_$name_var']
    for i in range(n):
        cls = rng.choice(['info_target', 'logic_relay', 'prop_dynamic', 'info_particle_system'])
        ent = t.create_ent(cls, origin=Vec(rng.randint(-64, 64), rng.randint(-64, 64), rng.randint(-64, 64)),
                           angles=f'{rng.choice([0, 15, 45, 90, -30])} {rng.choice([0, 90, 180, 270, 33])} {rng.choice([0, 0, 10, 90])}',
                           targetname=rng.choice(names))
        if rng.random() < 0.3:
            ent['origin'] = '$pos_var'            # positions given by a $variable are substituted, then transformed
        if rng.random() < 0.5:
            ent['parentname'] = rng.choice(names)
        if rng.random() < 0.5:
            ent.add_out(Output('OnTrigger', rng.choice(names), 'Trigger', rng.choice(['', '$param', 'x,y']), rng.choice([0.0, 0.5])))
    for _ in range(rng.choice([0, 1, 2])):
        a = Vec(rng.randint(-128, 0), rng.randint(-128, 0), rng.randint(-128, 0))
        b = a + Vec(rng.randint(8, 128), rng.randint(8, 128), rng.randint(8, 128))
        t.add_brush(t.make_prism(a, b, mat='dev/dev_measuregeneric01').solid)
    return t


def _placement(rng):
    from srctools.math import Vec, Matrix, Angle
    kind = rng.randrange(4)
    if kind == 0:
        return Vec(), Matrix()
    pos = Vec(rng.randint(-2048, 2048), rng.randint(-2048, 2048), rng.randint(-1024, 1024))
    if kind == 1:
        return pos, Matrix.from_angle(Angle(0, rng.choice([0, 90, 180, 270]), 0))
    if kind == 2:
        return pos, Matrix.from_angle(Angle(rng.choice([0, 90, -90]), rng.choice([0, 90, 180, 270]), rng.choice([0, 90, 180])))
    return pos, Matrix.from_angle(Angle(rng.uniform(-89, 89), rng.uniform(0, 359), rng.uniform(-179, 179)))


def _collapse(vmf_mod, template_file, pos, orient, style, name, fixups):
    from srctools import instancing
    from srctools.vmf import FixupValue
    target = vmf_mod.VMF()
    inst = instancing.Instance(name, 'inst.vmf', pos.copy(), orient.copy(), style,
                               fixup=[FixupValue(k, v, i + 1) for i, (k, v) in enumerate(fixups.items())])
    instancing.collapse_one(target, inst, template_file, engine_cache=_CACHE)
    return target, inst


_CACHE = {}


def _geom(target):
    pts = []
    for brush in target.brushes:
        for side in brush.sides:
            for p in side.planes:
                pts.append((p.x, p.y, p.z))
    return pts


def _job_collapse(seed):
    import logging
    logging.disable(logging.CRITICAL)
    from srctools import instancing, vmf as vmf_mod
    from srctools.math import Vec, Matrix
    rng = random.Random(seed)
    try:
        if rng.random() < 0.4:
            from contracts import c06_vmf_support as S
            tmpl = S.gen_map(rng)
            semantic = False
            # a texture scale of 0 has no meaning (the texture coordinate divides by it): not a representable template
            all_solids = list(tmpl.brushes) + [sol for ent in tmpl.entities for sol in (ent.solids or [])]
            for side in [sd for sol in all_solids for sd in sol.sides]:
                for attr in ('uaxis', 'vaxis'):
                    ax = getattr(side, attr)
                    if ax.scale == 0:
                        setattr(side, attr, vmf_mod.UVAxis(ax.x, ax.y, ax.z, ax.offset, 0.25))
        else:
            tmpl = _template(rng, vmf_mod)
            semantic = True
        file = instancing.InstanceFile(tmpl)
        before = _export(tmpl)
        fixups = dict(FIXUPS)
        style = rng.choice(list(instancing.FixupStyle))
        pos, orient = _placement(rng)
        iname = rng.choice(['inst', 'Inst A', 'i-1'])
        placed, inst_a = _collapse(vmf_mod, file, pos, orient, style, iname, fixups)
        if _export(tmpl) != before:
            return ('bad', 'the instance template changed during collapse_one')
        ident, inst_i = _collapse(vmf_mod, file, Vec(), Matrix(), style, iname, fixups)
        if _export(tmpl) != before:
            return ('bad', 'the instance template changed during the second collapse_one')
        again, _ = _collapse(vmf_mod, file, pos, orient, style, iname, fixups)
        if _export(tmpl) != before:
            return ('bad', 'the instance template changed during the third collapse_one')
        # repeated collapse at the same placement: identical result
        if _export(again) != _export(placed):
            return ('bad', 'collapsing the same template twice at one placement gave different maps')
        # placement law for brush points
        ga, gi = _geom(placed), _geom(ident)
        if len(ga) != len(gi):
            return ('bad', f'{len(gi)} plane points at the identity placement, {len(ga)} at the other')
        for (x, y, z), (a, b, c) in zip(gi, ga):
            w = Vec(x, y, z) @ orient + pos
            tol = 1e-6 * max(1.0, abs(w.x), abs(w.y), abs(w.z), abs(x), abs(y), abs(z))
            if abs(w.x - a) > tol or abs(w.y - b) > tol or abs(w.z - c) > tol:
                return ('bad', f'brush point {(x, y, z)} placed at {(a, b, c)}, expected {w}')
        visible = [e for e in tmpl.entities if not e.hidden and e.vis_shown]
        if len(placed.entities) != len(visible) or len(ident.entities) != len(visible):
            return ('bad', f'{len(visible)} visible template entities, {len(placed.entities)} collapsed')
        vb = [b for b in tmpl.brushes if not b.hidden and b.vis_shown]
        if len(placed.brushes) != len(vb):
            return ('bad', f'{len(vb)} visible template brushes, {len(placed.brushes)} collapsed')
        if semantic:
            for old, new, base in zip(visible, placed.entities, ident.entities):
                want = Vec.from_str(_subst(old['origin'])) @ orient + pos
                got = Vec.from_str(new['origin'])
                if (want - got).mag() > 1e-4 * max(1.0, want.mag()):
                    return ('bad', f'entity origin {old["origin"]} placed at {new["origin"]}, expected {want}')
                m_want = Matrix.from_angstr(old['angles']) @ orient
                m_got = Matrix.from_angstr(new['angles'])
                for i in range(3):
                    for j in range(3):
                        if abs(m_want[i, j] - m_got[i, j]) > 1e-4:
                            return ('bad', f'entity angles {old["angles"]} became {new["angles"]} under {orient.to_angle()}')
                raw = _subst(old['targetname'])
                want_name = _fixup_name(style, iname, raw)
                if new['targetname'] != want_name:
                    return ('bad', f'targetname {old["targetname"]!r} became {new["targetname"]!r}, expected {want_name!r} ({style.name})')
                if 'parentname' in old:
                    wantp = _fixup_name(style, iname, _subst(old['parentname']))
                    if new['parentname'] != wantp:
                        return ('bad', f'parentname {old["parentname"]!r} became {new["parentname"]!r}, expected {wantp!r}')
                for oo, no in zip(old.outputs, new.outputs):
                    wt = _fixup_name(style, iname, _subst(oo.target))
                    if no.target != wt:
                        return ('bad', f'output target {oo.target!r} became {no.target!r}, expected {wt!r} ({style.name})')
                    if no is oo:
                        return ('bad', 'a collapsed entity shares an Output object with the template')
    except Exception as e:
        return ('bad', f'{type(e).__name__}: {str(e)[:160]}')
    return ('ok', 1)


FIXUPS = {'name_var': 'fromvar', 'param': '7', 'at_var': '@global_x', 'blank_var': '', 'pos_var': '16 -32 48'}


def _subst(text):
    for var in sorted(FIXUPS, key=len, reverse=True):
        text = text.replace('$' + var, FIXUPS[var])
    return text


def _job_instance_io(seed):
    """Connections made on the func_instance itself ('instance:relay;OnTrigger' forms) name entities of the *outer* map:
    after collapsing they sit on the copied entity and keep their target; the template's own output targets follow the
    fixup style."""
    import logging
    logging.disable(logging.CRITICAL)
    from srctools import instancing, vmf as vmf_mod
    from srctools.vmf import FixupValue, Output
    rng = random.Random(seed)
    try:
        tmpl = vmf_mod.VMF()
        relay = tmpl.create_ent('logic_relay', targetname='relay', origin='8 16 24', angles='0 0 0')
        inner_targets = rng.sample(['inner_relay', '!activator', '@glob', '$name_var'], rng.choice([1, 2, 3]))
        for t in inner_targets:
            relay.add_out(Output('OnTrigger', t, 'Trigger'))
        relay.add_out(Output('OnTrigger', 'proxy', 'ProxyRelay'))
        tmpl.create_ent('logic_relay', targetname='inner_relay', origin='8 16 48', angles='0 0 0')
        tmpl.create_ent('func_instance_io_proxy', targetname='proxy', origin='0 0 0')
        file = instancing.InstanceFile(tmpl)
        before = _export(tmpl)
        target = vmf_mod.VMF()
        for k in range(rng.choice([1, 2, 3])):
            style = rng.choice(list(instancing.FixupStyle))
            iname = rng.choice(['inst', 'Inst A', 'i-1']) + str(k)
            outer = rng.sample(['outer_counter', 'relay', 'inner_relay', '@outer', 'door 1'], rng.choice([1, 2]))
            pos, orient = _placement(rng)
            inst = instancing.Instance(iname, 'inst.vmf', pos, orient, style,
                                       fixup=[FixupValue(k, v, i + 1) for i, (k, v) in enumerate(FIXUPS.items())],
                                       outputs=[Output('OnTrigger', t, 'Add', str(i), inst_out='relay')
                                                for i, t in enumerate(outer)])
            n_before = len(target.entities)
            instancing.collapse_one(target, inst, file, engine_cache=_CACHE)
            if _export(tmpl) != before:
                return ('bad', 'the instance template changed during collapse_one with instance outputs')
            want_name = _fixup_name(style, iname, 'relay')
            new = [e for e in list(target.entities)[n_before:] if e['targetname'] == want_name]
            if len(new) != 1:
                return ('bad', f'expected one copied relay named {want_name!r} ({style.name})')
            got = sorted((o.output, o.target, o.input, o.params) for o in new[0].outputs)
            want = sorted([('OnTrigger', _fixup_name(style, iname, _subst(t)), 'Trigger', '') for t in inner_targets]
                          + [('OnTrigger', t, 'Add', str(i)) for i, t in enumerate(outer)])
            if got != want:
                return ('bad', f'instance output connections {outer} under {style.name}: outputs of the copied relay are '
                               f'{got}, expected {want}')
    except Exception as e:
        return ('bad', f'{type(e).__name__}: {str(e)[:160]}')
    return ('ok', 1)


def _job_hidden_solids(seed):
    """A visible brush entity of the template holding visible and hidden solids: only the visible ones may arrive as
    visible geometry (the others stay hidden or are left out), under every visgroup mode."""
    import logging
    logging.disable(logging.CRITICAL)
    from srctools import instancing, vmf as vmf_mod
    from srctools.math import Vec
    rng = random.Random(seed)
    try:
        tmpl = vmf_mod.VMF()
        ent = tmpl.create_ent(rng.choice(['func_detail', 'func_brush']), targetname='b')
        solids, n_vis = [], 0
        for k in range(rng.choice([2, 3, 4])):
            sol = tmpl.make_prism(Vec(-64 + 40 * k, -64, 0), Vec(-40 + 40 * k, 64, 16 + 8 * k)).solid
            if rng.random() < 0.5 or (k == 1):
                sol.hidden = True
                sol.vis_shown = False
            else:
                n_vis += 1
            solids.append(sol)
        if n_vis == 0:
            solids[0].hidden, solids[0].vis_shown, n_vis = False, True, 1
        ent.solids = solids
        file = instancing.InstanceFile(tmpl)
        before = _export(tmpl)
        for mode in (False, True):
            target = vmf_mod.VMF()
            pos, orient = _placement(rng)
            inst = instancing.Instance('i', 'inst.vmf', pos, orient, rng.choice(list(instancing.FixupStyle)))
            instancing.collapse_one(target, inst, file, visgroup=mode, engine_cache=_CACHE)
            if _export(tmpl) != before:
                return ('bad', 'the instance template changed during collapse_one (brush entity with hidden solids)')
            new = [e for e in target.entities if e['classname'] == ent['classname']]
            if len(new) != 1:
                return ('bad', f'{len(new)} copies of the visible brush entity (visgroup={mode})')
            got = sum(1 for s in new[0].solids if not s.hidden and s.vis_shown)
            if got != n_vis:
                return ('bad', f'brush entity with {n_vis} visible and {len(solids) - n_vis} hidden solids arrives with '
                               f'{got} visible solids (visgroup={mode})')
    except Exception as e:
        return ('bad', f'{type(e).__name__}: {str(e)[:160]}')
    return ('ok', 1)


def _job_same_map(seed):
    """The same template collapsed several times into one map: an overlay's side list must name faces of the brushes
    added by *its* collapse (repeated collapses differ only by placement)."""
    import logging
    logging.disable(logging.CRITICAL)
    from srctools import instancing, vmf as vmf_mod
    from srctools.math import Vec
    from srctools.vmf import FixupValue
    rng = random.Random(seed)
    try:
        tmpl = vmf_mod.VMF()
        prism = tmpl.make_prism(Vec(-32, -32, 0), Vec(32, 32, 16), mat='dev/dev_measuregeneric01')
        tmpl.add_brush(prism.solid)
        want_faces = [prism.top.id, prism.north.id]
        tmpl.create_ent('info_overlay', origin='0 0 16', angles='0 0 0', sides=' '.join(map(str, want_faces)),
                        material='decals/x')
        file = instancing.InstanceFile(tmpl)
        before = _export(tmpl)
        target = vmf_mod.VMF()
        if rng.random() < 0.5:      # face ids already taken in the target
            target.add_brush(target.make_prism(Vec(512, 512, 0), Vec(576, 576, 16)).solid)
        for k in range(rng.choice([2, 3, 4])):
            pos, orient = _placement(rng)
            inst = instancing.Instance(f'i{k}', 'inst.vmf', pos, orient, instancing.FixupStyle.PREFIX)
            n_before = len(target.entities)
            instancing.collapse_one(target, inst, file, engine_cache=_CACHE)
            new_overlays = [e for e in list(target.entities)[n_before:] if e['classname'] == 'info_overlay']
            if len(new_overlays) != 1:
                return ('bad', f'collapse #{k + 1} added {len(new_overlays)} overlays')
            own_faces = {inst.face_ids[f] for f in want_faces}
            got = {int(x) for x in new_overlays[0]['sides'].split()}
            if got != own_faces:
                return ('bad', f'collapse #{k + 1}: the overlay lists faces {sorted(got)}, the faces of its own brush copy are '
                               f'{sorted(own_faces)}')
            live = {f.id for b in target.brushes for f in b.sides}
            if not got <= live:
                return ('bad', f'collapse #{k + 1}: the overlay lists faces {sorted(got - live)} that do not exist in the map')
            mine = {f.id for b in target.brushes if b.id == inst.brush_ids[prism.solid.id] for f in b.sides}
            if not got <= mine:
                return ('bad', f'collapse #{k + 1}: the overlay lists faces {sorted(got)} that belong to another copy')
        if _export(tmpl) != before:
            return ('bad', 'the instance template changed')
    except Exception as e:
        return ('bad', f'{type(e).__name__}: {str(e)[:160]}')
    return ('ok', 1)


def _fixup_name(style, iname, name):
    if not name or name.startswith(('@', '!')):
        return name
    if style.name == 'NONE':
        return name
    return f'{iname}-{name}' if style.name == 'PREFIX' else f'{name}-{iname}'


def _job_graph(job):
    """Instance files that include each other: collapse_all must end (success for acyclic graphs, RecursionError for
    cyclic ones) and leave no func_instance in the acyclic case."""
    import logging
    logging.disable(logging.CRITICAL)
    seed, = job if isinstance(job, tuple) else (job,)
    from srctools import instancing, vmf as vmf_mod
    from srctools.filesys import RawFileSystem
    rng = random.Random(seed)
    n = rng.choice([1, 2, 3])
    edges = {i: [rng.randrange(n) for _ in range(rng.choice([0, 1, 2]))] for i in range(n)}
    cyclic_allowed = rng.random() < 0.5
    if not cyclic_allowed:
        edges = {i: [j for j in js if j > i] for i, js in edges.items()}

    def reach(i, seen):
        for j in edges[i]:
            if j in seen:
                return True
            if reach(j, seen | {j}):
                return True
        return False
    tmp = tempfile.mkdtemp(prefix='c17_')
    try:
        for i in range(n):
            v = vmf_mod.VMF()
            v.create_ent('info_target', origin=f'{i} 0 0', targetname=f't{i}')
            for k, j in enumerate(edges[i]):
                v.create_ent('func_instance', origin=f'{16 * k} 0 0', angles='0 90 0', file=f'f{j}.vmf', targetname=f'sub{k}',
                             fixup_style='0')
            with open(os.path.join(tmp, f'f{i}.vmf'), 'w') as f:
                v.export(f, inc_version=False)
        main = vmf_mod.VMF()
        main.create_ent('func_instance', origin='0 0 0', angles='0 0 0', file='f0.vmf', targetname='root', fixup_style='0')
        cyc = reach(0, {0}) or any(reach(j, {j}) for j in range(n) if _reachable(edges, 0, j))
        try:
            with RawFileSystem(tmp) as fsys:
                instancing.collapse_all(main, fsys, recur_limit=6)
            ended = 'ok'
        except RecursionError:
            ended = 'recursion'
        left = len(list(main.by_class['func_instance']))
        if cyc and ended != 'recursion':
            return ('bad', f'cyclic instance graph {edges} collapsed without RecursionError')
        if not cyc and (ended != 'ok' or left):
            return ('bad', f'acyclic instance graph {edges}: ended {ended} with {left} func_instance left')
        return ('ok', 1)
    except Exception as e:
        return ('bad', f'{type(e).__name__}: {str(e)[:160]} for graph {edges}')
    finally:
        shutil.rmtree(tmp, ignore_errors=True)


def _reachable(edges, a, b, seen=None):
    seen = seen or set()
    if a == b:
        return True
    seen.add(a)
    return any(_reachable(edges, j, b, seen) for j in edges[a] if j not in seen)


def _sig(text):
    return ''.join(ch for ch in text if ch.isalpha() or ch in ' ._')[:36]


@bounded('C17.B-collapse', bound='generated templates (semantic ones with named/parented/connected entities of known classes and '
         'prisms, and the C06 generator\'s maps) collapsed three times each (a random placement out of identity / yaw / '
         'axis-aligned / arbitrary, the identity, the same placement again) under a random fixup style and instance name; '
         'instance graphs of up to 3 files including each other (cyclic and acyclic) through collapse_all with recur_limit 6; '
         'one template collapsed 2-4 times into one map (overlay face lists); a relay + io-proxy template collapsed 1-3 times '
         'with connections made on the instance itself (outer targets must be kept, inner ones renamed); a brush entity '
         'with visible and hidden solids under both visgroup modes; '
         'quick 500 templates + 120 + 120 + 300 graphs, thorough 20000 + 2000 + 2000 + 5000', rule='a template / graph counts once')
def b_collapse(ctx):
    n = 20000 if ctx.thorough else 500
    seen = set()
    for job, res in ctx.pmap(_job_collapse, [ctx.seed * 6700417 + i for i in range(n)], batch=256, job_timeout=10.0):
        ctx.case(job)
        if isinstance(res, str) or res[0] != 'ok':
            what = res if isinstance(res, str) else res[1]
            if _sig(what) in seen:
                continue
            seen.add(_sig(what))
            ctx.violation(f'collapse.seed={job}', what, [job])
    for job, res in ctx.pmap(_job_same_map, [ctx.seed * 7177 + i for i in range(2000 if ctx.thorough else 120)], batch=256,
                             job_timeout=10.0):
        ctx.case(('same_map', job))
        if isinstance(res, str) or res[0] != 'ok':
            what = res if isinstance(res, str) else res[1]
            if _sig(what) in seen:
                continue
            seen.add(_sig(what))
            ctx.violation(f'same_map.seed={job}', what, ['same_map', job])
    for job, res in ctx.pmap(_job_instance_io, [ctx.seed * 52361 + i for i in range(2000 if ctx.thorough else 120)], batch=256,
                             job_timeout=10.0):
        ctx.case(('instance_io', job))
        if isinstance(res, str) or res[0] != 'ok':
            what = res if isinstance(res, str) else res[1]
            if _sig(what) in seen:
                continue
            seen.add(_sig(what))
            ctx.violation(f'instance_io.seed={job}', what, ['instance_io', job])
    for job, res in ctx.pmap(_job_hidden_solids, [ctx.seed * 9176 + i for i in range(1000 if ctx.thorough else 60)], batch=256,
                             job_timeout=10.0):
        ctx.case(('hidden_solids', job))
        if isinstance(res, str) or res[0] != 'ok':
            what = res if isinstance(res, str) else res[1]
            if _sig(what) in seen:
                continue
            seen.add(_sig(what))
            ctx.violation(f'hidden_solids.seed={job}', what, ['hidden_solids', job])
    g = 5000 if ctx.thorough else 300
    for job, res in ctx.pmap(_job_graph, [ctx.seed * 2147483 + i for i in range(g)], batch=256, job_timeout=6.0):
        ctx.case(('graph', job))
        if isinstance(res, str) or res[0] != 'ok':
            what = res if isinstance(res, str) else res[1]
            if _sig(what) in seen:
                continue
            seen.add(_sig(what))
            ctx.violation(f'graph.seed={job}', what, ['graph', job])


def _replay(inp):
    res = _job_graph(inp[1]) if inp[0] == 'graph' else _job_hidden_solids(inp[1]) if inp[0] == 'hidden_solids' else _job_instance_io(inp[1]) if inp[0] == 'instance_io' else _job_same_map(inp[1]) if inp[0] == 'same_map' else _job_collapse(inp[0])
    return {'failed': isinstance(res, str) or res[0] != 'ok', 'observation': res}


b_collapse.replay = _replay
BOUNDED = [b_collapse]
_WITNESS = []


def _witness(model=None, obligation=None):
    from pyvc.driver import _call_with_timeout
    if _WITNESS:
        return _WITNESS[0]
    out = {'failed': False}
    for seed in range(120):
        res = _call_with_timeout((_job_collapse, seed, 30.0))
        if isinstance(res, str) or res[0] != 'ok':
            out = {'failed': True, 'scenario': f'collapse seed {seed}', 'observation': res}
            break
    _WITNESS.append(out)
    return out


for _c in PROOFS:
    _c.replay_fn = _witness


# ------------------------------------------------------------------------------------------------ self-test catalogue
MUTATIONS = [
    dict(name='prefix_and_suffix_swapped', file='instancing.py', old="            return f'{self.name}-{name}'", new="            return f'{name}-{self.name}'",
         expect='naming.fixup_name'),
    dict(name='bang_names_are_renamed', file='instancing.py', old="        if not name or name.startswith(('@', '!')):", new="        if not name or name.startswith('@'):",
         expect='naming.fixup_name'),
    dict(name='localise_offsets_before_rotating', file='math.py',
         old="        mat._vec_rot(self)\n        # Use method directly, we know where it'll go.\n        self.__iadd__(origin)  # noqa: PLC2801",
         new="        self.__iadd__(origin)  # noqa: PLC2801\n        mat._vec_rot(self)", expect='geometry.vec_localise'),
    dict(name='uvaxis_offset_sign', file='vmf.py', old="        offset = self.offset - vec.dot(origin) / self.scale", new="        offset = self.offset + vec.dot(origin) / self.scale",
         expect='geometry.uvaxis_localise'),
    dict(name='uvaxis_offset_uses_unrotated_axis', file='vmf.py', old="        offset = self.offset - vec.dot(origin) / self.scale",
         new="        offset = self.offset - self.vec().dot(origin) / self.scale", expect='geometry.uvaxis_localise'),
    dict(name='side_localise_skips_offset_normals', file='vmf.py',
         old="                vert.normal @= orient\n                vert.offset_norm @= orient\n",
         new="                vert.normal @= orient\n", expect='geometry.side_localise'),
    dict(name='side_localise_offsets_disp_vertex_offsets', file='vmf.py',
         old="                vert.offset @= orient\n", new="                vert.offset.localise(origin, orient)\n",
         expect='geometry.side_localise'),
    dict(name='template_brush_localised_in_place', file='instancing.py',
         old="        inst.brush_ids[old_brush.id] = new_brush.id\n        new_brush.localise(origin, orient)\n        # Convert across the IDs.\n        if visgroup is not False:\n            new_brush.visgroup_ids = {\n                inst.visgroup_ids[old]\n                for old in new_brush.visgroup_ids",
         new="        inst.brush_ids[old_brush.id] = new_brush.id\n        old_brush.localise(origin, orient)\n        # Convert across the IDs.\n        if visgroup is not False:\n            new_brush.visgroup_ids = {\n                inst.visgroup_ids[old]\n                for old in new_brush.visgroup_ids",
         expect='template.collapse_one_writes_only_to_the_target_and_fresh_copies'),
    dict(name='template_entity_added_uncopied', file='instancing.py',
         old="        new_ent = old_ent.copy(\n            vmf_file=vmf,\n            side_mapping=inst.face_ids,\n            keep_vis=visgroup is not False\n        )",
         new="        new_ent = old_ent", expect='template.contents_are_copied_into_the_target'),
    dict(name='entity_copy_shares_outputs', file='vmf.py', old="        outs = [o.copy() for o in self.outputs]\n", new="        outs = self.outputs\n",
         expect='template.copy.Entity'),
    dict(name='origin_offset_before_rotation', file='instancing.py', old="                new_ent['origin'] = str(Vec.from_str(value) @ orient + origin)",
         new="                new_ent['origin'] = str((Vec.from_str(value) + origin) @ orient)", expect='geometry.entity_origin_is_rotated_then_offset'),
    dict(name='names_fixed_before_substitution', file='instancing.py', old="            out.target = inst.fixup_name(inst.fixup.substitute(out.target, ''))",
         new="            out.target = inst.fixup.substitute(inst.fixup_name(out.target), '')", expect='naming.variables_are_substituted_before_names_are_fixed_up'),
    dict(name='collapse_all_unbounded', file='instancing.py', old="    for _ in range(recur_limit):\n        instances = list(vmf.by_class['func_instance'])",
         new="    while True:\n        instances = list(vmf.by_class['func_instance'])", expect='termination.'),
    dict(name='hidden_entities_collapsed_too', file='instancing.py', old="        if visgroup is False and (old_ent.hidden or not old_ent.vis_shown):\n            continue",
         new="        if visgroup is False and old_ent.hidden:\n            continue", expect='VIOLATION'),
]
HARMLESS = [
    dict(name='placement_locals_renamed', file='instancing.py',
         old="    origin = inst.pos\n    orient = inst.orient\n", new="    origin = inst.pos\n    orient = inst.orient\n    del_me = None\n"),
    dict(name='fixup_name_reordered', file='instancing.py', old="        if not name or name.startswith(('@', '!')):", new="        if name.startswith(('@', '!')) or not name:"),
    dict(name='uvaxis_localise_renamed_local', file='vmf.py',
         old="        vec = self.vec() @ angles\n\n        # Fix offset - see source-sdk: utils/vbsp/map.cpp line 2237\n        offset = self.offset - vec.dot(origin) / self.scale\n\n        return UVAxis(\n            vec.x,\n            vec.y,\n            vec.z,",
         new="        rotated = self.vec() @ angles\n\n        # Fix offset - see source-sdk: utils/vbsp/map.cpp line 2237\n        offset = self.offset - rotated.dot(origin) / self.scale\n\n        return UVAxis(\n            rotated.x,\n            rotated.y,\n            rotated.z,"),
]
