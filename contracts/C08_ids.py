"""C08 -- IDs handed out inside one VMF are unique per kind, positive, never reused while live.

Proof tier: vmf:IDMan (all methods), NullIDMan.get_id, EntityFixup.__setitem__ (lowest unused index), plus the
syntactic ownership obligations (every store to an `.id` slot is a get_id() result; every release site releases
the object's own id).  Bounded tier: operation histories on the real VMF classes.
See DESIGN.md section 3/C08.
"""
import ast
import gc
import itertools

import z3

from pyvc import extract, smt
from pyvc.driver import bounded, minimise
from pyvc.symexec import Obj, SSet
from pyvc.vc import Contract, Registry, native

REG = Registry()
PROP = 'C08'
LEVEL = 'proof'
EXPLANATION = ('IDMan representation invariant and freshness/positivity of every handed-out id proved for all '
               'states (quantified arrays, loop invariant + variant); ownership discipline (ids are only ever '
               'stored from get_id results, released only by their owner) as syntactic obligations over vmf.py/'
               'instancing.py; fixup index kernel proved; operation histories on the real classes as bounded '
               'stand-in for the composition of the above.')
TRUSTED = ['a Python set is finite (ghost bound on the used-id set)',
           'CPython runs __del__ when the last reference to an object dies (finaliser timing)']
UNVERIFIED = ['user code assigning to .id directly', 'maps opened with preserve_ids=True (exempt by definition)']


def idman_inv(self):
    """Representation invariant: search_pos >= 1 and every id in 1..search_pos-1 is used."""
    return self.search_pos >= 1 and forall(lambda i: implies(1 <= i and i < self.search_pos, i in self._used))


def _idman(h, name='m', cls='IDMan'):
    return h.obj(cls, 'vmf', _used=h.int_set(name + '_used'), search_pos=h.int(name + '_sp'))


def _finite(h, m):
    bound = h.int('bound')
    i = z3.Int('fin!i')
    h.assume(z3.ForAll([i], z3.Implies(i >= bound, z3.Not(m.fields['_used'].expr[i]))))
    return bound


def _modifies_idman(a):
    return [(a['self'], '_used'), (a['self'], 'search_pos')]


# ---------------------------------------------------------------------------------------------- get_id
get_id = REG.add(Contract('vmf:IDMan.get_id', PROP))


@get_id.setup
def _(h):
    m = _idman(h)
    return {'args': [m, h.int('desired')], 'ghost': {'bound': _finite(h, m)}}


@get_id.requires
def inv_before(self):
    return idman_inv(self)


@get_id.ensures
def result_positive(result):
    return result >= 1


@get_id.ensures
def result_fresh(self, result):
    return result not in old(self._used)


@get_id.ensures
def used_is_old_plus_result(self, result):
    return forall(lambda i: iff(i in self._used, i in old(self._used) or i == result))


@get_id.ensures
def desired_honoured(self, desired, result):
    return implies(desired > 0 and desired not in old(self._used), result == desired)


@get_id.ensures
def inv_after(self):
    return idman_inv(self)


@get_id.invariant(0)
def scan_inv(self, poss_id):
    return (poss_id >= old(self.search_pos) and poss_id >= 1
            and self._used == old(self._used) and self.search_pos == old(self.search_pos)
            and forall(lambda i: implies(old(self.search_pos) <= i and i < poss_id, i in self._used)))


@get_id.decreases(0)
def scan_variant(poss_id, bound):
    return (bound if bound > 1 else 1) + 1 - poss_id


get_id.modifies(_modifies_idman)


@get_id.result
def _(h, a):
    return h.fresh('id', z3.IntSort())


@get_id.replay
def _(model, obligation):
    from srctools.vmf import IDMan
    used = _model_set(model.get('m_used', ''), model)
    m = IDMan(used)
    m.search_pos = model.get('m_sp', 1)
    before = set(m._used)
    r = m.get_id(model.get('desired', -1))
    ok = r >= 1 and r not in before and m._used == before | {r} and m.search_pos >= 1 and \
        all(i in m._used for i in range(1, m.search_pos))
    return {'failed': not ok, 'used': sorted(before), 'search_pos': model.get('m_sp'), 'desired': model.get('desired'),
            'result': r, 'search_pos_after': m.search_pos}


def _model_set(txt, model):
    """Best effort: turn z3's printed array model into a finite Python set by probing -5..300."""
    import re
    vals = set()
    try:
        expr = z3.Array('m_used', z3.IntSort(), z3.BoolSort())
        # re-parse is not available for printed models; probe common shapes instead
        for m in re.finditer(r'Store\(', txt or ''):
            pass
        nums = [int(x) for x in re.findall(r'-?\d+', txt or '')]
        if txt.startswith('Store') or txt.startswith('K('):
            # Store(Store(K(Int, False), a, True), b, True)...
            parts = re.findall(r', (-?\d+), (True|False)\)', txt)
            for n, b in parts:
                if b == 'True':
                    vals.add(int(n))
                else:
                    vals.discard(int(n))
        elif nums:
            # Lambda with interval constraints: take ints lo..hi-1 for pairs "lo <= k, Not(hi <= k)"
            for lo, hi in re.findall(r'And\((-?\d+) <= k!0,\s*(?:-?\d+ <= k!0,\s*)*Not\((-?\d+) <= k!0\)', txt):
                vals |= set(range(int(lo), int(hi)))
    except Exception:
        pass
    return vals


# ---------------------------------------------------------------------------------------------- discard / remove
discard = REG.add(Contract('vmf:IDMan.discard', PROP))


@discard.setup
def _(h):
    return {'args': [_idman(h), h.int('element')]}


@discard.requires
def inv_before_d(self):
    return idman_inv(self)


@discard.requires
def element_positive(element):
    # ids are positive (get_id's postcondition); releasing anything else would drop search_pos below 1
    return element >= 1


@discard.ensures
def used_is_old_minus_element(self, element):
    return forall(lambda i: iff(i in self._used, i in old(self._used) and i != element))


@discard.ensures
def inv_after_d(self):
    return idman_inv(self)


discard.modifies(_modifies_idman)

remove = REG.add(Contract('vmf:IDMan.remove', PROP))
remove.raises('KeyError')


@remove.setup
def _(h):
    return {'args': [_idman(h), h.int('element')]}


remove.requires(inv_before_d)
remove.requires(element_positive)
remove.ensures(used_is_old_minus_element)
remove.ensures(inv_after_d)


@remove.ensures
def was_present(self, element):
    return element in old(self._used)


@remove.on_raise('KeyError')
def absent_and_unchanged(self, element):
    return element not in old(self._used) and self._used == old(self._used) \
        and self.search_pos == old(self.search_pos)


remove.modifies(_modifies_idman)

clear = REG.add(Contract('vmf:IDMan.clear', PROP))


@clear.setup
def _(h):
    return {'args': [_idman(h)]}


@clear.ensures
def empty_after(self):
    return forall(lambda i: i not in self._used)


clear.ensures(inv_after_d)
clear.modifies(_modifies_idman)

init = REG.add(Contract('vmf:IDMan.__init__', PROP, modular=False))


@init.setup
def _(h):
    m = Obj('IDMan', {}, module='vmf')
    return {'args': [m, h.int_set('existing')]}


@init.ensures
def used_is_existing(self, existing):
    return self._used == existing


init.ensures(inv_after_d)

contains = REG.add(Contract('vmf:IDMan.__contains__', PROP, modular=False))


@contains.setup
def _(h):
    return {'args': [_idman(h), h.int('item')]}


@contains.ensures
def is_membership(self, item, result):
    return iff(result, item in self._used)


contains.modifies(lambda a: [])
REG.inline_ok |= {'vmf:IDMan.__contains__'}

null_get = REG.add(Contract('vmf:NullIDMan.get_id', PROP, name='NullIDMan.get_id'))


@null_get.setup
def _(h):
    m = _idman(h, cls='NullIDMan')
    return {'args': [m, h.int('desired')], 'ghost': {'bound': _finite(h, m)}}


null_get.requires(inv_before)


@null_get.ensures
def auto_ids_are_fresh_and_positive(self, desired, result):
    return implies(desired == -1, result >= 1 and result not in old(self._used))


@null_get.ensures
def explicit_ids_pass_through(self, desired, result):
    return implies(desired != -1, result == desired)


@null_get.ensures
def result_registered(self, result):
    return result in self._used


# ---------------------------------------------------------------------------------------------- fixup index kernel
fix_set = REG.add(Contract('vmf:EntityFixup.__setitem__', PROP, inline=('conv_kv',)))


@fix_set.abstract_expr('{fixup.id for fixup in self._fixup.values()}')
def _indexes(I, env):
    """the set of ids of the FixupValues currently in the table (ghost set `indexes`, finite)"""
    return SSet(I.ghost['indexes'].expr, fresh=True)


@fix_set.setup(label='new_variable')
def _(h):
    table = h.dict_of('fixup', z3.StringSort(), z3.IntSort())
    fx = h.obj('EntityFixup', 'vmf', _fixup=table, _matcher=h.int('matcher'))
    var = h.str('var')
    val = h.str('val')
    h.assume(z3.Length(var) >= 1)
    indexes = h.int_set('indexes')
    bound = h.int('bound')
    i = z3.Int('fin!i')
    h.assume(z3.ForAll([i], z3.Implies(i >= bound, z3.Not(indexes.expr[i]))))
    # this harness covers the branch that allocates an index: the (folded, $-stripped) variable is not yet present
    from pyvc.builtins_model import fold_fn
    stripped = z3.If(z3.PrefixOf(z3.StringVal('$'), var), z3.SubString(var, 1, z3.Length(var) - 1), var)
    h.assume(z3.Not(table.expr[0][fold_fn()(stripped)]))
    return {'args': [fx, var, val], 'ghost': {'indexes': indexes, 'bound': bound, 'stripped': stripped}}


@native
def new_fixup_id(I):
    """The `.id` of the one FixupValue object constructed by the call."""
    from pyvc.symexec import Unsupported
    objs = [o for o in I.allocated if isinstance(o, Obj) and o.cls == 'FixupValue']
    if len(objs) != 1:
        raise Unsupported(f'expected exactly one FixupValue to be constructed, found {len(objs)}')
    return objs[0].fields['id']


@native
def stored_under(I, self, key):
    """The new FixupValue is what the table now holds under `key`."""
    from pyvc.symexec import to_z3
    objs = [o for o in I.allocated if isinstance(o, Obj) and o.cls == 'FixupValue']
    dom, val = self.fields['_fixup'].expr
    k = to_z3(key)
    return z3.And(z3.Select(dom, k), z3.Select(val, k) == objs[0].oid)


@native
def fold(I, s):
    from pyvc.builtins_model import fold_fn
    from pyvc.symexec import to_z3
    return fold_fn()(to_z3(s))


@fix_set.ensures
def new_value_stored_under_folded_name(self, stripped):
    return stored_under(self, fold(stripped))


@fix_set.ensures
def new_index_positive():
    return new_fixup_id() >= 1


@fix_set.ensures
def new_index_unused(indexes):
    return new_fixup_id() not in indexes


@fix_set.ensures
def new_index_is_lowest(indexes):
    return forall(lambda j: implies(1 <= j and j < new_fixup_id(), j in indexes))


@fix_set.invariant(0)
def index_scan(ind, indexes):
    return ind >= 1 and forall(lambda j: implies(1 <= j and j < ind, j in indexes))


@fix_set.decreases(0)
def index_variant(ind, bound):
    return (bound if bound > 1 else 1) + 1 - ind


# ---------------------------------------------------------------------------------------------- syntactic ownership
ID_CLASSES = {'Solid': 'solid_id', 'Side': 'face_id', 'Entity': 'ent_id', 'VisGroup': 'vis_id',
              'EntityGroup': 'group_id'}


def _res(name, ok, line, note=''):
    return smt.Result(name, 'proved' if ok else 'refuted', 'ast-scan', 0.0, {}, line, 0, note)


def static_ownership(repo):
    """Ownership obligations (DESIGN C08/P-owner), decided on the AST of vmf.py / instancing.py:

    1. inside the five ID-carrying classes every store `self.id = E` has E = <map>.<their id manager>.get_id(...)
       (so by get_id's proved contract the id is >= 1 and not held by any other live owner);
    2. outside those classes nothing in the library stores to an `.id` attribute of such an object;
    3. every `<manager>.discard(X)` / `.remove(X)` on an object-id manager has X = `self.id` inside `__del__`
       of the owning class (the id is released exactly when its holder dies).
    """
    out = []
    for modname in ('vmf', 'instancing'):
        mod = extract.load(modname)
        for cls in [n for n in ast.walk(mod.tree) if isinstance(n, ast.ClassDef)]:
            for fn in [n for n in cls.body if isinstance(n, ast.FunctionDef)]:
                for node in ast.walk(fn):
                    tgts = []
                    if isinstance(node, ast.Assign):
                        tgts = [(t, node.value) for t in node.targets]
                    elif isinstance(node, ast.AugAssign):
                        tgts = [(node.target, None)]
                    elif isinstance(node, ast.AnnAssign) and node.value is not None:
                        tgts = [(node.target, node.value)]
                    for t, val in tgts:
                        if not (isinstance(t, ast.Attribute) and t.attr == 'id'):
                            continue
                        base = ast.unparse(t.value)
                        if cls.name in ID_CLASSES and base == 'self':
                            man = ID_CLASSES[cls.name]
                            ok = (isinstance(val, ast.Call) and isinstance(val.func, ast.Attribute)
                                  and val.func.attr == 'get_id'
                                  and ast.unparse(val.func.value).endswith('.' + man))
                            out.append(_res(f'owner.{cls.name}.{fn.name}.id_store_is_get_id', ok, node.lineno,
                                            ast.unparse(node)[:100]))
                        elif base == 'self':
                            continue    # an unrelated class's own `id` attribute (FixupValue, Manifest, ...)
                        else:
                            out.append(_res(f'owner.foreign_id_store.{modname}.{cls.name}.{fn.name}', False,
                                            node.lineno, ast.unparse(node)[:100]))
        # module-level functions storing to .id
        for fn in [n for n in mod.tree.body if isinstance(n, ast.FunctionDef)]:
            for node in ast.walk(fn):
                if isinstance(node, (ast.Assign, ast.AugAssign)):
                    ts = node.targets if isinstance(node, ast.Assign) else [node.target]
                    for t in ts:
                        if isinstance(t, ast.Attribute) and t.attr == 'id':
                            out.append(_res(f'owner.foreign_id_store.{modname}.{fn.name}', False, node.lineno,
                                            ast.unparse(node)[:100]))
        # release sites
        for cls in [n for n in ast.walk(mod.tree) if isinstance(n, ast.ClassDef)]:
            for fn in [n for n in cls.body if isinstance(n, ast.FunctionDef)]:
                for node in ast.walk(fn):
                    if not (isinstance(node, ast.Call) and isinstance(node.func, ast.Attribute)
                            and node.func.attr in ('discard', 'remove')):
                        continue
                    recv = ast.unparse(node.func.value)
                    man = recv.rsplit('.', 1)[-1]
                    if man not in ID_CLASSES.values():
                        continue
                    owner = [c for c, m in ID_CLASSES.items() if m == man][0]
                    arg = ast.unparse(node.args[0]) if node.args else ''
                    ok = cls.name == owner and fn.name == '__del__' and arg == 'self.id'
                    r = _res(f'owner.release.{cls.name}.{fn.name}.{man}', ok, node.lineno,
                             ast.unparse(node)[:100] + ('' if ok else
                                                        '  -- id released while its holder is still alive'))
                    r.replay_fn = _replay_release
                    out.append(r)
    # presence: each class must have at least one id store
    for cls in ID_CLASSES:
        ok = any(r.name.startswith(f'owner.{cls}.') and r.status == 'proved' for r in out)
        out.append(_res(f'owner.{cls}.has_id_store', ok, 0))
    return out


def _replay_release(model, obligation):
    """Native witness for an early release: remove an entity, create another, re-add the first."""
    from srctools.vmf import VMF
    v = VMF()
    a = v.create_ent('info_target')
    v.remove_ent(a)
    b = v.create_ent('info_target')
    v.add_ent(a)
    ids = [e.id for e in v.entities]
    return {'failed': len(set(ids)) != len(ids), 'history': 'A=create_ent; remove_ent(A); B=create_ent; add_ent(A)',
            'ids': ids}


STATIC = [static_ownership]


# ---------------------------------------------------------------------------------------------- bounded histories
def _live_ids(vmf):
    ents = list(vmf.entities)
    brushes = list(vmf.brushes) + [s for e in ents for s in e.solids]
    faces = [f for b in brushes for f in b.sides]
    vis = []

    def walk(groups):
        for g in groups:
            vis.append(g.id)
            walk(g.child_groups)
    walk(vmf.vis_tree)
    return {'entity': [e.id for e in ents], 'brush': [b.id for b in brushes], 'face': [f.id for f in faces],
            'visgroup': vis, 'group': [g.id for g in vmf.groups.values()]}


def _check_ids(vmf):
    for kind, ids in _live_ids(vmf).items():
        if len(set(ids)) != len(ids):
            return f'duplicate {kind} ids {sorted(ids)}'
        if any((not isinstance(i, int)) or i < 1 for i in ids):
            return f'non-positive {kind} id in {sorted(ids)}'
    nodes = []
    for e in vmf.entities:
        if 'nodeid' in e:
            try:
                nodes.append(int(e['nodeid']))
            except ValueError:
                pass
    if len(set(nodes)) != len(nodes):
        return f'duplicate node ids {sorted(nodes)}'
    if any(n < 1 for n in nodes):
        return f'non-positive node id in {sorted(nodes)}'
    for e in vmf.entities:
        idx = [f.id for f in e.fixup._fixup.values()]
        if len(set(idx)) != len(idx):
            return f'duplicate fixup indexes {sorted(idx)}'
        if any(i < 1 for i in idx):
            return f'non-positive fixup index in {sorted(idx)}'
    return None


OPS = ['create-1', 'create0', 'create1', 'create2', 'copy0', 'copy_last', 'remove0', 'remove_last', 'readd',
       'del_gc', 'brush', 'copy_brush', 'node', 'node_set', 'node_del', 'fix_set', 'fix_del', 'fix_copy',
       'vis', 'vis_tree_from_other_map', 'vis_copy_here', 'group']


def _run_history(ops):
    from srctools.vmf import VMF, Entity
    vmf = VMF()
    removed = []
    steps = []
    for op in ops:
        ents = list(vmf.entities)
        if op.startswith('create'):
            Entity  # noqa
            vmf.add_ent(Entity(vmf, {'classname': 'info_target'}, ent_id=int(op[6:])))
        elif op == 'copy0' and ents:
            vmf.add_ent(ents[0].copy())
        elif op == 'copy_last' and ents:
            vmf.add_ent(ents[-1].copy(des_id=ents[-1].id))
        elif op == 'remove0' and ents:
            removed.append(ents[0])
            vmf.remove_ent(ents[0])
        elif op == 'remove_last' and ents:
            removed.append(ents[-1])
            ents[-1].remove()
        elif op == 'readd' and removed:
            vmf.add_ent(removed.pop())
        elif op == 'del_gc':
            removed.clear()
            del ents
            gc.collect()
        elif op == 'brush':
            vmf.add_brush(vmf.make_prism(__import__('srctools').Vec(-8, -8, -8), __import__('srctools').Vec(8, 8, 8)).solid)
        elif op == 'copy_brush' and vmf.brushes:
            b = vmf.brushes[0]
            vmf.add_brush(b.copy(des_id=b.id))
        elif op == 'node':
            vmf.create_ent('info_node', nodeid='1')
        elif op == 'node_set' and ents:
            ents[-1]['nodeid'] = '1'
        elif op == 'node_del' and ents:
            del ents[-1]['nodeid']
        elif op == 'fix_set' and ents:
            ents[-1].fixup['v%d' % len(ents[-1].fixup)] = 'x'
        elif op == 'fix_del' and ents and len(ents[-1].fixup):
            del ents[-1].fixup[next(iter(ents[-1].fixup))]
        elif op == 'fix_copy' and ents:
            vmf.add_ent(ents[-1].copy())
        elif op == 'vis':
            from srctools.vmf import VisGroup
            vmf.vis_tree.append(VisGroup(vmf, f'g{len(vmf.vis_tree)}'))
        elif op == 'vis_tree_from_other_map':
            # a nested tree built in another map (whose id pool starts over), copied into this one
            from srctools.vmf import VisGroup
            other = VMF()
            tree = VisGroup(other, 'parent', child_groups=[VisGroup(other, 'child', child_groups=[VisGroup(other, 'grand')])])
            other.vis_tree.append(tree)
            vmf.vis_tree.append(tree.copy(vmf))
        elif op == 'vis_copy_here' and vmf.vis_tree:
            vmf.vis_tree.append(vmf.vis_tree[0].copy())
        elif op == 'group':
            from srctools.vmf import EntityGroup
            grp = EntityGroup(vmf)
            vmf.groups[grp.id] = grp
        steps.append(op)
        bad = _check_ids(vmf)
        if bad:
            return steps, bad
    return None


@bounded('C08.B-histories', bound='all operation sequences of length <= 3 (quick) / <= 4 (thorough) over 18 '
         'operations on one map + seeded longer ones; parsed documents with duplicate / missing / zero ids',
         rule='a case is one operation sequence; non-trivial when it creates at least two id holders')
def b_histories(ctx):
    n = 4 if ctx.thorough else 3
    jobs = [ops for length in range(1, n + 1) for ops in itertools.product(OPS, repeat=length)]
    jobs += [tuple(ctx.rng.choice(OPS) for _ in range(ctx.rng.randint(4, 9))) for _ in range(600 if not ctx.thorough else 6000)]
    # the known node-id histories are part of every run, so a listed finding is re-confirmed (and printed) each time
    jobs += [('node', 'remove0', 'node', 'readd'), ('node', 'remove_last', 'node', 'readd')]
    seen = set()
    for ops, r in ctx.pmap(_run_history, jobs, batch=2048, job_timeout=20.0):
        ctx.case(ops, nontrivial=sum(o.startswith(('create', 'copy', 'brush', 'node', 'fix', 'vis', 'group')) for o in ops) >= 2)
        if isinstance(r, str):
            ctx.violation('history=' + '>'.join(ops), r, list(ops))
        elif r:
            core = tuple(minimise(r[0], _run_history))
            if core in seen:
                continue
            seen.add(core)
            _report(ctx, (list(core), r[1]))


def _report(ctx, r):
    steps, bad = r
    core = minimise(steps, _run_history)
    bad = _run_history(core)[1]
    ctx.violation('history=' + '>'.join(core), f'{bad} after the (minimised) history {core}', list(core))


b_histories.replay = lambda inp: (lambda r: {'failed': bool(r), 'observation': r})(_run_history(inp))

DOCS = [
    ('dup_ent_ids', 'entity\n{\n"id" "5"\n"classname" "a"\n}\nentity\n{\n"id" "5"\n"classname" "b"\n}\n'),
    ('zero_and_negative', 'entity\n{\n"id" "0"\n"classname" "a"\n}\nentity\n{\n"id" "-3"\n"classname" "b"\n}\n'),
    ('missing', 'entity\n{\n"classname" "a"\n}\nentity\n{\n"classname" "b"\n}\n'),
    ('fixup_dup', 'entity\n{\n"id" "1"\n"classname" "func_instance"\n"replace01" "$a 1"\n"replace01" "$b 2"\n}\n'),
    ('fixup_dup_before_lower', 'entity\n{\n"id" "1"\n"classname" "func_instance"\n"replace02" "$a 1"\n"replace02" "$b 2"\n"replace01" "$c 3"\n}\n'),
    ('fixup_zero', 'entity\n{\n"id" "1"\n"classname" "func_instance"\n"replace00" "$a 1"\n"replace01" "$b 2"\n}\n'),
    ('fixup_negative', 'entity\n{\n"id" "1"\n"classname" "func_instance"\n"replace-1" "$a 1"\n}\n'),
    ('dup_solids', 'world\n{\n"id" "1"\n"classname" "worldspawn"\nsolid\n{\n"id" "2"\n}\nsolid\n{\n"id" "2"\n}\n}\n'),
    ('node_dup', 'entity\n{\n"id" "1"\n"classname" "info_node"\n"nodeid" "4"\n}\nentity\n{\n"id" "2"\n'
                 '"classname" "info_node"\n"nodeid" "4"\n}\n'),
    ('node_negative', 'entity\n{\n"id" "1"\n"classname" "info_node"\n"nodeid" "-4"\n}\n'),
]


def _run_doc(name_text):
    from srctools.keyvalues import Keyvalues
    from srctools.vmf import VMF
    name, text = name_text
    vmf = VMF.parse(Keyvalues.parse(text))
    return _check_ids(vmf)


@bounded('C08.B-parsed-docs', bound=f'{len(DOCS)} hand-written documents with colliding, zero, negative and '
         'missing ids', rule='one case per document')
def b_docs(ctx):
    for d in DOCS:
        ctx.case(d[0])
        bad = _run_doc(d)
        if bad:
            ctx.violation('doc=' + d[0], f'{bad} after parsing document {d[0]}', list(d))


b_docs.replay = lambda inp: (lambda r: {'failed': bool(r), 'observation': r})(_run_doc(tuple(inp)))

BOUNDED = [b_histories, b_docs]
