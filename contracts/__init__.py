"""Sidecar contracts for the real functions of /repo/src/srctools (one module per property)."""
