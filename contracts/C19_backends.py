"""C19 -- all filesystem backends resolve names alike; chains honour priority.

Proof tier: the lookup key of every backend (_file_exists / _get_file of the zip, VPK and in-memory backends, the
latter through the real _clean_path with os.path.normpath uninterpreted) is proved to be fold(name with '\\' -> '/') -- the single normal form of the specification -- by
symbolic execution against dictionaries with symbolic key sets; FileSystemChain._get_file is proved to return the
first member (in order) whose lookup succeeds, addressed through its prefix.
Bounded tier: differential test of the four backends and of chains on generated file sets.
"""
import io
import itertools
import os
import shutil
import tempfile
import zipfile

import z3

from pyvc import smt
from pyvc.driver import bounded
from pyvc.symexec import Builtin, ExcVal, Obj, PList, PyRaise, UninterpFn, to_z3
from pyvc.vc import Contract, Registry, native

REG = Registry()
PROP = 'C19'
LEVEL = 'other'
M = 'filesys'
EXPLANATION = ('Lookup keys of the zip, VPK and in-memory backends proved equal to one normal form (case folded, '
               'backslashes to slashes; the in-memory one after os.path.normpath, kept uninterpreted) for every name, '
               'the in-memory _get_file proved to hand back the stored entry of exactly that key; FileSystemChain._get_file proved to pick the first member that '
               'has the (prefix-joined) name. Zip and VPK walk_folder: the statements before the loop plus one arbitrary '
               'iteration are proved to list a table entry exactly when its key lies inside the normal form of the folder '
               '(all entries for the empty folder), once, as that entry; likewise the in-memory walk_folder, where folders '
               'spelled with separators only or as "." mean everything. The de-duplicating loop of FileSystemChain.walk_folder is proved per file: listed exactly when no '
               'spelling of its folded name was listed before, and the set of listed names grows by exactly that name. '
               'walk_folder_repeat is proved to hand each member file on, once, under replace(relpath(name, prefix)) with '
               'relpath uninterpreted. Directory walks, the meaning of relpath/join, byte equality between backends, de-duplicated chain walks '
               'and subfolder-relative naming are decided by the bounded differential stand-in over generated file sets.')
TRUSTED = ['str.casefold as an uninterpreted idempotent function',
           'library summary: str.strip(chars) / str.rstrip(c) = the unique middle / left part (regular-expression axioms)', 'zipfile / VPK container I/O (C13)',
           'os.path.normpath on relative slash-separated names without "." / ".." components is the identity up to '
           'repeated separators (bounded tier uses such names)',
           'VirtualFileSystem.__init__: the comprehension is checked by shape (key = _clean_path(stored name), value = '
           '(stored name, data), no filter), not executed symbolically; later keys overwriting earlier equal ones is '
           'Python dict semantics']
UNVERIFIED = ['walk_folder of the directory backend; that os.path.relpath(name, prefix) strips the prefix and os.path.join(prefix, folder) '
              'prepends it (bounded only)',
              'that dict.items() visits every entry once (Python semantics; the walk lemmas are per entry)', 'host file-system case sensitivity for RawFileSystem']

from pyvc.builtins_model import fold_fn, replace_all   # noqa: E402


@native
def norm(I, name):
    """fold(name.replace('\\\\', '/'))"""
    return fold_fn()(replace_all(name, '\\', '/'))


@native
def norm_fold_first(I, name):
    """fold(name).replace('\\\\', '/')  -- the order the VPK backend uses; equal to norm() whenever folding does not
    create or destroy backslashes (assumed of casefold: it maps '\\\\' to itself and nothing else to it)."""
    return replace_all(fold_fn()(to_z3(name)), '\\', '/')


@native
def has(I, d, key):
    return z3.Select(d.expr[0], to_z3(key))


def _zipfs(h):
    table = h.dict_of('name_to_info', z3.StringSort(), z3.IntSort())
    return Obj('ZipFileSystem', dict(_name_to_info=table, path='<zip>'), module=M), table


zip_exists = REG.add(Contract(f'{M}:ZipFileSystem._file_exists', PROP))


@zip_exists.setup
def _(h):
    fs, table = _zipfs(h)
    return {'args': [fs, h.str('name')], 'ghost': dict(table=table)}


@zip_exists.ensures
def exists_iff_normal_form_is_a_key(name, result, table):
    return iff(result, has(table, norm(name)))


zip_get = REG.add(Contract(f'{M}:ZipFileSystem._get_file', PROP, inline=('File.__init__',)))
zip_get.raises('FileNotFoundError')


@zip_get.setup
def _(h):
    fs, table = _zipfs(h)
    return {'args': [fs, h.str('name')], 'ghost': dict(table=table)}


@native
def file_data(I, f):
    return f.fields.get('_data')


@native
def lookup(I, d, key):
    return z3.Select(d.expr[1], to_z3(key))


@zip_get.ensures
def returns_the_entry_under_the_normal_form(name, result, table):
    return has(table, norm(name)) and file_data(result) == lookup(table, norm(name))


@zip_get.on_raise('FileNotFoundError')
def raised_only_when_absent(name, table):
    return not has(table, norm(name))


def _vpkfs(h):
    table = h.dict_of('name_to_file', z3.StringSort(), z3.IntSort())
    return Obj('VPKFileSystem', dict(_name_to_file=table, path='<vpk>'), module=M), table


vpk_exists = REG.add(Contract(f'{M}:VPKFileSystem._file_exists', PROP))


@vpk_exists.setup
def _(h):
    fs, table = _vpkfs(h)
    return {'args': [fs, h.str('name')], 'ghost': dict(table=table)}


@vpk_exists.ensures
def vpk_exists_iff_normal_form_is_a_key(name, result, table):
    return iff(result, has(table, norm_fold_first(name)))


vpk_get = REG.add(Contract(f'{M}:VPKFileSystem._get_file', PROP, inline=('File.__init__',)))
vpk_get.raises('FileNotFoundError')


@vpk_get.setup
def _(h):
    fs, table = _vpkfs(h)
    return {'args': [fs, h.str('name')], 'ghost': dict(table=table)}


@vpk_get.ensures
def vpk_returns_the_entry_under_the_normal_form(name, result, table):
    return has(table, norm_fold_first(name)) and file_data(result) == lookup(table, norm_fold_first(name))


@vpk_get.on_raise('FileNotFoundError')
def vpk_raised_only_when_absent(name, table):
    return not has(table, norm_fold_first(name))


# ------------------------------------------------------------------------------------------------ chain priority
# ---- in-memory backend: key = fold(normpath(name) with '\\' -> '/'); os.path.normpath stays uninterpreted here, so the
# proof says "the same key function for the existence test, the lookup and (by the constructor scan below) the table",
# and the agreement of normpath with the identity on the names of the property is the stated assumption in TRUSTED.
NORMPATH = UninterpFn('normpath', z3.StringSort(), z3.StringSort())
_PAIR, _mk_pair, (_pair_name, _pair_data) = z3.TupleSort('virt_entry', [z3.StringSort(), z3.IntSort()])


def _virt_os_model(I):
    def attr(I_, name):
        from pyvc.symexec import _MISSING, ModuleVal
        return ModuleVal('os.path!virt') if name == 'path' else _MISSING
    return attr


def _virt_ospath_model(I):
    def attr(I_, name):
        from pyvc.symexec import _MISSING
        if name == 'normpath':
            return Builtin('os.path.normpath', lambda p: NORMPATH.decl(to_z3(p)))
        return _MISSING
    return attr


@native
def virt_norm(I, name):
    """fold(normpath(name).replace('\\', '/'))"""
    return fold_fn()(replace_all(NORMPATH.decl(to_z3(name)), '\\', '/'))


def _virtfs(h):
    h.I.module_models = {'os': _virt_os_model(h.I), 'os.path!virt': _virt_ospath_model(h.I)}
    table = h.dict_of('mapping', z3.StringSort(), _PAIR)
    return Obj('VirtualFileSystem', dict(_mapping=table, path='<virtual>', bytes_encoding='utf8'), module=M), table


virt_exists = REG.add(Contract(f'{M}:VirtualFileSystem._file_exists', PROP, inline=('VirtualFileSystem._clean_path',)))


@virt_exists.setup
def _(h):
    fs, table = _virtfs(h)
    return {'args': [fs, h.str('name')], 'ghost': dict(table=table)}


@virt_exists.ensures
def virt_exists_iff_normal_form_is_a_key(name, result, table):
    return iff(result, has(table, virt_norm(name)))


virt_get = REG.add(Contract(f'{M}:VirtualFileSystem._get_file', PROP,
                            inline=('File.__init__', 'VirtualFileSystem._clean_path')))
virt_get.raises('FileNotFoundError')


@virt_get.setup
def _(h):
    fs, table = _virtfs(h)
    return {'args': [fs, h.str('name')], 'ghost': dict(table=table)}


@native
def entry_name(I, d, key):
    return _pair_name(z3.Select(d.expr[1], to_z3(key)))


@native
def file_path(I, f):
    return f.fields.get('path')


@virt_get.ensures
def virt_returns_the_entry_under_the_normal_form(name, result, table):
    """the File handed back names the stored entry (its data field is the stored spelling, which open_bin/open_str
    clean again to the same key) and belongs to this filesystem"""
    return (has(table, virt_norm(name)) and file_data(result) == entry_name(table, virt_norm(name))
            and file_path(result) == entry_name(table, virt_norm(name)))


@virt_get.on_raise('FileNotFoundError')
def virt_raised_only_when_absent(name, table):
    return not has(table, virt_norm(name))


chain_get = REG.add(Contract(f'{M}:FileSystemChain._get_file', PROP, inline=('File.__init__',)))
chain_get.raises('FileNotFoundError')
JOINP = UninterpFn('os_path_join', z3.StringSort(), z3.StringSort(), z3.StringSort())


def _member(h, k):
    """A member filesystem whose _get_file succeeds on an uninterpreted set of names."""
    present = z3.Function(f'present{k}', z3.StringSort(), z3.BoolSort())
    member = Obj(f'Member{k}', {}, module='')

    def get_file(name):
        I = h.I
        if I.path.branch(present(to_z3(name)), f'member{k}.has'):
            return Obj('File', dict(sys=member, path=name, _data=z3.IntVal(k)), module=M)
        raise PyRaise(ExcVal('FileNotFoundError', (name,)))
    member.fields['_get_file'] = Builtin('_get_file', get_file)
    return member, present


@chain_get.setup
def _(h):
    I = h.I
    members = [_member(h, k) for k in range(3)]
    prefixes = [h.str(f'prefix{k}') for k in range(3)]
    chain = Obj('FileSystemChain', dict(systems=PList([(m, p) for (m, _), p in zip(members, prefixes)]), path=''), module=M)

    def path_model(I_, fname, *a):
        if fname == 'join':
            return JOINP.decl(to_z3(a[0]), to_z3(a[1]))
        from pyvc.symexec import Unsupported
        raise Unsupported(fname)
    I.path_model = path_model
    name = h.str('name')
    return {'args': [chain, name], 'ghost': dict(p0=members[0][1], p1=members[1][1], p2=members[2][1],
                                                 pre0=prefixes[0], pre1=prefixes[1], pre2=prefixes[2])}


@native
def full(I, prefix, name):
    return replace_all(JOINP.decl(to_z3(prefix), to_z3(name)), '\\', '/')


@native
def holds(I, pred, s):
    return pred(to_z3(s))


@native
def member_index(I, f):
    return f.fields['_data'].fields['_data']


@chain_get.ensures
def first_member_that_has_it_wins(name, result, p0, p1, p2, pre0, pre1, pre2):
    return (member_index(result) == (0 if holds(p0, full(pre0, name)) else (1 if holds(p1, full(pre1, name)) else 2))
            and (holds(p0, full(pre0, name)) or holds(p1, full(pre1, name)) or holds(p2, full(pre2, name))))


@chain_get.on_raise('FileNotFoundError')
def raised_only_when_no_member_has_it(name, p0, p1, p2, pre0, pre1, pre2):
    return not (holds(p0, full(pre0, name)) or holds(p1, full(pre1, name)) or holds(p2, full(pre2, name)))


chain_add = REG.add(Contract(f'{M}:FileSystemChain.add_sys', PROP))


def _add_setup(readd):
    def setup(h):
        members = [Obj(f'Member{k}', {}, module='') for k in range(3)]
        prefixes = [h.str(f'prefix{k}') for k in range(3)]
        old = [(members[0], prefixes[0]), (members[1], prefixes[1])]
        chain = Obj('FileSystemChain', dict(systems=PList(list(old)), path=''), module=M)
        new = (members[1], prefixes[1]) if readd else (members[2], prefixes[2])
        prio = h.bool('priority')
        return {'args': [chain, new[0], new[1]], 'kwargs': {'priority': prio},
                'ghost': dict(CHAIN=chain, OLD0=old[0], OLD1=old[1], NEW=new, PRIO=prio)}
    return setup


chain_add.setup(_add_setup(False), label='new_member')
chain_add.setup(_add_setup(True), label='member_already_present')


def _pair(e):
    e = e.items if isinstance(e, PList) else e
    return e[0], to_z3(e[1])


def _search_order(entries):
    """Members in the order a lookup visits them; a later repeat of an earlier (member, prefix) pair never matters."""
    out = []
    for m, p in entries:
        if not any(m is m2 and p.eq(p2) for m2, p2 in out):
            out.append((m, p))
    return out


@native
def search_order_is(I, chain, *want):
    got = _search_order([_pair(e) for e in chain.fields['systems'].items])
    exp = _search_order([_pair(e) for e in want])
    return len(got) == len(exp) and all(a is c and b.eq(d) for (a, b), (c, d) in zip(got, exp))


@chain_add.ensures
def priority_members_are_searched_first_others_last_and_nothing_is_dropped(CHAIN, OLD0, OLD1, NEW, PRIO):
    return search_order_is(CHAIN, NEW, OLD0, OLD1) if PRIO else search_order_is(CHAIN, OLD0, OLD1, NEW)


# ---- folder walks of the zip and VPK backends: the statements before the loop, then one arbitrary iteration
def _before_loop(fn):
    import ast
    for i, st in enumerate(fn.body):
        if isinstance(st, ast.For):
            return [b for b in fn.body[:i] if not (isinstance(b, ast.Expr) and isinstance(b.value, ast.Constant))]
    return []


def _walk_lemma(cls, table_field, key_var, val_var):
    from pyvc.vc import Lemma
    lem = REG.add(Lemma(f'{cls}.walk_folder.one_entry', PROP,
                        [{'stmts': f'{M}:{cls}.walk_folder', 'select': _before_loop},
                         {'body': f'{M}:{cls}.walk_folder', 'loop': 0, 'closure': {'__yielded__': 'YIELDED'}}],
                        inline=('File.__init__',)))

    @lem.setup
    def _(h):
        key = h.str('key')
        entry = Obj('Entry', dict(filename=h.str('stored_name')), module=M)
        fs = Obj(cls, {table_field: h.dict_of('table', z3.StringSort(), z3.IntSort()), 'path': '<fs>'}, module=M)
        return {'locals': {'self': fs, 'folder': h.str('folder0'), key_var: key, val_var: entry, 'YIELDED': []},
                'ghost': dict(FOLDER=h.symbols['folder0'], KEY=key, ENTRY=entry, FS=fs)}
    return lem


@native
def folder_normal_form(I, folder):
    """The folder in normal form: fold(folder with '\\' -> '/') without its trailing slashes.  The interpreter's rstrip
    model names the kept part r of s = r + '/'*; the clause using this also demands that s is that normal form."""
    s, r, t = I.rstrip_witness[0]
    return r


@native
def stripped_text(I):
    return I.rstrip_witness[0][0]


@native
def inside_folder(I, key, f):
    key, f = to_z3(key), to_z3(f)
    return z3.Or(f == z3.StringVal(''), z3.PrefixOf(z3.Concat(f, z3.StringVal('/')), key))


@native
def n_yielded(I, YIELDED):
    return len(YIELDED)


@native
def yielded_entry_is(I, YIELDED, ENTRY, FS):
    return all(f.fields.get('_data') is ENTRY and f.fields.get('sys') is FS for f in YIELDED)


def _walk_clauses(lem):
    @lem.ensures
    def trailing_slashes_are_stripped_from_the_normal_form_of_the_folder(FOLDER):
        return stripped_text() == norm(FOLDER)

    @lem.ensures
    def an_entry_is_listed_exactly_when_it_is_located_inside_the_folder(FOLDER, KEY, YIELDED):
        return iff(n_yielded(YIELDED) == 1, inside_folder(KEY, folder_normal_form(FOLDER))) and n_yielded(YIELDED) <= 1

    @lem.ensures
    def the_listed_file_is_that_entry_of_this_filesystem(YIELDED, ENTRY, FS):
        return yielded_entry_is(YIELDED, ENTRY, FS)


zip_walk = _walk_lemma('ZipFileSystem', '_name_to_info', 'filename', 'fileinfo')
_walk_clauses(zip_walk)
vpk_walk = _walk_lemma('VPKFileSystem', '_name_to_file', 'name', 'file')
_walk_clauses(vpk_walk)


# in-memory walk: same lemma shape; the key function is the real _clean_path (normpath uninterpreted) and the folders
# spelled only with separators or as '.' mean "everything" (normpath('') is '.')
from pyvc.vc import Lemma as _Lemma   # noqa: E402
virt_walk = REG.add(_Lemma('VirtualFileSystem.walk_folder.one_entry', PROP,
                           [{'stmts': f'{M}:VirtualFileSystem.walk_folder', 'select': _before_loop},
                            {'body': f'{M}:VirtualFileSystem.walk_folder', 'loop': 0, 'closure': {'__yielded__': 'YIELDED'}}],
                           inline=('File.__init__', 'VirtualFileSystem._clean_path')))


@virt_walk.setup
def _(h):
    fs, table = _virtfs(h)
    key, stored = h.str('key'), h.str('stored_name')
    return {'locals': {'self': fs, 'folder': h.str('folder0'), 'clean_name': key, 'filename': stored,
                       'data': h.int('data'), 'YIELDED': []},
            'ghost': dict(FOLDER=h.symbols['folder0'], KEY=key, STORED=stored, FS=fs)}


@native
def means_everything(I, folder):
    """folder.strip('/\\') is '' or '.': the folder is spelled with separators only, or is the current directory"""
    if not getattr(I, 'strip_witness', None):
        # the branch that strips was not taken on this path: decide from the definition with a fresh witness
        raise RuntimeError('strip witness missing')
    s, m = I.strip_witness[0]
    return z3.And(s == to_z3(folder), z3.Or(m == z3.StringVal(''), m == z3.StringVal('.')))


@native
def walk_prefix_folder(I):
    return I.rstrip_witness[0][1] if getattr(I, 'rstrip_witness', None) else z3.StringVal('')


@native
def walk_stripped_text(I, folder):
    """what rstrip was applied to (the cleaned folder) -- or, where no rstrip ran, the cleaned folder itself"""
    if getattr(I, 'rstrip_witness', None):
        return I.rstrip_witness[0][0]
    return fold_fn()(replace_all(NORMPATH.decl(to_z3(folder)), '\\', '/'))


@native
def yielded_names_are(I, YIELDED, STORED, FS):
    return z3.And(*[z3.And(to_z3(f.fields.get('path')) == to_z3(STORED), to_z3(f.fields.get('_data')) == to_z3(STORED))
                    for f in YIELDED], *[z3.BoolVal(f.fields.get('sys') is FS) for f in YIELDED])


@native
def below(I, key, f):
    """key starts with f + '/'.  (For a folder that does not mean everything, f is empty only when normpath turns it into
    separators alone -- an absolute spelling of the root such as '/x/..', outside the names of the property; the code
    then lists keys starting with '/', of which a table built by _clean_path from relative names has none.)"""
    return z3.PrefixOf(z3.Concat(to_z3(f), z3.StringVal('/')), to_z3(key))


@virt_walk.ensures
def the_folder_is_cleaned_like_every_key(FOLDER):
    return walk_stripped_text(FOLDER) == virt_norm(FOLDER)


@virt_walk.ensures
def an_entry_is_listed_exactly_when_everything_is_meant_or_it_is_inside_the_folder(FOLDER, KEY, YIELDED):
    return (iff(n_yielded(YIELDED) == 1,
                means_everything(FOLDER) or below(KEY, walk_prefix_folder()))
            and n_yielded(YIELDED) <= 1)


@virt_walk.ensures
def the_listed_file_has_the_stored_name(YIELDED, STORED, FS):
    return yielded_names_are(YIELDED, STORED, FS)


# ---- de-duplicated chain walk: one arbitrary iteration over a symbolic set of names already listed
chain_walk = REG.add(_Lemma('FileSystemChain.walk_folder.one_file', PROP,
                            [{'body': f'{M}:FileSystemChain.walk_folder', 'loop': 0, 'closure': {'__yielded__': 'YIELDED'}}],
                            inline=()))


@chain_walk.setup
def _(h):
    done = h.set_of('done', z3.StringSort())
    path = h.str('path')
    f = Obj('File', dict(path=path, sys=None, _data=None), module=M)
    return {'locals': {'done': done, 'file': f, 'YIELDED': []},
            'ghost': dict(DONE0=done.expr, PATH=path, FILE=f)}


@native
def was_listed(I, DONE0, path):
    return z3.Select(DONE0, fold_fn()(to_z3(path)))


@native
def now_listed_are(I, done, DONE0, path):
    """the set after the iteration is the set before plus the folded name -- nothing else enters, nothing leaves"""
    return to_z3(done.expr) == z3.Store(DONE0, fold_fn()(to_z3(path)), z3.BoolVal(True))


@native
def only_that_file(I, YIELDED, FILE):
    return all(f is FILE for f in YIELDED)


@chain_walk.ensures
def a_file_is_listed_exactly_when_no_spelling_of_its_name_was_listed_before(DONE0, PATH, YIELDED, FILE):
    return (iff(n_yielded(YIELDED) == 1, not was_listed(DONE0, PATH)) and n_yielded(YIELDED) <= 1
            and only_that_file(YIELDED, FILE))


@chain_walk.ensures
def the_names_listed_so_far_grow_by_exactly_this_one(done, DONE0, PATH):
    return now_listed_are(done, DONE0, PATH)


# ---- chain walk with repeats: a file found in a member is handed on under its name relative to the member's prefix
RELPATH = UninterpFn('relpath', z3.StringSort(), z3.StringSort(), z3.StringSort())


def _outer_body_before_inner_loop(fn):
    """What one pass of the loop over the members computes before it walks the member (full_folder and any other local
    the inner loop uses), so that the inner iteration below sees every local the real code defines."""
    import ast
    outer = [st for st in fn.body if isinstance(st, ast.For)]
    if len(outer) != 1:
        return []
    out = []
    for st in outer[0].body:
        if isinstance(st, ast.For):
            return out
        out.append(st)
    return []


chain_repeat = REG.add(_Lemma('FileSystemChain.walk_folder_repeat.one_file', PROP,
                              [{'stmts': f'{M}:FileSystemChain.walk_folder_repeat', 'select': _outer_body_before_inner_loop},
                               {'body': f'{M}:FileSystemChain.walk_folder_repeat', 'loop': 1,
                                'closure': {'__yielded__': 'YIELDED'}}],
                              inline=('File.__init__',)))


@chain_repeat.setup
def _(h):
    def path_model(I_, fname, *a):
        if fname == 'relpath' and len(a) == 2:
            return RELPATH.decl(to_z3(a[0]), to_z3(a[1]))
        if fname == 'join' and len(a) == 2:
            return JOINP.decl(to_z3(a[0]), to_z3(a[1]))
        from pyvc.symexec import Unsupported
        raise Unsupported(fname)
    h.I.path_model = path_model
    member = Obj('VirtualFileSystem', dict(path='<member>'), module=M)
    found = Obj('File', dict(path=h.str('member_path'), sys=member, _data=None), module=M)
    chain = Obj('FileSystemChain', dict(systems=PList([]), path=''), module=M)
    prefix = h.str('prefix')
    # the statements of the outer loop body run first, so every local the inner loop uses exists (also ones a change adds)
    return {'locals': {'self': chain, 'file': found, 'prefix': prefix, 'sys': member, 'YIELDED': [],
                       'folder': h.str('folder0')},
            'ghost': dict(FOUND=found, PREFIX=prefix, CHAIN=chain, MEMBER_PATH=h.symbols['member_path'])}


@native
def relative_name(I, path, prefix):
    return replace_all(RELPATH.decl(to_z3(path), to_z3(prefix)), '\\', '/')


@native
def yields_one_chain_file(I, YIELDED, CHAIN, FOUND, name):
    if len(YIELDED) != 1:
        return False
    f = YIELDED[0]
    return z3.And(z3.BoolVal(f.fields.get('sys') is CHAIN and f.fields.get('_data') is FOUND),
                  to_z3(f.fields.get('path')) == to_z3(name))


@chain_repeat.ensures
def the_member_file_is_listed_once_under_its_name_relative_to_the_prefix(YIELDED, CHAIN, FOUND, MEMBER_PATH, PREFIX):
    return yields_one_chain_file(YIELDED, CHAIN, FOUND, relative_name(MEMBER_PATH, PREFIX))


# ---- every use of the in-memory table goes through the one key function (constructor, lookups, opens)
def _shape(name, good, bad=False, line=0, note=''):
    r = smt.shape(name, good, bad, line, note)
    r.replay_fn = _witness
    return r


def _is_clean_call(node):
    import ast
    return (isinstance(node, ast.Call) and ast.unparse(node.func) in ('self._clean_path', 'cls._clean_path')
            and len(node.args) == 1 and not node.keywords)


def static_virtual_table(repo):
    """VirtualFileSystem: the table is built with keys `self._clean_path(<stored name>)` and every subscript / `in`
    test on it uses `self._clean_path(<parameter>)` (directly or through a local assigned from such a call). With the
    contracts above this makes constructor, existence test, lookup and both opens agree on one key function.
    A key that is visibly something else is a violation; a restructured access is undecided."""
    import ast
    from pyvc import extract
    cls = extract.load(M).classdef('VirtualFileSystem')
    out, n = [], 0
    for fn in [f for f in cls.body if isinstance(f, ast.FunctionDef)]:
        cleaned = {nd.targets[0].id for nd in ast.walk(fn) if isinstance(nd, ast.Assign) and len(nd.targets) == 1
                   and isinstance(nd.targets[0], ast.Name) and _is_clean_call(nd.value)}
        params = {a.arg for a in fn.args.args} - {'self', 'cls'}
        keys = []
        for nd in ast.walk(fn):
            if isinstance(nd, ast.Subscript) and ast.unparse(nd.value) == 'self._mapping' \
                    and isinstance(nd.ctx, ast.Load):
                keys.append((nd.slice, nd.lineno))
            elif isinstance(nd, ast.Compare) and len(nd.ops) == 1 and isinstance(nd.ops[0], (ast.In, ast.NotIn)) \
                    and ast.unparse(nd.comparators[0]) == 'self._mapping':
                keys.append((nd.left, nd.lineno))
        for key, line in keys:
            n += 1
            good = _is_clean_call(key) or (isinstance(key, ast.Name) and key.id in cleaned)
            # visibly bypassing the key function: a parameter (or a str method applied to one) used as the key
            base = key
            while isinstance(base, ast.Call) and isinstance(base.func, ast.Attribute) and not _is_clean_call(base):
                base = base.func.value
            bad = not good and isinstance(base, ast.Name) and base.id in params and base.id not in cleaned
            out.append(_shape(f'virtual.{fn.name}.table_key_is_clean_path@{line}', good, bad, line, ast.unparse(key)[:80]))
    out.append(_shape('virtual.table_accesses_found', n >= 4, False, cls.lineno, f'{n} keyed accesses'))
    init = [f for f in cls.body if isinstance(f, ast.FunctionDef) and f.name == '__init__']
    comps = [nd for f in init for nd in ast.walk(f) if isinstance(nd, ast.Assign)
             and ast.unparse(nd.targets[0]) == 'self._mapping' and isinstance(nd.value, ast.DictComp)]
    if len(comps) == 1:
        dc = comps[0].value
        tgt = dc.generators[0].target
        stored = tgt.elts[0].id if isinstance(tgt, ast.Tuple) and isinstance(tgt.elts[0], ast.Name) else None
        good = (_is_clean_call(dc.key) and isinstance(dc.key.args[0], ast.Name) and dc.key.args[0].id == stored
                and isinstance(dc.value, ast.Tuple) and len(dc.value.elts) == 2
                and isinstance(dc.value.elts[0], ast.Name) and dc.value.elts[0].id == stored
                and len(dc.generators) == 1 and not dc.generators[0].ifs)
        bad = not _is_clean_call(dc.key) and not isinstance(dc.key, ast.Name)
        out.append(_shape('virtual.init.table_maps_clean_path_of_each_name_to_that_name_and_its_data', good, bad,
                          comps[0].lineno, ast.unparse(dc.key)[:80]))
    else:
        out.append(_shape('virtual.init.table_maps_clean_path_of_each_name_to_that_name_and_its_data', False, False,
                          cls.lineno, 'constructor restructured'))
    return out


STATIC = [static_virtual_table]
PROOFS = [zip_exists, zip_get, vpk_exists, vpk_get, virt_exists, virt_get, zip_walk, vpk_walk, virt_walk, chain_walk, chain_repeat, chain_get, chain_add]


# ------------------------------------------------------------------------------------------------ bounded differential
def _build(files, tmp):
    """The same file set in the in-memory, zip, VPK and directory backends."""
    from srctools.filesys import VirtualFileSystem, ZipFileSystem, VPKFileSystem, RawFileSystem
    from srctools.vpk import VPK
    # every other name is handed to the in-memory filesystem spelled with backslashes (both slash kinds are one name)
    virt = VirtualFileSystem({(n.replace('/', '\\') if i % 2 else n): d for i, (n, d) in enumerate(files.items())})
    zpath = os.path.join(tmp, 'f.zip')
    with zipfile.ZipFile(zpath, 'w') as z:
        for n, d in files.items():
            z.writestr(n, d)
    vpath = os.path.join(tmp, 'f_dir.vpk')
    ascii_only = all(n.isascii() for n in files)       # VPK refuses non-ASCII names: such sets have three backends
    if ascii_only:
        v = VPK(vpath, mode='w')
        for n, d in files.items():
            v.add_file(n, d)
        v.write_dirfile()
    root = os.path.join(tmp, 'raw')
    os.makedirs(root)
    folded_seen = set()
    raw_files = {}
    for n, d in files.items():
        if n.casefold() in folded_seen:
            continue
        folded_seen.add(n.casefold())
        p = os.path.join(root, n)
        os.makedirs(os.path.dirname(p), exist_ok=True)
        with open(p, 'wb') as f:
            f.write(d)
        raw_files[n] = d
    backends = {'virtual': virtual_wrap(virt), 'zip': ZipFileSystem(zpath)}
    if ascii_only:
        backends['vpk'] = VPKFileSystem(vpath)
    return backends, RawFileSystem(root), raw_files


def virtual_wrap(v):
    return v


def _spec_norm(n):
    return n.replace('\\', '/').casefold()


def _spellings(name):
    return {name, name.upper(), name.lower(), name.replace('/', '\\'), name.swapcase().replace('/', '\\')}


def _folders(files):
    out = {''}
    for n in files:
        parts = n.split('/')[:-1]
        for i in range(1, len(parts) + 1):
            out.add('/'.join(parts[:i]))
    extra = set()
    for f in out:
        if f:
            extra |= {f.upper(), f + '/', f.replace('/', '\\'), f[:max(1, len(f) - 1)]}
    return out | extra


def _read(fs, file_or_name):
    with fs.open_bin(file_or_name) as f:
        return f.read()


def _diff_case(names):
    """names: tuple of file names; contents are derived from the name.  Returns None or the first disagreement."""
    files = {}
    for n in names:
        files.setdefault(n, ('data:' + n).encode())
    # later duplicates differing only in case replace earlier ones in every case-insensitive backend
    # For names that differ only in case the backends need not agree on *which* of them is kept (container order);
    # any of the candidates is accepted, but one backend must be consistent with itself.
    spec = {}
    for n, d in files.items():
        spec.setdefault(_spec_norm(n), (n, set()))[1].add(d)
    tmp = tempfile.mkdtemp(prefix='c19_')
    try:
        backends, raw, raw_files = _build(files, tmp)
        for bname, fs in backends.items():
            # lookups
            for n in files:
                for q in _spellings(n) | {n + 'x', 'zz/' + n}:
                    want = spec.get(_spec_norm(q))
                    exists = q in fs
                    if exists != (want is not None):
                        return f'{bname}: {q!r} in fs is {exists}, expected {want is not None}'
                    if want is not None:
                        got = _read(fs, q)
                        if got not in want[1]:
                            return f'{bname}: {q!r} reads {got!r}, expected {sorted(want[1])!r}'
                        if _read(fs, fs[q]) != got:
                            return f'{bname}: fs[{q!r}] handle reads other bytes'
            # walks
            for folder in _folders(files):
                fnorm = _spec_norm(folder).rstrip('/')
                want = {k for k in spec if not fnorm or k.startswith(fnorm + '/')}
                listed = list(fs.walk_folder(folder))
                got = {_spec_norm(f.path) for f in listed}
                if got != want:
                    return f'{bname}: walk_folder({folder!r}) lists {sorted(got)}, files inside are {sorted(want)}'
                if len(listed) != len(got):
                    return f'{bname}: walk_folder({folder!r}) lists a file twice'
                for f in listed:
                    if _read(fs, f) not in spec[_spec_norm(f.path)][1] or _read(fs, f.path) != _read(fs, f):
                        return f'{bname}: listed name {f.path!r} does not look up to that file'
            if {_spec_norm(f.path) for f in fs} != set(spec):
                return f'{bname}: iterating the filesystem lists {sorted(f.path for f in fs)}'
        # names that differ only in case: the in-memory and the zip backend are filled in the same order and both
        # enumerate their container in insertion order, so they must keep the same one of the candidates.  (A VPK
        # directory regroups its entries by extension and folder - 'a.txt' and 'A.TXT' live in different groups - so
        # "the later one" is not something the container preserves; for it any candidate is accepted, see above.)
        for key, (first, candidates) in spec.items():
            if len(candidates) > 1:
                picks = {bname: _read(fs, first) for bname, fs in backends.items() if bname in ('virtual', 'zip')}
                if len(set(picks.values())) > 1:
                    return f'backends disagree on {first!r} (names differing only in case): {picks}'
        # directory backend: exact-case names
        for n, d in raw_files.items():
            # (backslash spellings are host dependent for a real directory: not required here)
            if n not in raw or _read(raw, n) != d:
                return f'directory backend: {n!r} not found / other bytes'
        # a folder is not a file: its name does not "exist" in any backend (unless a file has that very name)
        for folder in {f.rstrip('/\\') for f in _folders(files) if f.strip('/\\')}:
            if _spec_norm(folder) in spec:
                continue
            for bname, fs in list(backends.items()) + [('directory', raw)]:
                if bname == 'directory' and not os.path.isdir(os.path.join(raw.path, folder.replace('\\', '/'))):
                    continue
                if not any(k.startswith(_spec_norm(folder) + '/') for k in spec):
                    continue        # (a truncated folder name: nothing is inside it)
                if folder in fs:
                    return f'{bname}: the folder name {folder!r} is reported to exist as a file'
        for folder in {f for f in _folders(raw_files) if (f == f.lower() or f in ('',)) and '\\' not in f}:
            if folder and not os.path.isdir(os.path.join(raw.path, folder.replace('\\', '/'))):
                continue
            fnorm = folder.replace('\\', '/').rstrip('/')
            want = {n for n in raw_files if not fnorm or n.startswith(fnorm + '/')}
            got = {f.path for f in raw.walk_folder(folder)}
            if got != want:
                return f'directory backend: walk_folder({folder!r}) lists {sorted(got)}, expected {sorted(want)}'
        return None
    finally:
        shutil.rmtree(tmp, ignore_errors=True)


def _job_diff(names):
    try:
        return _diff_case(names)
    except Exception as e:
        return f'{type(e).__name__}: {e}'


NAMES = ['a.txt', 'A.TXT', 'mat/b.txt', 'materials/c.txt', 'materials/sub/d.txt', 'Materials/E.txt', 'mat.txt',
         'materials.txt', 'models/m.mdl', 'mat/sub/f.txt', 'maps/Stra\xdfe.txt', '\ufb01les/\u017f.txt']


@bounded('C19.B-differential', bound='all file sets of 1..3 names (thorough: ..4) from 12 names (mixed case, nested '
         'folders, names and folders that are prefixes of others, case-only duplicates, two names whose casefold() is not their lower(): sets with those skip VPK, which refuses non-ASCII names), loaded into the in-memory, zip, '
         'VPK and directory backends; every spelling (case, slash kind) of every name; every folder prefix in several '
         'spellings incl. trailing slash and truncated names', rule='one case per file set; non-trivial when it has a '
         'nested folder or a prefix-related pair')
def b_differential(ctx):
    maxn = 4 if ctx.thorough else 3
    jobs = [c for n in range(1, maxn + 1) for c in itertools.combinations(NAMES, n)]
    for job, bad in ctx.pmap(_job_diff, jobs, batch=256, job_timeout=20.0):
        ctx.case(job, nontrivial=any('/' in n for n in job))
        if bad:
            which = bad.split(':')[0]
            kind = 'walk' if 'walk_folder' in bad or 'iterating' in bad else 'lookup'
            ctx.violation(f'backend={which}.{kind}', f'{bad}  [file set {list(job)}]', list(job))


b_differential.replay = lambda inp: (lambda r: {'failed': bool(r), 'observation': r})(_job_diff(tuple(inp)))


def _chain_case(spec):
    """spec: list of (member file names, prefix); checks priority, prefix-relative addressing and de-duplication."""
    from srctools.filesys import VirtualFileSystem, FileSystemChain
    members = []
    for k, (names, prefix) in enumerate(spec):
        members.append((VirtualFileSystem({n: f'{k}:{n}'.encode() for n in names}), prefix))
    chain = FileSystemChain(*[(m, p) if p else m for m, p in members])
    return _check_chain(chain, [(k, names, prefix) for k, (names, prefix) in enumerate(spec)], spec)


def _check_chain(chain, ordered, spec):
    """ordered: (member number, names, prefix) in the order a lookup must visit them."""
    # expected view: chain-relative name -> bytes of the first member that has it
    expected = {}
    for k, names, prefix in ordered:
        folder = prefix.replace('\\', '/').rstrip('/')       # 'hl2', 'hl2/' and 'HL2' name the same subfolder
        for n in names:
            if folder and not n.casefold().startswith(folder.casefold() + '/'):
                continue
            rel = n[len(folder) + 1:] if folder else n
            expected.setdefault(rel.casefold(), f'{k}:{n}'.encode())
    for rel, data in expected.items():
        if rel not in chain:
            return f'{rel!r} not found in chain {spec!r}'
        if _read(chain, rel) != data:
            return f'chain[{rel!r}] reads {_read(chain, rel)!r}, the first member holding it has {data!r}'
    listed = [f.path for f in chain.walk_folder('')]
    if sorted(p.casefold() for p in listed) != sorted(expected):
        return f'chain.walk_folder("") lists {sorted(listed)}, expected {sorted(expected)}'
    for f in chain.walk_folder(''):
        if _read(chain, f) != expected[f.path.casefold()]:
            return f'listed {f.path!r} reads other bytes than chain[{f.path!r}]'
    # sub-folders of the chain: names stay relative to the chain (not to the folder walked), also for prefixed members
    for d in sorted({rel.split('/')[0] for rel in expected if '/' in rel}):
        want = sorted(rel for rel in expected if rel.startswith(d + '/'))
        got = sorted(f.path.casefold() for f in chain.walk_folder(d))
        if got != want:
            return f'chain.walk_folder({d!r}) lists {got}, expected {want}'
    return None


def _chain_history_case(spec):
    """spec: (pool of (names, prefix), ops of (pool index, priority)): the chain is built by add_sys calls, members may be
    added again (with priority: they must then be searched first)."""
    from srctools.filesys import VirtualFileSystem, FileSystemChain
    pool, ops = spec
    members = [VirtualFileSystem({n: f'{k}:{n}'.encode() for n in names}) for k, (names, prefix) in enumerate(pool)]
    chain = FileSystemChain()
    order = []
    for idx, priority in ops:
        chain.add_sys(members[idx], pool[idx][1], priority=priority)
        if priority:
            order.insert(0, idx)
        else:
            order.append(idx)
    return _check_chain(chain, [(k, pool[k][0], pool[k][1]) for k in order], spec)


def _job_chain_history(spec):
    try:
        return _chain_history_case(spec)
    except Exception as e:
        return f'{type(e).__name__}: {e}'


def _job_chain(spec):
    try:
        return _chain_case(spec)
    except Exception as e:
        return f'{type(e).__name__}: {e}'


@bounded('C19.B-chains', bound='chains of 1..3 (thorough: ..4) in-memory members, each holding a subset of {x.txt, '
         'cfg/x.txt, hl2/cfg/x.txt, ep2/cfg/x.txt, sub/x.txt, CFG/X.TXT} with prefix "" / hl2 / hl2/ / hl2/cfg / ep2 / sub (+ two single-member chains with the prefix spelled HL2 and hl2\\cfg); all '
         'orders; chains built by add_sys histories over 2-3 of 4 members (every member added at least once, up to 1 (thorough '
         '2) re-additions, every priority flag combination; quick: an even sample of 4000)',
         rule='one case per chain; non-trivial when two members expose the same chain-relative name')
def b_chains(ctx):
    pool = [(('cfg/x.txt',), ''), (('hl2/cfg/x.txt', 'hl2/y.txt'), 'hl2'), (('ep2/cfg/x.txt',), 'ep2'),
            (('sub/x.txt', 'x.txt'), 'sub'), (('sub/x.txt', 'x.txt'), ''), (('CFG/X.TXT',), ''), (('hl2/cfg/x.txt',), ''),
            # the same subfolders spelled with a trailing slash / nested
            (('hl2/cfg/x.txt', 'hl2/y.txt'), 'hl2/'), (('hl2/cfg/x.txt', 'hl2/cfg/z.txt'), 'hl2/cfg')]
    maxn = 4 if ctx.thorough else 3
    jobs = [tuple(p) for n in range(1, maxn + 1) for p in itertools.permutations(pool, n)]
    # a member's prefix spelled in another case / with the other slash than the names it holds (lookups accept it)
    jobs += [((('hl2/cfg/x.txt', 'hl2/y.txt'), 'HL2'),), ((('hl2/cfg/x.txt', 'hl2/cfg/z.txt'), 'hl2\\cfg'),)]
    hjobs = []
    for job, bad in ctx.pmap(_job_chain, jobs, batch=1024):
        ctx.case(job, nontrivial=len(job) > 1)
        if bad:
            ctx.violation('chain=' + '|'.join(f'{p or "-"}:{",".join(n)}' for n, p in job)[:150], bad,
                          [[list(n), p] for n, p in job])


    hpool = (pool[0], pool[5], pool[1], pool[6])        # cfg/x.txt | CFG/X.TXT | hl2:hl2/cfg/x.txt | hl2/cfg/x.txt
    for npool in (2, 3):
        for members in itertools.permutations(range(len(hpool)), npool):
            sub = tuple(hpool[i] for i in members)
            for nops in range(npool, npool + (3 if ctx.thorough else 2)):
                for idxs in itertools.product(range(npool), repeat=nops):
                    if set(idxs) != set(range(npool)):
                        continue
                    for prios in itertools.product((False, True), repeat=nops):
                        hjobs.append((sub, tuple(zip(idxs, prios))))
    if not ctx.thorough:
        hjobs = hjobs[::max(1, len(hjobs) // 4000)]
    for job, bad in ctx.pmap(_job_chain_history, hjobs, batch=1024):
        ctx.case(('history', job), nontrivial=len(job[1]) > len(job[0]))
        if bad:
            ctx.violation('chain_history=' + ','.join(f'{i}{"!" if p else ""}' for i, p in job[1])[:150], bad,
                          ['history', [[list(n), p] for n, p in job[0]], [list(o) for o in job[1]]])


def _replay_chain(inp):
    if inp and inp[0] == 'history':
        r = _job_chain_history((tuple((tuple(n), p) for n, p in inp[1]), tuple((i, bool(p)) for i, p in inp[2])))
    else:
        r = _job_chain(tuple((tuple(n), p) for n, p in inp))
    return {'failed': bool(r), 'observation': r}


b_chains.replay = _replay_chain
BOUNDED = [b_differential, b_chains]


def _witness(model=None, obligation=None):
    for names in (('mat/b.txt', 'materials/c.txt'), ('a.txt',), ('Materials/E.txt', 'materials/c.txt')):
        bad = _job_diff(names)
        if bad:
            return {'failed': True, 'file_set': list(names), 'observation': bad}
    return {'failed': False}


for _c in PROOFS:
    _c.replay_fn = _witness


MUTATIONS = [
    dict(name='add_sys_skips_present_member', file='filesys.py',
         old="        if priority:\n            self.systems.insert(0, (sys, prefix))",
         new="        if (sys, prefix) in self.systems:\n            return\n        if priority:\n            self.systems.insert(0, (sys, prefix))",
         expect='FileSystemChain.add_sys'),
    dict(name='add_sys_priority_appends', file='filesys.py', old="            self.systems.insert(0, (sys, prefix))",
         new="            self.systems.insert(1, (sys, prefix))", expect='FileSystemChain.add_sys'),
    dict(name='virtual_clean_path_lower', file='filesys.py',
         old="        return os.path.normpath(path).replace('\\\\', '/').casefold()",
         new="        return os.path.normpath(path).replace('\\\\', '/').lower()", expect='backend=virtual'),
    dict(name='zip_get_skips_casefold', file='filesys.py',
         old="        name = name.replace('\\\\', '/')\n        try:\n            info = self._name_to_info[name.casefold()]\n        except KeyError:\n            raise FileNotFoundError(f'{self.path}:{name}') from None\n        return File(self, name, info)",
         new="        name = name.replace('\\\\', '/')\n        try:\n            info = self._name_to_info[name]\n        except KeyError:\n            raise FileNotFoundError(f'{self.path}:{name}') from None\n        return File(self, name, info)",
         expect='ZipFileSystem._get_file'),
    dict(name='chain_reversed', file='filesys.py',
         old="        for sys, prefix in self.systems:\n            full_name = os.path.join(prefix, name).replace('\\\\', '/')",
         new="        for sys, prefix in reversed(self.systems):\n            full_name = os.path.join(prefix, name).replace('\\\\', '/')",
         expect='FileSystemChain._get_file'),
    dict(name='chain_dedup_unfolded', file='filesys.py', old="            folded = file.path.casefold()\n", new="            folded = file.path\n",
         expect='chain='),
    dict(name='zip_walk_bare_prefix', file='filesys.py',
         old="        prefix = folder + '/' if folder else ''  # Whole path components only: 'mat' is not inside 'materials'.",
         new="        prefix = folder", expect='backend=zip.walk'),
    dict(name='vpk_exists_no_slash', file='filesys.py',
         old="        return name.casefold().replace('\\\\', '/') in self._name_to_file", new="        return name.casefold() in self._name_to_file",
         expect='VPKFileSystem._file_exists'),
    dict(name='virtual_exists_skips_clean_path', file='filesys.py',
         old="        return self._clean_path(name) in self._mapping",
         new="        return name.replace('\\\\', '/').casefold() in self._mapping",
         expect='VirtualFileSystem._file_exists'),
    dict(name='virtual_get_looks_up_raw_name', file='filesys.py',
         old="        try:\n            filename, data = self._mapping[self._clean_path(name)]\n        except KeyError:\n            raise FileNotFoundError(name) from None\n        return File(self, filename, filename)",
         new="        try:\n            filename, data = self._mapping[name.casefold()]\n        except KeyError:\n            raise FileNotFoundError(name) from None\n        return File(self, filename, filename)",
         expect='VirtualFileSystem._get_file'),
    dict(name='virtual_get_names_the_request_not_the_entry', file='filesys.py',
         old="            raise FileNotFoundError(name) from None\n        return File(self, filename, filename)",
         new="            raise FileNotFoundError(name) from None\n        return File(self, name, name)",
         expect='VirtualFileSystem._get_file'),
    dict(name='virtual_open_bin_keys_by_folded_request', file='filesys.py',
         old="            filename, data = self._mapping[self._clean_path(name)]\n        except KeyError:\n            raise FileNotFoundError(name) from None\n        if isinstance(data, str):\n            data = data.encode",
         new="            filename, data = self._mapping[name.casefold()]\n        except KeyError:\n            raise FileNotFoundError(name) from None\n        if isinstance(data, str):\n            data = data.encode",
         expect='virtual.open_bin'),
    dict(name='virtual_init_keys_without_normpath', file='filesys.py',
         old="            self._clean_path(filename): (filename, data)",
         new="            filename.replace('\\\\', '/').casefold(): (filename, data)",
         expect='virtual.init'),
    dict(name='vpk_walk_bare_prefix', file='filesys.py',
         old="        for name, file in self._name_to_file.items():\n            if name.startswith(prefix):",
         new="        for name, file in self._name_to_file.items():\n            if name.startswith(folder):",
         expect='VPKFileSystem.walk_folder.one_entry'),
    dict(name='vpk_walk_folder_not_folded', file='filesys.py',
         old="        folder = folder.replace('\\\\', '/').casefold().rstrip('/')\n        prefix = folder + '/' if folder else ''  # Whole path components only, compared case-insensitively.",
         new="        folder = folder.replace('\\\\', '/').rstrip('/')\n        prefix = folder + '/' if folder else ''  # Whole path components only, compared case-insensitively.",
         expect='VPKFileSystem.walk_folder.one_entry'),
    dict(name='zip_walk_lists_bak_files_twice', file='filesys.py',
         old="            if filename.startswith(prefix):\n                yield File(self, fileinfo.filename, fileinfo)",
         new="            if filename.startswith(prefix):\n                yield File(self, fileinfo.filename, fileinfo)\n                if filename.endswith('.bak'):\n                    yield File(self, fileinfo.filename, fileinfo)",
         expect='ZipFileSystem.walk_folder.one_entry'),
    dict(name='virtual_walk_bare_prefix', file='filesys.py',
         old="        prefix = self._clean_path(folder).rstrip('/') + '/' if folder.strip",
         new="        prefix = self._clean_path(folder).rstrip('/') if folder.strip",
         expect='VirtualFileSystem.walk_folder.one_entry'),
    dict(name='virtual_walk_dot_is_a_folder', file='filesys.py',
         old="if folder.strip('/\\\\') not in ('', '.') else ''",
         new="if folder.strip('/\\\\') != '' else ''",
         expect='VirtualFileSystem.walk_folder.one_entry'),
    dict(name='virtual_walk_matches_the_stored_spelling', file='filesys.py',
         old="            if clean_name.startswith(prefix):",
         new="            if filename.startswith(prefix):",
         expect='VirtualFileSystem.walk_folder.one_entry'),
    dict(name='chain_dedup_checks_the_raw_spelling', file='filesys.py',
         old="            if folded in done:\n                continue\n            done.add(folded)",
         new="            if file.path in done:\n                continue\n            done.add(folded)",
         expect='FileSystemChain.walk_folder.one_file'),
    dict(name='chain_dedup_records_only_nested_names', file='filesys.py',
         old="            if folded in done:\n                continue\n            done.add(folded)",
         new="            if folded in done:\n                continue\n            if '/' in folded:\n                done.add(folded)",
         expect='FileSystemChain.walk_folder.one_file'),
    dict(name='chain_repeat_keeps_the_member_name', file='filesys.py',
         old="                    os.path.relpath(file.path, prefix).replace('\\\\', '/'),\n                    file,",
         new="                    file.path.replace('\\\\', '/'),\n                    file,",
         expect='FileSystemChain.walk_folder_repeat.one_file'),
    dict(name='chain_repeat_relative_to_the_folder', file='filesys.py',
         old="                    os.path.relpath(file.path, prefix).replace('\\\\', '/'),\n                    file,",
         new="                    os.path.relpath(file.path, full_folder).replace('\\\\', '/'),\n                    file,",
         expect='FileSystemChain.walk_folder_repeat.one_file'),
]
HARMLESS = [
    dict(name='chain_dedup_else_branch', file='filesys.py',
         old="            if folded in done:\n                continue\n            done.add(folded)\n            yield file",
         new="            if folded not in done:\n                done.add(folded)\n                yield file"),
    dict(name='vpk_walk_prefix_renamed', file='filesys.py',
         old="        prefix = folder + '/' if folder else ''  # Whole path components only, compared case-insensitively.\n        for name, file in self._name_to_file.items():\n            if name.startswith(prefix):",
         new="        start = folder + '/' if folder else ''\n        for name, file in self._name_to_file.items():\n            if name.startswith(start):"),
    dict(name='virtual_exists_key_in_a_local', file='filesys.py',
         old="        return self._clean_path(name) in self._mapping",
         new="        key = self._clean_path(name)\n        return key in self._mapping"),
    dict(name='add_sys_moves_a_present_member_instead_of_listing_it_twice', file='filesys.py',
         old="        if priority:\n            self.systems.insert(0, (sys, prefix))",
         new="        if priority:\n            if (sys, prefix) in self.systems:\n                self.systems.remove((sys, prefix))\n            self.systems.insert(0, (sys, prefix))"),
    dict(name='zip_exists_reordered', file='filesys.py',
         old="        return name.replace('\\\\', '/').casefold() in self._name_to_info",
         new="        key = name.replace('\\\\', '/')\n        return key.casefold() in self._name_to_info"),
]
