"""C18 -- a constrained directory filesystem never reaches outside its root.

Proof tier: RawFileSystem._resolve_path executed symbolically (abspath/join uninterpreted): whatever the input
string, the returned path q satisfies inside(q, root) := q == root or q starts with root + separator, or
RootEscapeError is raised; every file-system primitive in RawFileSystem takes its path from _resolve_path (AST);
__init__ stores an absolute, normalised root.
Bounded tier: real directory tree with a sibling whose name extends the root's; chained filesystems with subfolder
prefixes; packlist.unify_path.
"""
import ast
import itertools
import os
import shutil
import tempfile

import z3

from pyvc import extract, smt
from pyvc.driver import bounded
from pyvc.symexec import Builtin, ModuleVal, Obj, UninterpFn, to_z3
from pyvc.vc import Contract, Registry, native

REG = Registry()
PROP = 'C18'
LEVEL = 'proof'
M = 'filesys'
EXPLANATION = ('_resolve_path is proved to return only paths that are the root itself or lie below root + separator '
               '(for every input string; abspath and join uninterpreted, so no path arithmetic is assumed), and to '
               'raise RootEscapeError otherwise; all os/open primitives of RawFileSystem are shown to receive the result '
               'of _resolve_path; the root is stored as os.path.abspath(path). The property for lookups, existence '
               'tests, opens and walks follows. Chains with subfolder prefixes and unify_path are bounded stand-ins.')
TRUSTED = ['os.path.abspath returns a normalised absolute path without a trailing separator (except the file-system '
           'root): the containment predicate on such paths means "located inside the root directory"',
           'symbolic links are outside the property (it speaks of paths)']
UNVERIFIED = ['Windows path semantics (drive letters, case-insensitive comparison)', 'packlist.unify_path (bounded only)']

ABS = UninterpFn('abspath', z3.StringSort(), z3.StringSort())
JOIN = UninterpFn('join', z3.StringSort(), z3.StringSort(), z3.StringSort())


def _path_model(I, name, *args):
    if name == 'join' and len(args) == 2:
        return JOIN.decl(to_z3(args[0]), to_z3(args[1]))
    if name == 'abspath':
        return ABS.decl(to_z3(args[0]))
    from pyvc.symexec import Unsupported
    raise Unsupported(f'os.path.{name} in _resolve_path')


class _OsPath:
    pass


def _os_model(I):
    """`os` as seen by _resolve_path: os.path.join / abspath uninterpreted, os.sep the POSIX separator."""
    def attr(I_, name):
        from pyvc.symexec import _MISSING
        if name == 'path':
            return ModuleVal('os.path!model')
        if name == 'sep':
            return '/'
        return _MISSING
    return attr


def _ospath_model(I):
    def attr(I_, name):
        from pyvc.symexec import _MISSING
        if name in ('join', 'abspath'):
            return Builtin('os.path.' + name, lambda *a, _n=name: _path_model(I_, _n, *a))
        if name == 'sep':
            return '/'
        return _MISSING
    return attr


resolve = REG.add(Contract(f'{M}:RawFileSystem._resolve_path', PROP, inline=('RootEscapeError.__init__',)))
resolve.raises('RootEscapeError')


@resolve.setup
def _(h):
    I = h.I
    I.module_models = {'os': _os_model(I), 'os.path!model': _ospath_model(I)}
    root = h.str('root')
    # the stored root is an absolute normalised path: non-empty, no trailing separator unless it is '/' itself
    h.assume(z3.And(z3.Length(root) >= 1, z3.PrefixOf(z3.StringVal('/'), root),
                    z3.Or(root == z3.StringVal('/'), z3.Not(z3.SuffixOf(z3.StringVal('/'), root)))))
    fs = Obj('RawFileSystem', dict(path=root, constrain_path=True), module=M)
    return {'args': [fs, h.str('path')]}


@native
def inside(I, q, root):
    """q is the root or located below it."""
    q, root = to_z3(q), to_z3(root)
    below = z3.If(root == z3.StringVal('/'), z3.PrefixOf(z3.StringVal('/'), q),
                  z3.PrefixOf(z3.Concat(root, z3.StringVal('/')), q))
    return z3.Or(q == root, below)


@native
def resolved(I, root, path):
    return ABS.decl(JOIN.decl(to_z3(root), to_z3(path)))


@resolve.ensures
def result_is_inside_the_root(self, result):
    return inside(result, self.path)


@resolve.ensures
def result_is_the_resolved_path(self, path, result):
    return result == resolved(self.path, path)


@resolve.on_raise('RootEscapeError')
def raised_only_for_paths_outside(self, path):
    return not inside(resolved(self.path, path), self.path)


unconstrained = REG.add(Contract(f'{M}:RawFileSystem._resolve_path', PROP, name='RawFileSystem._resolve_path[unconstrained]',
                                 modular=False))


@unconstrained.setup
def _(h):
    I = h.I
    I.module_models = {'os': _os_model(I), 'os.path!model': _ospath_model(I)}
    fs = Obj('RawFileSystem', dict(path=h.str('root'), constrain_path=False), module=M)
    return {'args': [fs, h.str('path')]}


unconstrained.ensures(result_is_the_resolved_path)
PROOFS = [resolve, unconstrained]


# ------------------------------------------------------------------------------------------------ callers (AST)
def _res(name, ok, line=0, note='', replay=None):
    r = smt.Result(name, 'proved' if ok else 'refuted', 'ast-effects', 0.0, {}, line, 0, note)
    r.replay_fn = replay or _witness
    return r


FS_PRIMITIVES = {'open', 'os.walk', 'os.path.isfile', 'os.path.exists', 'os.path.isdir', 'os.stat', 'os.path.getmtime',
                 'os.listdir', 'os.scandir', 'os.lstat', 'os.path.getsize'}


def static_callers(repo):
    mod = extract.load(M)
    cls = mod.classdef('RawFileSystem')
    out = []
    n = 0
    for fn in [f for f in cls.body if isinstance(f, ast.FunctionDef)]:
        resolved_names = set()
        for node in ast.walk(fn):
            if isinstance(node, ast.Assign) and len(node.targets) == 1 and isinstance(node.targets[0], ast.Name) \
                    and _is_resolve_call(node.value):
                resolved_names.add(node.targets[0].id)
        for node in ast.walk(fn):
            if isinstance(node, ast.Call) and ast.unparse(node.func) in FS_PRIMITIVES and node.args:
                n += 1
                arg = node.args[0]
                ok = _is_resolve_call(arg) or (isinstance(arg, ast.Name) and arg.id in resolved_names)
                out.append(_res(f'callers.{fn.name}.{ast.unparse(node.func)}_uses_resolved_path@{node.lineno}', ok,
                                node.lineno, ast.unparse(node)[:90]))
    out.append(_res('callers.primitives_found', n >= 5, 0, f'{n} file-system primitive calls in RawFileSystem'))
    init = [f for f in cls.body if isinstance(f, ast.FunctionDef) and f.name == '__init__'][0]
    ok = any(isinstance(nd, ast.Call) and ast.unparse(nd.func) == 'super().__init__' and nd.args
             and isinstance(nd.args[0], ast.Call) and ast.unparse(nd.args[0].func) == 'os.path.abspath'
             for nd in ast.walk(init))
    out.append(_res('init.root_is_abspath', ok, init.lineno))
    # nothing else in the class assigns self.path
    stores = [nd for f in cls.body if isinstance(f, ast.FunctionDef) for nd in ast.walk(f)
              if isinstance(nd, ast.Attribute) and nd.attr == 'path' and isinstance(nd.ctx, ast.Store)]
    out.append(_res('init.root_never_reassigned', not stores, stores[0].lineno if stores else 0))
    # the per-call contract of _resolve_path carries over to its callers only if each call really runs the body: a
    # memoising decorator keyed on the filesystem (FileSystem.__eq__/__hash__ look at the root path alone, not at
    # constrain_path) would let an unconstrained twin answer for a constrained one
    deco = [(f, d) for f in cls.body if isinstance(f, ast.FunctionDef) for d in f.decorator_list]
    def touches_files(f):
        return any(isinstance(nd, ast.Call) and (_is_resolve_call(nd) or ast.unparse(nd.func) in FS_PRIMITIVES
                                                  or ast.unparse(nd.func).startswith('self.'))
                   for nd in ast.walk(f))
    memo = [(f, d) for f, d in deco if any(w in ast.unparse(d) for w in ('cache', 'memo')) and touches_files(f)]
    deco = [(f, d) for f, d in deco if touches_files(f)]
    plain = all(ast.unparse(d).split('(')[0] in ('property', 'staticmethod', 'classmethod', 'override', 'deprecated',
                                                 'overload', 'abstractmethod') for f, d in deco)
    out.append(smt.shape('callers.no_memoised_lookup_shared_between_filesystems', plain, bool(memo),
                         memo[0][0].lineno if memo else 0,
                         'decorators on RawFileSystem methods: ' + ', '.join(sorted({ast.unparse(d) for _, d in deco})) if deco
                         else 'no decorators on RawFileSystem methods', backend='ast-effects'))
    return out


def _is_resolve_call(e):
    return isinstance(e, ast.Call) and ast.unparse(e.func) == 'self._resolve_path'


STATIC = [static_callers]


# ------------------------------------------------------------------------------------------------ bounded tree
def _make_tree():
    base = tempfile.mkdtemp(prefix='c18_')
    root = os.path.join(base, 'root')
    for d in ('root/sub', 'rootx', 'root/rootx', 'other'):
        os.makedirs(os.path.join(base, d))
    # 'root/..\\top.txt' is one file *inside* the root whose name contains backslashes (legal on POSIX): looked up
    # with '\\' separators it is found, and its handle then carries the name '../top.txt'
    files = ['root/in.txt', 'root/sub/deep.txt', 'rootx/sib.txt', 'root/rootx/ok.txt', 'other/o.txt', 'top.txt',
             'root/..\\top.txt']
    for rel in files:
        with open(os.path.join(base, rel), 'w') as f:
            f.write(os.path.join(base, rel))     # a file's content is its own real path
    return base, root


def _inside(real, root):
    return real == root or real.startswith(root + os.sep)


COMPONENTS = ['..', '.', 'sub', 'root', 'rootx', 'in.txt', 'sib.txt', 'deep.txt', 'ok.txt', 'other', 'o.txt', 'top.txt']


def _probe(fs_factory, root, path, allowed=None):
    """All lookups of one path on one filesystem; returns a description of an escape or None."""
    from srctools.filesys import RootEscapeError
    fs = fs_factory()
    outcomes = []
    for what in ('open_str', 'getitem', 'contains', 'open_bin', 'walk'):
        try:
            if what == 'open_str':
                with fs.open_str(path) as f:
                    data = f.read()
            elif what == 'open_bin':
                with fs.open_bin(path) as f:
                    data = f.read().decode()
            elif what == 'getitem':
                with fs[path].open_str() as f:
                    data = f.read()
            elif what == 'contains':
                data = None
                if path in fs:
                    with fs[path].open_str() as f:
                        data = f.read()
            else:
                data = None
                for file in fs.walk_folder(path):
                    if allowed is not None and file.path.replace('\\', '/') not in allowed:
                        return (f'walk_folder({path!r}) yields {file.path!r}, which is not the name of any file located '
                                f'inside the root')
                    try:
                        with file.open_str() as f:
                            got = f.read()
                    except (RootEscapeError, OSError):
                        continue        # a listed name that cannot be opened serves no data; keep checking the rest
                    if not _inside(got, root):
                        return f'walk_folder({path!r}) yields {file.path!r} whose content is {got!r}'
        except (RootEscapeError, FileNotFoundError, IsADirectoryError, NotADirectoryError, PermissionError):
            continue
        except OSError:
            continue
        if data is not None and not _inside(data, root):
            return f'{what}({path!r}) returned the content of {data!r}, outside {root!r}'
    return None


def _job_paths(job):
    kind, parts, sep, prefix = job
    from srctools.filesys import RawFileSystem, FileSystemChain
    base, root = _make_tree()
    try:
        path = sep.join(parts)
        if prefix == 'abs_base':
            path = base + sep + path
        elif prefix == 'abs_root':
            path = root + sep + path
        elif prefix == 'slash':
            path = sep + path
        if kind == 'raw':
            factory = lambda: RawFileSystem(root)
        elif kind == 'raw_trailing':
            factory = lambda: RawFileSystem(root + os.sep)
        elif kind == 'chain':
            factory = lambda: FileSystemChain(RawFileSystem(root))
        elif kind == 'chain_up':          # a member whose subfolder prefix itself leaves the root
            factory = lambda: FileSystemChain((RawFileSystem(root), '..'))
        elif kind == 'chain_sibling':
            factory = lambda: FileSystemChain((RawFileSystem(root), '../rootx'))
        else:
            factory = lambda: FileSystemChain((RawFileSystem(root), 'sub'))
        # the names a walk may yield: those of the files really located below the root (relative to the walked
        # member's folder - a chain over the subfolder 'sub' may be asked for '..', which is still inside the root),
        # found independently with os.walk
        top = os.path.normpath(os.path.join(root, {'chain_sub': 'sub', 'chain_up': '..', 'chain_sibling': '../rootx'}.get(kind, '')))
        # an unconstrained filesystem on the same folder asks first: nothing it learnt may be served by the constrained one
        twin = RawFileSystem(root, constrain_path=False)
        for q in (path, os.path.join({'chain_sub': 'sub', 'chain_up': '..', 'chain_sibling': '../rootx'}.get(kind, ''), path)):
            try:
                twin[q]
                q in twin
            except Exception:
                pass
        allowed = set()
        for dirpath, _dirs, fnames in os.walk(root):
            for fn in fnames:
                allowed.add(os.path.relpath(os.path.join(dirpath, fn), top).replace('\\', '/'))
        if kind in ('chain_up', 'chain_sibling'):
            # the chain names walked files relative to its prefix with os.path.relpath, which for a prefix outside the
            # member is not meaningful (it depends on the working directory); the files are still inside the root, and
            # that - what is served, checked through the content - is what the property is about
            allowed = None
        bad = _probe(factory, root, path, allowed)
        return bad
    finally:
        shutil.rmtree(base, ignore_errors=True)


@bounded('C18.B-paths', bound='real tree with root/, root/sub/, sibling rootx/, root/rootx/, other/ and a file above the '
         'root; all paths of <= 3 components (thorough: <= 4) over 12 names incl. "..", ".", root, rootx; both '
         'separators; relative, absolute (root / parent) and leading-separator forms; roots with and without trailing '
         'separator; plain, chained and subfolder-chained filesystems (subfolder sub, and the escaping prefixes .. and ../rootx); open_str/open_bin/[]/in/walk_folder (content of '
         'everything opened, and every name a walk yields, must belong to a file located inside the root)',
         rule='one case per (filesystem kind, path); non-trivial when the path contains ".." or an absolute prefix')
def b_paths(ctx):
    maxlen = 4 if ctx.thorough else 3
    jobs = []
    for n in range(1, maxlen + 1):
        for parts in itertools.product(COMPONENTS, repeat=n):
            if n >= 3 and '..' not in parts:
                continue
            for sep in ('/', '\\'):
                for prefix in ('', 'abs_base', 'abs_root', 'slash'):
                    if prefix and n > 2:
                        continue
                    for kind in ('raw', 'chain_sub') if n == 3 else ('raw', 'raw_trailing', 'chain', 'chain_sub', 'chain_up',
                                                                     'chain_sibling'):
                        jobs.append((kind, parts, sep, prefix))
    if not ctx.thorough:
        keep = [j for j in jobs if len(j[1]) <= 2]
        rest = [j for j in jobs if len(j[1]) > 2]
        jobs = keep + ctx.rng.sample(rest, min(len(rest), 6000))
    for job, bad in ctx.pmap(_job_paths, jobs, batch=2048):
        ctx.case(job, nontrivial='..' in job[1] or bool(job[3]))
        if bad:
            ctx.violation(f'path={job[0]}:{job[3]}:{job[2].join(job[1])}', bad, list(job))


b_paths.replay = lambda inp: (lambda r: {'failed': bool(r), 'observation': r})(
    _job_paths((inp[0], tuple(inp[1]), inp[2], inp[3])))


def _unify(path):
    from srctools.packlist import unify_path
    try:
        r = unify_path(path)
    except ValueError:
        return None
    comps = r.replace('\\', '/').split('/')
    if '..' in comps:
        return f'unify_path({path!r}) = {r!r} still contains a ".." component'
    if r.startswith('/'):
        return f'unify_path({path!r}) = {r!r} is absolute'
    return None


@bounded('C18.B-unify', bound='all paths of <= 4 components over {.., ., a, B, ""} with / and \\ separators, with and '
         'without a leading separator', rule='one case per path; non-trivial when it contains ".."')
def b_unify(ctx):
    for n in range(1, 5):
        for parts in itertools.product(['..', '.', 'a', 'B', ''], repeat=n):
            for sep in ('/', '\\'):
                for lead in ('', sep):
                    p = lead + sep.join(parts)
                    ctx.case(p, nontrivial='..' in parts)
                    bad = _unify(p)
                    if bad:
                        ctx.violation('unify=' + p.replace('\\', '|'), bad, [p])


b_unify.replay = lambda inp: (lambda r: {'failed': bool(r), 'observation': r})(_unify(inp[0]))
BOUNDED = [b_paths, b_unify]


def _witness(model=None, obligation=None):
    for kind in ('raw', 'raw_trailing', 'chain', 'chain_sub'):
        for parts, sep, prefix in ((('..', 'rootx', 'sib.txt'), '/', ''), (('..', 'top.txt'), '/', ''),
                                   (('rootx', 'sib.txt'), '/', 'abs_base'), (('top.txt',), '/', 'abs_base'),
                                   (('..', 'rootx'), '/', ''), (('..', '..', 'rootx', 'sib.txt'), '/', ''),
                                   (('..\\rootx\\sib.txt',), '/', ''), (('sub', '..', '..', 'rootx', 'sib.txt'), '\\', '')):
            bad = _job_paths((kind, parts, sep, prefix))
            if bad:
                return {'failed': True, 'filesystem': kind, 'path': sep.join(parts), 'prefix': prefix, 'observation': bad}
    return {'failed': False}


for _c in PROOFS:
    _c.replay_fn = _witness


MUTATIONS = [
    dict(name='get_file_memoised_across_filesystems', file='filesys.py',
         old="    def _get_file(self, name: str) -> File[Self]:\n        if os.path.isfile(self._resolve_path(name)):",
         new="    @__import__('functools').lru_cache(maxsize=4096)\n    def _get_file(self, name: str) -> File[Self]:\n        if os.path.isfile(self._resolve_path(name)):",
         expect='callers.no_memoised_lookup_shared_between_filesystems'),
    dict(name='prefix_test_only', file='filesys.py',
         old="            root = self.path if self.path.endswith(os.sep) else self.path + os.sep\n            if not abs_path.startswith(root):",
         new="            root = self.path\n            if not abs_path.startswith(root):", expect='_resolve_path'),
    dict(name='check_before_abspath', file='filesys.py',
         old="        abs_path = os.path.abspath(os.path.join(self.path, path))\n        if self.constrain_path and abs_path != self.path:",
         new="        abs_path = os.path.join(self.path, path)\n        if self.constrain_path and abs_path != self.path:", expect='_resolve_path'),
    dict(name='constrain_inverted', file='filesys.py',
         old="        if self.constrain_path and abs_path != self.path:", new="        if not self.constrain_path and abs_path != self.path:",
         expect='_resolve_path'),
    dict(name='open_bypasses_resolve', file='filesys.py',
         old="        return open(self._resolve_path(name), mode='rb')", new="        return open(os.path.join(self.path, name), mode='rb')",
         expect='callers.open_bin'),
    dict(name='unify_checks_prefix_only', file='packlist.py',
         old="    if path == '..' or path.startswith('../'):", new="    if path.startswith('../'):", expect='unify'),
]
HARMLESS = [
    dict(name='resolve_rename', file='filesys.py',
         old="        abs_path = os.path.abspath(os.path.join(self.path, path))\n        if self.constrain_path and abs_path != self.path:",
         new="        joined = os.path.join(self.path, path)\n        abs_path = os.path.abspath(joined)\n        if self.constrain_path and abs_path != self.path:"),
]
