"""Shared helpers for C14: element-graph generator, canonical form, round trips (bounded tier; run natively)."""
import io
import math
import random
import struct
import uuid as uuidlib


def f32(x: float) -> float:
    return struct.unpack('<f', struct.pack('<f', x))[0]


SAFE_CHARS = 'abcXYZ019 _-./:;<>()[]{}!?#$%&*+=@^~|,\'`'
ESC_CHARS = '"\\\n\t'
UNI_CHARS = 'é✓λ ß日本\U0001f600'


def gen_text(rng: random.Random, unicode: bool, maxlen: int = 6) -> str:
    n = rng.choice([0, 1, 1, 2, 3, maxlen])
    pool = SAFE_CHARS + ESC_CHARS * 3 + (UNI_CHARS * 2 if unicode else '')
    return ''.join(rng.choice(pool) for _ in range(n))


def gen_float(rng: random.Random) -> float:
    k = rng.randrange(8)
    if k == 0:
        return 0.0
    if k == 1:
        return float(rng.randint(-1000, 1000))
    if k == 2:
        return f32(rng.uniform(-1, 1))
    if k == 3:
        return f32(rng.uniform(-1e6, 1e6))
    if k == 4:
        return rng.choice([0.5, -0.5, 0.25, 1.5, -2.75, 1024.125, -16384.0, 0.000001, -0.000001, 123456.5])
    if k == 5:
        return round(rng.uniform(-100, 100), rng.randrange(0, 6))
    if k == 6:
        return f32(rng.uniform(-1e-3, 1e-3))
    return f32(rng.uniform(-360, 360))


def gen_value(rng: random.Random, vt, dmx, unicode: bool):
    """A value of the given ValueType whose components are representable in the binary wire type."""
    from srctools.math import FrozenAngle, FrozenMatrix, FrozenVec, Matrix
    V = dmx.ValueType
    if vt is V.INT:
        return rng.choice([0, 1, -1, 2 ** 31 - 1, -2 ** 31, rng.randint(-10 ** 6, 10 ** 6)])
    if vt is V.FLOAT:
        return f32(gen_float(rng))
    if vt is V.BOOL:
        return rng.random() < 0.5
    if vt is V.STRING:
        return gen_text(rng, unicode)
    if vt is V.BINARY:
        return bytes(rng.randrange(256) for _ in range(rng.choice([0, 1, 2, 5, 17])))
    if vt is V.TIME:
        ticks = rng.choice([0, 1, -1, 5, -5, 605000, -605000, 2 ** 31 - 1, -2 ** 31, rng.randint(-10 ** 7, 10 ** 7),
                            rng.randint(-2 ** 31, 2 ** 31 - 1)])
        return dmx.Time(ticks / 10000.0)
    if vt is V.COLOR:
        return dmx.Color(*[rng.choice([0, 255, rng.randrange(256)]) for _ in range(4)])
    if vt is V.VEC2:
        return dmx.Vec2(f32(gen_float(rng)), f32(gen_float(rng)))
    if vt is V.VEC3:
        return FrozenVec(f32(gen_float(rng)), f32(gen_float(rng)), f32(gen_float(rng)))
    if vt is V.VEC4:
        return dmx.Vec4(*[f32(gen_float(rng)) for _ in range(4)])
    if vt is V.ANGLE:
        return FrozenAngle(*[f32(rng.choice([0.0, 90.0, 45.5, rng.uniform(0, 359.9)])) for _ in range(3)])
    if vt is V.QUATERNION:
        return dmx.Quaternion(*[f32(gen_float(rng)) for _ in range(4)])
    if vt is V.MATRIX:
        m = Matrix()
        for i in range(3):
            for j in range(3):
                m[i, j] = f32(rng.choice([0.0, 1.0, -1.0, rng.uniform(-2, 2)]))
        return m.freeze()
    raise AssertionError(vt)


def gen_graph(rng: random.Random, dmx, *, unicode=False, time_ok=True, size=None, names_escape=True):
    """A random element graph: shared children, self references, mutual cycles, stubs, NULLs, every value type as a
    scalar and as an array (including empty arrays)."""
    V = dmx.ValueType
    n = size if size is not None else rng.choice([1, 1, 2, 3, 4, 6])
    elems = [dmx.Element(gen_text(rng, unicode) if names_escape else f'e{i}',
                         rng.choice(['DmElement', 'DmeThing', gen_text(rng, False) or 'T']) if names_escape else 'DmElement')
             for i in range(n)]
    stubs = [dmx.StubElement.stub(uuidlib.UUID(int=rng.getrandbits(128))) for _ in range(rng.choice([0, 0, 1, 2]))]
    types = [t for t in V if time_ok or t is not V.TIME]

    def ref():
        k = rng.random()
        if k < 0.12:
            return dmx.NULL
        if k < 0.25 and stubs:
            return rng.choice(stubs)
        return rng.choice(elems)
    used_names = set()
    for i, e in enumerate(elems):
        for _ in range(rng.choice([0, 1, 2, 3, 5])):
            nm = gen_text(rng, unicode, 4) if names_escape else f'k{rng.randrange(50)}'
            if nm.casefold() in ('name', '') or (i, nm.casefold()) in used_names:
                continue
            if nm == 'id':
                continue
            used_names.add((i, nm.casefold()))
            vt = rng.choice(types)
            is_arr = rng.random() < 0.4
            if vt is V.ELEMENT:
                val = [ref() for _ in range(rng.choice([0, 1, 2, 3]))] if is_arr else ref()
            else:
                val = [gen_value(rng, vt, dmx, unicode) for _ in range(rng.choice([0, 1, 2, 3]))] if is_arr \
                    else gen_value(rng, vt, dmx, unicode)
            e[nm] = dmx.Attribute(nm, vt, val)
    # elements whose optional `name` attribute was removed (it then reads as '')
    for e in elems:
        if rng.random() < 0.15:
            del e['name']
    # make everything reachable from the root: link unreachable elements from a reachable one
    reach = set()

    def walk(e):
        if id(e) in reach or isinstance(e, dmx.StubElement):
            return
        reach.add(id(e))
        for a in e.values():
            if a.type is V.ELEMENT:
                for c in a.iter_elem():
                    walk(c)
    walk(elems[0])
    for i, e in enumerate(elems[1:], 1):
        if id(e) not in reach:
            host = rng.choice([x for x in elems if id(x) in reach])
            nm = f'link{i}'
            if rng.random() < 0.5:
                host[nm] = dmx.Attribute(nm, V.ELEMENT, e)
            else:
                host[nm] = dmx.Attribute(nm, V.ELEMENT, [e] + ([rng.choice(elems)] if rng.random() < 0.5 else []))
            walk(e)
    return elems[0]


def _val_key(vt, v, approx=False):
    """Comparable form of one value (floats stay floats; `same` compares them exactly or to 6 decimals)."""
    name = vt.name
    if name == 'TIME':
        return float(v.value)
    if name in ('VEC2', 'VEC3', 'VEC4', 'QUATERNION'):
        return tuple(float(c) for c in v)
    if name == 'ANGLE':
        return (float(v.pitch), float(v.yaw), float(v.roll))
    if name == 'MATRIX':
        return tuple(float(v[i, j]) for i in range(3) for j in range(3))
    if name == 'COLOR':
        return (v.r, v.g, v.b, v.a)
    if name == 'BOOL':
        return bool(v)
    return v


def same(a, b, tol):
    """Structural equality; floats equal exactly (tol=0, and of the same sign of zero not required) or within tol."""
    if isinstance(a, float) and isinstance(b, float):
        if a == b or (math.isnan(a) and math.isnan(b)):
            return True
        return abs(a - b) <= tol
    if isinstance(a, (list, tuple)) and isinstance(b, (list, tuple)):
        return type(a) is type(b) and len(a) == len(b) and all(same(x, y, tol) for x, y in zip(a, b))
    return type(a) is type(b) and a == b


def canon(root, dmx, approx=False, with_uuid=True):
    """Canonical form of the graph reachable from root: nodes in discovery order, references as node numbers."""
    V = dmx.ValueType
    ids = {}
    nodes = []

    def ref(e):
        if e.is_null:
            return ('NULL',)
        if e.is_stub:
            return ('STUB', str(e.uuid))
        if id(e) not in ids:
            visit(e)
        return ('REF', ids[id(e)])

    def visit(e):
        ids[id(e)] = len(ids)
        node = {'type': e.type, 'name': e.name, 'uuid': str(e.uuid) if with_uuid else '', 'attrs': []}
        nodes.append(node)
        for a in e.values():
            if a.name == 'name' and a is e._members.get('name'):
                continue
            if a.type is V.ELEMENT:
                v = [ref(c) for c in a._value] if a.is_array else ref(a._value)
            elif a.is_array:
                v = [_val_key(a.type, x, approx) for x in a._value]
            else:
                v = _val_key(a.type, a._value, approx)
            node['attrs'].append((a.name, a.type.name, a.is_array, v))
    visit(root)
    return nodes


def diff(a, b, tol=0.0):
    """First difference between two canonical forms (tol: allowed absolute error of float components)."""
    if len(a) != len(b):
        return f'{len(a)} elements became {len(b)}'
    for i, (x, y) in enumerate(zip(a, b)):
        for k in ('type', 'name', 'uuid'):
            if x[k] != y[k]:
                return f'element #{i}: {k} {x[k]!r} became {y[k]!r}'
        if len(x['attrs']) != len(y['attrs']):
            return f'element #{i}: attributes {[t[0] for t in x["attrs"]]} became {[t[0] for t in y["attrs"]]}'
        for p, q in zip(x['attrs'], y['attrs']):
            if not same(p, q, tol):
                return f'element #{i}: attribute {p!r} became {q!r}'
    return None


def rt_binary(root, dmx, version, unicode):
    buf = io.BytesIO()
    root.export_binary(buf, version, unicode=unicode)
    buf.seek(0)
    res, _, _ = dmx.Element.parse(buf, unicode=(unicode == 'silent'))
    return res


def rt_kv2(root, dmx, flat, cull, unicode):
    buf = io.BytesIO()
    root.export_kv2(buf, flat=flat, cull_uuid=cull, unicode=unicode)
    buf.seek(0)
    res, _, _ = dmx.Element.parse(buf, unicode=(unicode == 'silent'))
    return res


def describe(root, dmx):
    return canon(root, dmx)
