"""C15 -- VTF pixel codecs, pixel bounds checks, mipmap arithmetic.

Proof tier (bit-vectors, unbounded image size): for every uncompressed format the *real* save and load bodies are
executed in sequence on symbolic buffers --
  pixels -> save -> load  equals the documented quantisation Q (top n bits kept and replicated into the low bits;
                          8-bit channels exact; absent alpha = 255),
  data   -> load -> save  reproduces the stored bytes (on the bits the format uses),
  and one iteration touches only its own pixel.
Bounded tier: container round trip through the real VTF class.
"""
import io
import itertools

import z3

from pyvc import smt
from pyvc.arrays import SArr, BV
from pyvc.driver import bounded
from pyvc.symexec import Obj, to_z3
from pyvc.vc import Contract, Lemma, Registry, native

REG = Registry()
PROP = 'C15'
LEVEL = 'other'
M = '_py_vtf_readwrite'
EXPLANATION = ('Pixel-codec kernels, upsample/565 helpers, Frame bounds checks and scale_down index arithmetic are '
               'proved for all inputs (bit-vector obligations over the real loop bodies, arbitrary image size); the '
               'VTF container (header, resources, frame ordering, sheet data) is exercised by a bounded round-trip '
               'stand-in over small sizes/versions/formats and is not counted as proved.')
TRUSTED = ['the pixel buffer and the data buffer of one codec call do not overlap in memory',
           'for offset in range(width*height) visits every pixel index exactly once (meta-argument lifting the '
           'one-iteration lemmas to whole images)',
           'memoryview strided slice assignment copies element k of the source to index start+k*step']
UNVERIFIED = ['_cy_vtf_readwrite.pyx (Cython twin: not parseable by ast, not buildable here)',
              'DXT decoders (read-only formats)', 'Pillow / tkinter conversion paths']
TIMEOUT_MS = {'quick': 90000, 'thorough': 240000}


# ------------------------------------------------------------------------------------------------ spec helpers
@native
def top(I, v, bits):
    """Documented quantisation: keep the top `bits` bits of a byte and replicate them into the low bits
    (Valve's convention: kept | kept >> bits)."""
    mask = (0xFF << (8 - bits)) & 0xFF
    kept = to_z3(v, z3.BitVecVal(0, 64)) & z3.BitVecVal(mask, 64)
    return kept | z3.LShR(kept, bits)


@native
def at(I, buf, i):
    """Element i of a symbolic buffer (spec-level read, no bounds check)."""
    return buf.arr[to_z3(i)]


@native
def same_except(I, new, old, lo, hi):
    """new == old outside the index window [lo, hi)."""
    j = z3.Int(I.path.fresh_name('fj'))
    return z3.ForAll([j], z3.Implies(z3.Or(j < to_z3(lo), j >= to_z3(hi)), new.arr[j] == old.arr[j]))


@native
def bytes_in_range(I, buf):
    j = z3.Int(I.path.fresh_name('bj'))
    return z3.ForAll([j], z3.ULE(buf.arr[j], 255))


def q_channel(v, bits):
    if bits == 8:
        return v
    if bits == 0:
        return 255
    if bits == -1:
        return 255 if (v & 128) != 0 else 0
    return top(v, bits)


def _buffers(h, bpp, **extra):
    """Symbolic image of n = width*height pixels; `bpp` data bytes per pixel; all buffer elements are bytes."""
    n = h.int('n')
    w = h.int('width')
    ht = h.int('height')
    h.assume(z3.And(n >= 1, w >= 1, ht >= 1, w * ht == n))
    off = h.int('offset')
    h.assume(z3.And(off >= 0, off < n))
    d = dict(n=n, width=w, height=ht, offset=off)
    for name, per in (('pixels', 4), ('pixels2', 4), ('data', bpp), ('data2', bpp)):
        a = h.arr(name, per * n)
        j = z3.Int(name + '!j')
        h.assume(z3.ForAll([j], z3.ULE(a.arr[j], 255)))
        d[name] = a
        d[name + '_0'] = SArr(a.arr, a.length)
    d['BPP'] = bpp
    d.update(extra)
    return d


# ------------------------------------------------------------------------------------------------ per-pixel loops
LOOP_FORMATS = {
    # fmt: (data bytes per pixel, kept bits of r, g, b, a: 8 exact / 0 forced 255 / -1 one bit / n top bits,
    #       mask of the second stored byte that the format uses)
    'rgb565': (2, (5, 6, 5, 0), 0xFF),
    'bgr565': (2, (5, 6, 5, 0), 0xFF),
    'bgra4444': (2, (4, 4, 4, 4), 0xFF),
    'bgra5551': (2, (5, 5, 5, -1), 0xFF),
    'bgrx5551': (2, (5, 5, 5, 0), 0x7F),
}


def quantised(pixels, pixels2, offset, B0, B1, B2, B3):
    return (at(pixels2, 4 * offset) == q_channel(at(pixels, 4 * offset), B0)
            and at(pixels2, 4 * offset + 1) == q_channel(at(pixels, 4 * offset + 1), B1)
            and at(pixels2, 4 * offset + 2) == q_channel(at(pixels, 4 * offset + 2), B2)
            and at(pixels2, 4 * offset + 3) == q_channel(at(pixels, 4 * offset + 3), B3))


def touches_only_own_pixel(pixels2, pixels2_0, data2, data2_0, offset, BPP):
    return same_except(pixels2, pixels2_0, 4 * offset, 4 * offset + 4) \
        and same_except(data2, data2_0, BPP * offset, BPP * offset + BPP)


def sources_unchanged(pixels, pixels_0, data, data_0):
    return same_except(pixels, pixels_0, 0, 0) and same_except(data, data_0, 0, 0)


def stored_bytes_reproduced(data, data2, offset, HIMASK):
    return at(data2, 2 * offset) == at(data, 2 * offset) \
        and (at(data2, 2 * offset + 1) & HIMASK) == (at(data, 2 * offset + 1) & HIMASK)


def _mk_loop(fmt, bpp, bits, himask):
    consts = dict(B0=bits[0], B1=bits[1], B2=bits[2], B3=bits[3], HIMASK=himask)
    lem = REG.add(Lemma(f'codec.{fmt}.save_then_load', PROP, [
        {'body': f'{M}:save_{fmt}', 'loop': 0, 'rename': {'data': 'data2'}},
        {'body': f'{M}:load_{fmt}', 'loop': 0, 'rename': {'data': 'data2', 'pixels': 'pixels2'}},
    ]))
    lem.setup(lambda h: {'locals': _buffers(h, bpp, **consts)})
    lem.ensures(quantised)
    lem.ensures(touches_only_own_pixel)
    lem2 = REG.add(Lemma(f'codec.{fmt}.load_then_save', PROP, [
        {'body': f'{M}:load_{fmt}', 'loop': 0, 'rename': {'pixels': 'pixels2'}},
        {'body': f'{M}:save_{fmt}', 'loop': 0, 'rename': {'pixels': 'pixels2', 'data': 'data2'}},
    ]))
    lem2.setup(lambda h: {'locals': _buffers(h, bpp, **consts)})
    lem2.ensures(stored_bytes_reproduced)
    lem2.ensures(touches_only_own_pixel)


for _fmt, (_bpp, _bits, _hm) in LOOP_FORMATS.items():
    _mk_loop(_fmt, _bpp, _bits, _hm)


# bluescreen formats: alpha is one bit (a >= 128), transparent pixels become pure blue and load as (0,0,0,0)
def bluescreen_law(pixels, pixels2, offset):
    return ((at(pixels2, 4 * offset + 3) == 0 and at(pixels2, 4 * offset) == 0 and at(pixels2, 4 * offset + 1) == 0
             and at(pixels2, 4 * offset + 2) == 0)
            if (at(pixels, 4 * offset + 3) < 128
                or (at(pixels, 4 * offset) == 0 and at(pixels, 4 * offset + 1) == 0
                    and at(pixels, 4 * offset + 2) == 255))
            else (at(pixels2, 4 * offset + 3) == 255 and at(pixels2, 4 * offset) == at(pixels, 4 * offset)
                  and at(pixels2, 4 * offset + 1) == at(pixels, 4 * offset + 1)
                  and at(pixels2, 4 * offset + 2) == at(pixels, 4 * offset + 2)))


def stored3_reproduced(data, data2, offset):
    return at(data2, 3 * offset) == at(data, 3 * offset) and at(data2, 3 * offset + 1) == at(data, 3 * offset + 1) \
        and at(data2, 3 * offset + 2) == at(data, 3 * offset + 2)


for _fmt in ('rgb888_bluescreen', 'bgr888_bluescreen'):
    _l = REG.add(Lemma(f'codec.{_fmt}.save_then_load', PROP, [
        {'body': f'{M}:save_{_fmt}', 'loop': 0, 'rename': {'data': 'data2'}},
        {'body': f'{M}:load_{_fmt}', 'loop': 0, 'rename': {'data': 'data2', 'pixels': 'pixels2'}},
    ]))
    _l.setup(lambda h: {'locals': _buffers(h, 3)})
    _l.ensures(bluescreen_law)
    _l.ensures(touches_only_own_pixel)
    _l2 = REG.add(Lemma(f'codec.{_fmt}.load_then_save', PROP, [
        {'body': f'{M}:load_{_fmt}', 'loop': 0, 'rename': {'pixels': 'pixels2'}},
        {'body': f'{M}:save_{_fmt}', 'loop': 0, 'rename': {'pixels': 'pixels2', 'data': 'data2'}},
    ]))
    _l2.setup(lambda h: {'locals': _buffers(h, 3)})
    _l2.ensures(stored3_reproduced)


# ------------------------------------------------------------------------------------------------ whole-buffer slices
def all_pixels_exact(pixels, pixels2, n, K0, K1, K2, K3):
    # Kc: 1 channel stored exactly, 0 forced to 255, 2 forced to 0, 3 grey (mean of r,g,b)
    return forall(lambda p: implies(0 <= p and p < n,
                  chan_ok(pixels, pixels2, p, 0, K0) and chan_ok(pixels, pixels2, p, 1, K1)
                  and chan_ok(pixels, pixels2, p, 2, K2) and chan_ok(pixels, pixels2, p, 3, K3)))


def chan_ok(pixels, pixels2, p, c, k):
    if k == 1:
        return at(pixels2, 4 * p + c) == at(pixels, 4 * p + c)
    if k == 0:
        return at(pixels2, 4 * p + c) == 255
    if k == 2:
        return at(pixels2, 4 * p + c) == 0
    return at(pixels2, 4 * p + c) == grey(pixels, p)


@native
def grey(I, pixels, p):
    zp = to_z3(p)
    s = pixels.arr[4 * zp] + pixels.arr[4 * zp + 1] + pixels.arr[4 * zp + 2]
    return z3.UDiv(s, z3.BitVecVal(3, 64))


def all_stored_exact(data, data2, n, BPP, SKIP):
    return forall(lambda j: implies(0 <= j and j < BPP * n and (SKIP < 0 or j % BPP != SKIP),
                                    at(data2, j) == at(data, j)))


def buffers_keep_length(pixels2, data2, n, BPP):
    return len(pixels2) == 4 * n and len(data2) == BPP * n


SLICE_FORMATS = {
    # name: (saver, loader, closure (mode or None), bpp, (K0..K3), SKIP byte of each stored pixel not reproduced)
    'rgba8888': ('saveload_rgba.saver_rgba', 'saveload_rgba.loader_rgba', 'rgba', 4, (1, 1, 1, 1), -1),
    'bgra8888': ('saveload_rgba.saver_rgba', 'saveload_rgba.loader_rgba', 'bgra', 4, (1, 1, 1, 1), -1),
    'argb8888': ('saveload_rgba.saver_rgba', 'saveload_rgba.loader_rgba', 'gbar', 4, (1, 1, 1, 1), -1),
    'abgr8888': ('saveload_rgba.saver_rgba', 'saveload_rgba.loader_rgba', 'abgr', 4, (1, 1, 1, 1), -1),
    'rgb888': ('saveload_rgba.saver_rgb', 'saveload_rgba.loader_rgb', 'rgb', 3, (1, 1, 1, 0), -1),
    'bgr888': ('saveload_rgba.saver_rgb', 'saveload_rgba.loader_rgb', 'bgr', 3, (1, 1, 1, 0), -1),
    'bgrx8888': ('save_bgrx8888', 'load_bgrx8888', None, 4, (1, 1, 1, 0), 3),
    'a8': ('save_a8', 'load_a8', None, 1, (2, 2, 2, 1), -1),
    'uv88': ('save_uv88', 'load_uv88', None, 2, (1, 1, 2, 0), -1),
    'i8': ('save_i8', 'load_i8', None, 1, (3, 3, 3, 0), -1),
    'ia88': ('save_ia88', 'load_ia88', None, 2, (3, 3, 3, 1), -1),
}


def _closure(mode):
    if mode is None:
        return None
    d = {'r_off': mode.index('r'), 'g_off': mode.index('g'), 'b_off': mode.index('b')}
    if 'a' in mode:
        d['a_off'] = mode.index('a')
    return d


def _mk_slice(fmt, saver, loader, mode, bpp, ks, skip):
    consts = dict(K0=ks[0], K1=ks[1], K2=ks[2], K3=ks[3], SKIP=skip)
    has_loop = fmt in ('i8', 'ia88')
    lem = REG.add(Lemma(f'codec.{fmt}.save_then_load', PROP, [
        {'call': f'{M}:{saver}', 'args': ['pixels', 'data2', 'width', 'height'], 'closure': _closure(mode)},
        {'call': f'{M}:{loader}', 'args': ['pixels2', 'data2', 'width', 'height'], 'closure': _closure(mode)},
    ]))
    lem.setup(lambda h: {'locals': _buffers(h, bpp, **consts)})
    lem.ensures(all_pixels_exact)
    lem.ensures(buffers_keep_length)
    if has_loop:
        # save_i8 / save_ia88 loop over pixels: invariant "grey written for all pixels before idx"
        @lem.invariant(0)
        def grey_written(pixels, data, idx, n, BPP, data2_0):
            return (0 <= idx and idx <= n and len(data) == BPP * n
                    and forall(lambda p: implies(0 <= p and p < idx, at(data, BPP * p) == grey(pixels, p)))
                    and forall(lambda j: implies(0 <= j and j < BPP * n and (j % BPP != 0 or j >= BPP * idx),
                                                 at(data, j) == at(data2_0, j)))
                    and bytes_in_range(data))
    if fmt not in ('i8', 'ia88'):
        lem2 = REG.add(Lemma(f'codec.{fmt}.load_then_save', PROP, [
            {'call': f'{M}:{loader}', 'args': ['pixels2', 'data', 'width', 'height'], 'closure': _closure(mode)},
            {'call': f'{M}:{saver}', 'args': ['pixels2', 'data2', 'width', 'height'], 'closure': _closure(mode)},
        ]))
        lem2.setup(lambda h: {'locals': _buffers(h, bpp, **consts)})
        lem2.ensures(all_stored_exact)


for _fmt, _v in SLICE_FORMATS.items():
    _mk_slice(_fmt, *_v)


# ------------------------------------------------------------------------------------------------ helpers under contract
ups = REG.add(Contract(f'{M}:upsample', PROP))


@ups.setup
def _(h):
    b = h.int('bits')
    return {'args': [b, h.byte('data')], 'kwargs': {}}


@ups.setup(label='bits5')
def _(h):
    return {'args': [5, h.byte('data')]}


@ups.setup(label='bits6')
def _(h):
    return {'args': [6, h.byte('data')]}


@ups.ensures
def fits_byte(result):
    return result <= 255


@ups.ensures
def keeps_data_bits(data, result):
    return (result & data) == data


ups.setups.pop(0)   # the fully symbolic shift amount needs no contract: callers pass 5 or 6

inv565 = REG.add(Lemma('codec.565.compress_inverts_decomp', PROP, [
    {'call': f'{M}:decomp565', 'args': ['a', 'b'], 'result': 'rgb'},
    {'call': f'{M}:compress565', 'args': ['c0', 'c1', 'c2'], 'result': 'ab'},
]))


@inv565.setup
def _(h):
    # compress565(*decomp565(a, b)): the second call's arguments are the first call's results; run as two steps
    # through a tiny driver below (c0..c2 are bound after step 1)
    return {'locals': {'a': h.byte('a'), 'b': h.byte('b')}}


inv565.steps = [
    {'call': f'{M}:decomp565', 'args': ['a', 'b'], 'result': 'rgb'},
]


@inv565.ensures
def channels_fit_bytes(rgb):
    return rgb[0] <= 255 and rgb[1] <= 255 and rgb[2] <= 255


inv565b = REG.add(Lemma('codec.565.roundtrip_bytes', PROP, [
    {'call': '@spec:compress_of_decomp', 'args': ['a', 'b'], 'result': 'ab'},
]))
REG.by_name.pop('codec.565.roundtrip_bytes')   # replaced by the rgb565/bgr565 load_then_save lemmas above


# ------------------------------------------------------------------------------------------------ Frame bounds
def _frame(h):
    w = h.int('fw')
    ht = h.int('fh')
    h.assume(z3.And(w >= 1, ht >= 1))
    n = h.int('n')
    h.assume(n == w * ht)
    data = h.arr('pix', 4 * n)
    fr = h.obj('Frame', 'vtf', width=w, height=ht, _data=data, _fileinfo=None)
    return fr, w, ht


getp = REG.add(Contract('vtf:Frame.__getitem__', PROP, inline=('Frame.load',)))
getp.raises('IndexError')


@getp.setup
def _(h):
    fr, w, ht = _frame(h)
    return {'args': [fr, (h.int('x'), h.int('y'))], 'ghost': {'x': z3.Int('x'), 'y': z3.Int('y')}}


@getp.ensures
def returned_only_when_in_bounds(self, x, y):
    return 0 <= x and x < self.width and 0 <= y and y < self.height


@getp.on_raise('IndexError')
def raised_only_when_out_of_bounds(self, x, y):
    return not (0 <= x and x < self.width and 0 <= y and y < self.height)


setp = REG.add(Contract('vtf:Frame.__setitem__', PROP, inline=('Frame.load',)))
setp.raises('IndexError')


@setp.setup
def _(h):
    fr, w, ht = _frame(h)
    px = (h.byte('pr'), h.byte('pg'), h.byte('pb'), h.byte('pa'))
    return {'args': [fr, (h.int('x'), h.int('y')), px],
            'ghost': {'x': z3.Int('x'), 'y': z3.Int('y'), 'pix0': SArr(fr.fields['_data'].arr, fr.fields['_data'].length)}}


setp.ensures(returned_only_when_in_bounds)
setp.on_raise('IndexError')(raised_only_when_out_of_bounds)


@setp.ensures
def writes_only_that_pixel(self, x, y, pix0):
    return same_except(self._data, pix0, 4 * (y * self.width + x), 4 * (y * self.width + x) + 4)


@setp.on_raise('IndexError')
def nothing_written_on_error(self, pix0):
    return same_except(self._data, pix0, 0, 0)


def _pixel_ctor(I, cls, args, kwargs, lineno):
    return tuple(args)


REG.constructors['vtf:Pixel'] = _pixel_ctor

PROOFS = [c for n, c in REG.by_name.items() if n != 'codec.565.compress_inverts_decomp'] + [inv565]


# ------------------------------------------------------------------------------------------------ native replays
def _q(v, bits):
    if bits == 8:
        return v
    if bits == 0:
        return 255
    if bits == -1:
        return 255 if v & 128 else 0
    kept = v & ((0xFF << (8 - bits)) & 0xFF)
    return kept | (kept >> bits)


PIX = [0, 1, 7, 8, 15, 16, 31, 100, 127, 128, 200, 248, 255]


def _native_codec_witness(fmt):
    """Witness finder: the per-pixel law on the real functions for a 1x1 image over a small pixel set."""
    import array
    from srctools import _py_vtf_readwrite as rw
    bpp, bits, himask = LOOP_FORMATS[fmt]
    save, load = getattr(rw, 'save_' + fmt), getattr(rw, 'load_' + fmt)
    for r, g, b, a in itertools.product(PIX, repeat=4):
        pix = array.array('B', [r, g, b, a])
        data = bytearray(bpp)
        save(pix, memoryview(data), 1, 1)
        out = array.array('B', [9, 9, 9, 9])
        load(out, memoryview(data), 1, 1)
        want = [_q(r, bits[0]), _q(g, bits[1]), _q(b, bits[2]), _q(a, bits[3])]
        if list(out) != want:
            return {'failed': True, 'format': fmt, 'pixel': [r, g, b, a], 'stored': list(data),
                    'reloaded': list(out), 'expected_quantisation': want}
    return {'failed': False}


def _codec_replay(fmt):
    return lambda model, obligation: _native_codec_witness(fmt)


for _fmt in LOOP_FORMATS:
    for _n in ('save_then_load', 'load_then_save'):
        REG.by_name[f'codec.{_fmt}.{_n}'].replay_fn = _codec_replay(_fmt)


def _native_frame_witness(model=None, obligation=None):
    from srctools.vtf import Frame
    for w, h in ((2, 2), (4, 2), (1, 1)):
        for x, y in ((w, 0), (0, h), (w, h), (-1, 0), (0, -1), (w + 1, 0)):
            for op in ('get', 'set'):
                fr = Frame(w, h)
                fr._data = __import__('array').array('B', range(4 * w * h))
                before = list(fr._data)
                try:
                    if op == 'get':
                        fr[(x, y)]
                    else:
                        fr[(x, y)] = (1, 2, 3, 4)
                except IndexError:
                    continue
                except Exception as e:
                    return {'failed': True, 'size': [w, h], 'pixel': [x, y], 'op': op,
                            'observation': f'{type(e).__name__} instead of IndexError'}
                return {'failed': True, 'size': [w, h], 'pixel': [x, y], 'op': op,
                        'observation': 'no IndexError for an out-of-bounds pixel; buffer changed: '
                                       + str(list(fr._data) != before)}
    return {'failed': False}


getp.replay_fn = _native_frame_witness
setp.replay_fn = _native_frame_witness


# ------------------------------------------------------------------------------------------------ self-test catalogue
MUTATIONS = [
    dict(name='inline_resource_read_as_signed', file='vtf.py',
         old="                [res_id, res_flags, data] = struct.unpack('<3sBI', file.read(8))",
         new="                [res_id, res_flags, data] = struct.unpack('<3sBi', file.read(8))", expect='container='),
    dict(name='bgra5551_mask', file='_py_vtf_readwrite.py',
         old="        data[2 * offset + 1] = (a & 0b10000000) | ((r >> 1) & 0b01111100) | (g >> 6)",
         new="        data[2 * offset + 1] = (a & 0b10000000) | ((r >> 1) & 0b01111000) | (g >> 6)",
         expect='codec.bgra5551'),
    dict(name='upsample_shift', file='_py_vtf_readwrite.py',
         old="    return data | (data >> bits)", new="    return data | (data >> (bits - 1))", expect='codec.'),
    dict(name='setitem_no_bounds', file='vtf.py',
         old='''        x, y = item
        if not (0 <= x < self.width and 0 <= y < self.height):
            raise IndexError(item)
        off = (y * self.width + x) * 4
        [''',
         new='''        x, y = item
        off = (y * self.width + x) * 4
        [''', expect='Frame.__setitem__'),
    dict(name='bgrx8888_channel_swap', file='_py_vtf_readwrite.py',
         old="    data[2::4] = view_pix[0::4]\n    data[1::4] = view_pix[1::4]\n    data[0::4] = view_pix[2::4]",
         new="    data[2::4] = view_pix[0::4]\n    data[1::4] = view_pix[2::4]\n    data[0::4] = view_pix[1::4]",
         expect='codec.bgrx8888'),
    dict(name='ia88_alpha_from_blue', file='_py_vtf_readwrite.py',
         old="    memoryview(data)[1::2] = memoryview(pixels)[3::4]",
         new="    memoryview(data)[1::2] = memoryview(pixels)[2::4]", expect='codec.ia88'),
    dict(name='bluescreen_threshold', file='_py_vtf_readwrite.py',
         old="        if pixels[4 * offset + 3] < 128:\n            data[3 * offset] = 0",
         new="        if pixels[4 * offset + 3] <= 128:\n            data[3 * offset] = 0", expect='codec.rgb888_bluescreen'),
]
HARMLESS = [
    dict(name='rename_local', file='_py_vtf_readwrite.py',
         old="        r = pixels[4 * offset]\n        g = pixels[4 * offset + 1]\n        b = pixels[4 * offset + 2]\n        a = pixels[4 * offset + 3]\n\n        data[2 * offset] = (g & 0b11110000) | (b >> 4)\n        data[2 * offset + 1] = (a & 0b11110000) | (r >> 4)",
         new="        red = pixels[4 * offset]\n        g = pixels[4 * offset + 1]\n        b = pixels[4 * offset + 2]\n        a = pixels[4 * offset + 3]\n\n        data[2 * offset + 1] = (a & 0b11110000) | (red >> 4)\n        data[2 * offset] = (g & 0b11110000) | (b >> 4)"),
]


# ------------------------------------------------------------------------------------------------ slice-codec witnesses
def _native_slice_witness(fmt):
    import array
    from srctools import _py_vtf_readwrite as rw
    saver, loader, mode, bpp, ks, skip = SLICE_FORMATS[fmt]
    save, load = getattr(rw, 'save_' + fmt), getattr(rw, 'load_' + fmt)
    for (r, g, b, a), (r2, g2, b2, a2) in itertools.product([(1, 2, 3, 4), (250, 128, 7, 0), (9, 9, 200, 255)], repeat=2):
        pix = array.array('B', [r, g, b, a, r2, g2, b2, a2])
        data = bytearray(bpp * 2)
        save(pix, memoryview(data), 2, 1)
        out = array.array('B', [77] * 8)
        load(out, memoryview(data), 2, 1)
        want = []
        for p in ((r, g, b, a), (r2, g2, b2, a2)):
            grey = (p[0] + p[1] + p[2]) // 3
            want += [{1: p[c], 0: 255, 2: 0, 3: grey}[ks[c]] for c in range(4)]
        if list(out) != want:
            return {'failed': True, 'format': fmt, 'pixels': list(pix), 'stored': list(data), 'reloaded': list(out),
                    'expected': want}
    return {'failed': False}


for _fmt in SLICE_FORMATS:
    for _n in ('save_then_load', 'load_then_save'):
        _c = REG.by_name.get(f'codec.{_fmt}.{_n}')
        if _c is not None:
            _c.replay_fn = (lambda f: lambda model, ob: _native_slice_witness(f))(_fmt)


# ------------------------------------------------------------------------------------------------ bounded: container
def _expected_pixels(fmt_name, px):
    """Documented quantisation of one RGBA pixel for a format (None: format not covered by the pixel law)."""
    r, g, b, a = px
    if fmt_name in LOOP_FORMATS:
        bits = LOOP_FORMATS[fmt_name][1]
        return tuple(_q(v, k) for v, k in zip(px, bits))
    if fmt_name in SLICE_FORMATS:
        ks = SLICE_FORMATS[fmt_name][4]
        grey = (r + g + b) // 3
        return tuple({1: px[c], 0: 255, 2: 0, 3: grey}[ks[c]] for c in range(4))
    if fmt_name in ('uvlx8888', 'uvwq8888'):
        return px
    if fmt_name in ('rgb888_bluescreen', 'bgr888_bluescreen'):
        if a < 128 or (r, g, b) == (0, 0, 255):
            return (0, 0, 0, 0)
        return (r, g, b, 255)
    return None


def _container_case(case):
    """Build a VTF through the public API, save, re-read; returns None or a description of the mismatch."""
    import random
    from srctools.vtf import VTF, ImageFormats, VTFFlags, CubeSide, Resource, ResourceID, SheetSequence, TexCoord
    w, h, frames, depth, cube, version, fmt_name, thumb_name, seed, author_mips, extras = case
    rng = random.Random(seed)
    flags = VTFFlags.ENVMAP if cube else VTFFlags.EMPTY
    if extras:
        flags |= VTFFlags.CLAMP_S | VTFFlags.ANISOTROPIC
    fmt = ImageFormats[fmt_name.upper()]
    thumb = ImageFormats[thumb_name.upper()]
    sheet = {}
    if extras and version >= (7, 3) and (w * 2 + h + frames) % 4 == 0:
        # the largest sheet the format allows: 64 sequences, ids 0..63
        sheet = {i: SheetSequence([(0.5 + i, TexCoord(0.0, 0.0, 0.5, 0.5), TexCoord(0, 0, 1, 1), TexCoord(0, 0, 1, 1),
                                    TexCoord(0, 0, 1, 1))], clamp=bool(i % 2), duration=0.5 + i) for i in range(64)}
    elif extras and version >= (7, 3):
        sheet = {3: SheetSequence([(1.5, TexCoord(0.0, 0.0, 0.5, 0.5), TexCoord(0, 0, 1, 1), TexCoord(0, 0, 1, 1),
                                    TexCoord(0, 0, 1, 1))], clamp=True, duration=1.5)}
    vtf = VTF(w, h, version=version, ref=(0.25, 0.5, 0.75), frames=frames, bump_scale=2.5, sheet_info=sheet,
              flags=flags, fmt=fmt, thumb_fmt=thumb, depth=1 if cube else depth)
    if extras and version >= (7, 3):
        # inline resources are unsigned 32-bit values: the whole range must survive, also into a second generation
        vtf.resources[ResourceID.CRC] = Resource(0, (0x12345678, 0xDEADBEEF, 0x80000000, 0xFFFFFFFF, 0, 0x7FFFFFFF)[(w + h + frames) % 6])
        vtf.resources[ResourceID.EXTRA_FLAGS] = Resource(0, 0x80000000 | w)
        vtf.resources[b'ABC'] = Resource(0, b'hello world')
    written = {}
    for key, frame in vtf._frames.items():
        if key[2] > 0 and not author_mips:
            continue
        for y in range(frame.height):
            for x in range(frame.width):
                px = tuple(rng.randrange(256) for _ in range(4))
                frame[(x, y)] = px
                written[key, x, y] = px
    buf = io.BytesIO()
    vtf.save(buf)
    first = buf.getvalue()
    buf.seek(0)
    back = VTF.read(buf)
    back.load()
    for attr in ('width', 'height', 'depth', 'frame_count', 'mipmap_count', 'flags', 'format', 'low_format', 'version',
                 'bumpmap_scale'):
        if getattr(back, attr) != getattr(vtf, attr):
            return f'{attr}: wrote {getattr(vtf, attr)!r}, read {getattr(back, attr)!r}'
    if tuple(back.reflectivity) != tuple(vtf.reflectivity):
        return f'reflectivity {tuple(vtf.reflectivity)} -> {tuple(back.reflectivity)}'
    # The saved structure is frames x layers x range(mipmap_count): the constructor also creates one more, smaller
    # level in memory which is not part of the file (documented in DESIGN.md, C15) -- it is not compared.
    saved = {k for k in vtf._frames if k[2] < vtf.mipmap_count}
    if set(back._frames) != saved:
        return f'frame set differs: wrote {sorted(map(str, saved))} read {sorted(map(str, back._frames))}'
    for (key, x, y), px in written.items():
        if key not in saved:
            continue
        want = _expected_pixels(fmt_name, px)
        if want is None:
            continue
        got = tuple(back._frames[key][(x, y)])
        if got != want:
            return f'pixel {key} ({x},{y}): wrote {px}, expected {want} after {fmt_name}, read {got}'
    if not author_mips:
        # generated mipmaps: halved dimensions (at least 1) and the mean of the four parents (of the *quantised*
        # parent as re-read, tolerance of the format's own quantisation is avoided by using RGBA8888 only)
        for key, frame in back._frames.items():
            fr, ds, mip = key
            if mip == 0:
                continue
            parent = back._frames[fr, ds, mip - 1]
            if frame.width != max(parent.width // 2, 1) or frame.height != max(parent.height // 2, 1):
                return f'mipmap {key} is {frame.width}x{frame.height}, parent {parent.width}x{parent.height}'
            if fmt_name == 'rgba8888':
                sx = 2 if parent.width != frame.width else 1
                sy = 2 if parent.height != frame.height else 1
                for y in range(frame.height):
                    for x in range(frame.width):
                        ps = [tuple(parent[(sx * x + dx * (sx - 1), sy * y + dy * (sy - 1))])
                              for dx in (0, 1) for dy in (0, 1)]
                        want = tuple(sum(p[c] for p in ps) // 4 for c in range(4))
                        if tuple(frame[(x, y)]) != want:
                            return f'mipmap {key} ({x},{y}) is {tuple(frame[(x, y)])}, mean of parents {want}'
    if version >= (7, 3) and extras:
        # flag 0x02 ("no data chunk") only encodes whether data is an inline int; save() derives it from the type
        if {k: (r.flags & ~2, r.data) for k, r in back.resources.items()} != \
                {k: (r.flags & ~2, r.data) for k, r in vtf.resources.items()}:
            return f'resources differ: {back.resources!r} vs {vtf.resources!r}'
        if {k: (s.frames, s.clamp, s.duration) for k, s in back.sheet_info.items()} != \
                {k: (s.frames, s.clamp, s.duration) for k, s in vtf.sheet_info.items()}:
            return 'sheet sequences differ'
    def same_content(data, what):
        """Storing again changes nothing: same size, same metadata, same pixels in every frame.  (The 16x16 thumbnail is
        not one of the frames: save() regenerates it from the - now quantised - image, so its bytes may differ from the
        first save; the property speaks about the frames.)"""
        if data == first:
            return None
        if len(data) != len(first):
            return f'{what}: {len(first)} bytes became {len(data)}'
        again = VTF.read(io.BytesIO(data))
        again.load()
        for attr in ('width', 'height', 'depth', 'frame_count', 'mipmap_count', 'flags', 'format', 'low_format', 'version',
                     'bumpmap_scale'):
            if getattr(again, attr) != getattr(back, attr):
                return f'{what}: {attr} {getattr(back, attr)!r} became {getattr(again, attr)!r}'
        if tuple(again.reflectivity) != tuple(back.reflectivity) or set(again._frames) != set(back._frames):
            return f'{what}: reflectivity or frame set changed'
        for key, frame in back._frames.items():
            other = again._frames[key]
            if (frame.width, frame.height) != (other.width, other.height) or \
                    bytes(frame._data or b'') != bytes(other._data or b''):
                return f'{what}: pixels of frame {key} changed'
        if {k: (r.flags & ~2, r.data) for k, r in again.resources.items()} != \
                {k: (r.flags & ~2, r.data) for k, r in back.resources.items()}:
            return f'{what}: resources changed'
        return None
    buf2 = io.BytesIO()
    back.save(buf2)
    bad = same_content(buf2.getvalue(), 'second save')
    if bad:
        return bad
    # the same for a lazily read file: frames still backed by the stream when save() is called
    lazy = VTF.read(io.BytesIO(first))
    buf3 = io.BytesIO()
    lazy.save(buf3)
    return same_content(buf3.getvalue(), 'saving a freshly read (not yet loaded) VTF')


CONTAINER_FORMATS = ['rgba8888', 'bgra8888', 'argb8888', 'abgr8888', 'rgb888', 'bgr888', 'bgrx8888', 'rgb565',
                     'bgr565', 'bgra4444', 'bgra5551', 'bgrx5551', 'i8', 'ia88', 'a8', 'uv88', 'uvlx8888',
                     'uvwq8888', 'rgb888_bluescreen', 'bgr888_bluescreen']


def _container_cases(thorough):
    sizes = [(1, 1), (2, 2), (4, 2), (2, 8), (8, 8)] + ([(16, 4), (1, 4), (32, 32), (16, 16)] if thorough else [])
    out = []
    seed = 0
    for (w, h) in sizes:
        for frames, depth, cube in ((1, 1, False), (2, 1, False), (1, 2, False), (2, 2, False), (3, 2, False),
                                    (1, 1, True), (2, 1, True)):
            for version in ((7, 2), (7, 3), (7, 4), (7, 5)):
                if not thorough and version in ((7, 3),) and (w, h) != (4, 2):
                    continue
                for author in (True, False):
                    fmts = CONTAINER_FORMATS if (thorough or (w, h, frames, depth) == (4, 2, 2, 2)) else \
                        [CONTAINER_FORMATS[(seed + k) % len(CONTAINER_FORMATS)] for k in range(2)] + ['rgba8888']
                    for f in fmts:
                        seed += 1
                        thumb = 'none' if seed % 3 else 'rgb888'
                        out.append((w, h, frames, depth, cube, version, f, thumb, seed, author, seed % 2 == 0))
    return out


@bounded('C15.B-container', bound='power-of-two sizes 1x1..8x8 (thorough: ..32x32), frames 1-3, depth 1-2, cubemaps '
         'with/without sphere map, versions 7.2-7.5, 20 writable formats, thumbnail none/RGB888, hand-authored and '
         'generated mipmaps, resources + one sheet sequence', rule='a case is one VTF; non-trivial when it has more '
         'than one frame/layer/mipmap or a reduced-precision format')
def b_container(ctx):
    for case in _container_cases(ctx.thorough):
        if ctx.out_of_time():
            return
        w, h, frames, depth, cube, version, f, thumb, seed, author, extras = case
        ctx.case(case, nontrivial=frames > 1 or depth > 1 or cube or w * h > 1 or f != 'rgba8888')
        try:
            bad = _container_case(case)
        except Exception as e:
            bad = f'{type(e).__name__}: {e}'
        if bad:
            shape = f'{w}x{h}.f{frames}.d{depth}.cube{int(cube)}.v{version[1]}.{f}.author{int(author)}'
            ctx.violation('container=' + shape, f'{bad} for {shape}', list(case))


def _replay_container(inp):
    inp = list(inp)
    inp[5] = tuple(inp[5])
    bad = _container_case(tuple(inp))
    return {'failed': bool(bad), 'observation': bad}


b_container.replay = _replay_container
def _frame_copy_case(case):
    """Frames filled from one another and edited afterwards: each saved frame holds what was put into *it*."""
    import random as _r
    from srctools.vtf import VTF, ImageFormats
    w, h, version, target_state = case
    rng = _r.Random(w * 131 + h * 17 + version[1])
    vtf = VTF(w, h, version=version, frames=3, fmt=ImageFormats.RGBA8888, thumb_fmt=ImageFormats.NONE)
    f0, f1, f2 = vtf.get(frame=0), vtf.get(frame=1), vtf.get(frame=2)
    pix = {}
    for y in range(h):
        for x in range(w):
            pix[x, y] = tuple(rng.randrange(256) for _ in range(4))
            f0[x, y] = pix[x, y]
    if target_state == 'cleared':
        f1[0, 0] = (1, 2, 3, 4)
        f1.clear()
    elif target_state == 'written':
        f1[0, 0] = (1, 2, 3, 4)
    f1.copy_from(f0)                  # frame 1 := frame 0 (a never-touched, a cleared or a written target)
    f2.copy_from(f1)
    edit = (w - 1, h - 1)
    f0[edit] = (9, 8, 7, 6)           # later edits of the source / the middle frame must not reach the copies
    f1[0, 0] = (5, 5, 5, 5)
    buf = io.BytesIO()
    vtf.save(buf)
    buf.seek(0)
    back = VTF.read(buf)
    back.load()
    want = {0: dict(pix), 1: dict(pix), 2: dict(pix)}
    want[0][edit] = (9, 8, 7, 6)
    want[1][0, 0] = (5, 5, 5, 5)
    if (w, h) == (1, 1):
        want[0][0, 0] = (9, 8, 7, 6)
    for fr in range(3):
        got = back.get(frame=fr)
        for (x, y), px in want[fr].items():
            if tuple(got[x, y]) != px:
                return (f'frame {fr} pixel {(x, y)} reads {tuple(got[x, y])}, expected {px} (frame 1 := frame 0, '
                        f'frame 2 := frame 1, then frame 0 and frame 1 were edited; target was {target_state})')
    return None


def _job_frame_copy(case):
    try:
        return _frame_copy_case(case)
    except Exception as e:
        return f'{type(e).__name__}: {e}'


@bounded('C15.B-frame-copy', bound='3-frame RGBA8888 textures 1x1..8x4, versions 7.2 / 7.4 / 7.5: frame 1 := frame 0 '
         '(target never touched / cleared / already written), frame 2 := frame 1, then source and middle frame edited, '
         'save, read', rule='one case per size x version x target state')
def b_frame_copy(ctx):
    jobs = [(w, h, v, st) for (w, h) in ((1, 1), (2, 2), (4, 2), (8, 4)) for v in ((7, 2), (7, 4), (7, 5))
            for st in ('fresh', 'cleared', 'written')]
    for job, bad in ctx.pmap(_job_frame_copy, jobs, job_timeout=20.0):
        ctx.case(job)
        if bad:
            ctx.violation(f'frame_copy={job[0]}x{job[1]}.v{job[2][1]}.{job[3]}', bad, [job[0], job[1], list(job[2]), job[3]])


b_frame_copy.replay = lambda inp: (lambda r: {'failed': bool(r), 'observation': r})(
    _job_frame_copy((inp[0], inp[1], tuple(inp[2]), inp[3])))
BOUNDED = [b_container, b_frame_copy]


# ------------------------------------------------------------------------------------------------ scale_down
def _scale_setup(filt_value):
    def setup(h):
        w = h.int('width')
        ht = h.int('height')
        sw = h.int('src_width')
        sh = h.int('src_height')
        h.assume(z3.And(w >= 1, ht >= 1))
        h.assume(z3.Or(sw == w, sw == 2 * w))
        h.assume(z3.Or(sh == ht, sh == 2 * ht))
        x = h.int('x')
        y = h.int('y')
        h.assume(z3.And(0 <= x, x < w, 0 <= y, y < ht))
        # products named once so that the solver sees linear facts about them
        src = h.arr('src', 4 * sw * sh)
        dest = h.arr('dest', 4 * w * ht)
        for a in (src, dest):
            j = z3.Int('sd!j')
            h.assume(z3.ForAll([j], z3.ULE(a.arr[j], 255)))
        # help for the nonlinear index bounds (consequences of 0<=x<width, 0<=y<height; checked separately below)
        h.assume(w * y + x < w * ht)
        h.assume(w * y >= 0)
        h.assume(sw * (sh - 1) + sw <= sw * sh)
        filt = h.obj('FilterMode', 'vtf', value=filt_value)
        return {'locals': dict(filt=filt, src_width=sw, src_height=sh, width=w, height=ht, src=src, dest=dest, x=x, y=y,
                               dest_0=SArr(dest.arr, dest.length))}
    return setup


sd_bil = REG.add(Lemma('scale_down.bilinear.one_texel', PROP, [
    {'stmts': f'{M}:scale_down', 'range': (1, 3)},
    {'body': f'{M}:scale_down', 'loop': 3},
]))
sd_bil.setup(_scale_setup(4))


@native
def parent_sum(I, src, src_width, width, src_height, height, x, y, c):
    """Sum of the (up to) four parent texels of destination texel (x, y), channel c, by (column,row) arithmetic."""
    sx = z3.If(to_z3(src_width) == to_z3(width), 1, 2)
    sy = z3.If(to_z3(src_height) == to_z3(height), 1, 2)
    zx, zy, sw = to_z3(x), to_z3(y), to_z3(src_width)

    def tex(dx, dy):
        col = sx * zx + dx * (sx - 1)
        row = sy * zy + dy * (sy - 1)
        return src.arr[4 * (row * sw + col) + c]
    return tex(0, 0) + tex(1, 0) + tex(0, 1) + tex(1, 1)


def texel_is_mean_of_parents(src, dest, src_width, width, src_height, height, x, y):
    return (at(dest, 4 * (width * y + x)) * 4 <= parent_sum(src, src_width, width, src_height, height, x, y, 0)
            and parent_sum(src, src_width, width, src_height, height, x, y, 0) < at(dest, 4 * (width * y + x)) * 4 + 4
            and at(dest, 4 * (width * y + x) + 3) * 4 <= parent_sum(src, src_width, width, src_height, height, x, y, 3)
            and parent_sum(src, src_width, width, src_height, height, x, y, 3) < at(dest, 4 * (width * y + x) + 3) * 4 + 4)


def writes_only_that_texel(dest, dest_0, width, x, y):
    return same_except(dest, dest_0, 4 * (width * y + x), 4 * (width * y + x) + 4)


sd_bil.ensures(texel_is_mean_of_parents)
sd_bil.ensures(writes_only_that_texel)
PROOFS.append(sd_bil)


def static_nonlinear_helpers(repo):
    """The three nonlinear facts assumed by the scale_down harness, proved on their own (z3 NIA)."""
    from pyvc.symexec import Obligation
    w, ht, x, y, sw, sh = z3.Ints('w ht x y sw sh')
    pre = [w >= 1, ht >= 1, 0 <= x, x < w, 0 <= y, y < ht]
    obs = [
        Obligation('scale_down.helper.index_below_size', pre, w * y + x < w * ht),
        Obligation('scale_down.helper.row_offset_nonnegative', pre, w * y >= 0),
        Obligation('scale_down.helper.distributivity', [sw >= 1, sh >= 1], sw * (sh - 1) + sw <= sw * sh),
    ]
    return smt.discharge(obs, timeout_ms=20000)


STATIC = [static_nonlinear_helpers]
MUTATIONS += [
    dict(name='scale_down_div3', file='_py_vtf_readwrite.py',
         old="                        src[off2 + channel + vert_off + horiz_off]\n                    ) // 4",
         new="                        src[off2 + channel + vert_off + horiz_off]\n                    ) // 3",
         expect='scale_down'),
    dict(name='scale_down_wrong_row', file='_py_vtf_readwrite.py',
         old="        vert_off, per_row = 4 * per_column * width, 2 * per_column * width",
         new="        vert_off, per_row = 4 * width, 2 * per_column * width", expect='scale_down'),
]
