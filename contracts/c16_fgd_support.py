"""Shared helpers for C16 (FGD text / binary / lazy-database round trips); bounded tier, run natively.

    PYTHONPATH=/repo/src:/verif/shim /venv/bin/python /verif/contracts/c16_fgd_support.py [N seeds]

Public surface
    gen_fgd(rng)                         random FGD, 1..5 entities (+ an optional "every value type" entity)
    dump_ent(entdef)                     field-wise plain-Python dump used for every comparison (never __eq__)
    check_text(fgd, custom_syntax, label_spawnflags)
    check_binary(fgd)
    check_engine_db_text()
    check_engine_db_lazy(order_seed)
    TARGETED                             named corner cases, each a callable returning an FGD

All checks return None when the property holds, else ONE short line "<signature>: <detail>".

ORACLE RULES (what a round trip is allowed to change - everything else must be identical)

 Text (export -> parse -> export), both syntaxes
   T1  I/O types decay as fgd.py documents for IODef.export ("In I/O definitions, types are constrained"):
       only void/integer/boolean/string/float/script/vector/target_destination/color255 survive; flags and node_id
       become integer; angle_negative_pitch and angle_pitch become float; vecline/origin/axis/vec_dir/vec_local/
       angle/angle_local become vector; color1 becomes color255; every other type becomes string. (_IO_DECAY below
       is an independent copy of that table, keyed by member name.)
   T2  A spawnflags keyvalue has no display name in the file: after parsing, disp_name == the key's name.
   T3  A boolean keyvalue always gets a default: '' -> '0', and 'yes'/'no' -> '1'/'0'.
   T4  Newlines in choices names and spawnflag names become a space ("Newlines aren't functional here").
   T5  Spawnflag names: with label_spawnflags the writer prepends "[N] " and the parser strips "[N]" and then the
       leading whitespace, so the name loses its own leading whitespace; without labels a name that itself starts
       with "[N]" (N = its own value) loses that prefix the same way.
   T6  kv_order becomes the order of appearance in the file = keys sorted (stably) by orderby() arguments if any
       orderby helper has arguments, else by the old kv_order, unknown keys last. Keys with an empty tag map vanish.
   T7  val_list of a choices/flags key is never None after parsing (None -> []).
   T8  FGD-level: @mapsize is only written when min != max.
 Text, custom_syntax=False only ("all custom syntax like tags and @resources will be skipped")
   P1  tags on keyvalues / inputs / outputs / choices / flags are dropped; tagged duplicates of one key are all
       written and the parser keeps the LAST one, so export(parse(text)) is shorter than text: for such FGDs the
       second export is required to be a fixpoint (third export identical) instead of equal to the first.
   P2  @resources blocks are dropped (resources == ()); helpers with IS_EXTENSION (appliesto, orderby, autovis)
       are dropped; aliasof() decays to base() (is_alias False).
   P3  '"' in display names / descriptions / spawnflag names is written as two single quotes.
   P4  the plain syntax has no escape for a backslash and turns a raw '\\r' into '\\n': the check runs on a copy of
       the FGD in which '\\\\' -> '/' and '\\r' -> ' ' in those texts (representability restriction, not a decay
       the library promises).
 Representability restrictions of the generator (not checked, because the FGD syntax cannot express them)
   R1  names (classes, keys, I/O, helper arguments, tags, custom type names) are bare-word safe; tags upper-case.
   R2  no HelperExtAutoVisgroups instances (parse-only convenience: it turns into FGD.auto_visgroups entries);
       cylinder() only with argument counts the parser accepts; numeric-looking strings are not used where a
       helper accepts "number or key name"; keyframe('') is not used (same as None).
   R3  bases are EntityDef objects that are members of the FGD, no loops; mapsize either unset or min != max.
   R4  val_list only on choices/flags keys; flags are distinct powers of two below 2**32.
 Binary (_engine_db.serialise -> unserialise), from reading _engine_db.py
   B0  serialise() needs a '_CBaseEntity_' entry and exactly 512 shared strings, i.e. at least 512 distinct
       strings in the whole FGD: the check adds _CBaseEntity_ (if missing) and a padding entity.
   B1  dropped by design: every description (entity, keyvalue, I/O), helpers, kv_order, 'reportable', the default
       of a flags key, the () / [] distinction of resources ([] -> ()).
   B2  refused by design (ValueError): tagged keyvalues/I/O, tagged spawnflags, choices keys. The check first
       projects the FGD the way the engine dump is built: per key the untagged variant (else the first one)
       without tags; choices -> string without list; spawnflag tags removed. Custom type names decay to STRING.
   B3  an entity without bases comes back based on _CBaseEntity_; other base lists come back by name.
   Kept: class name, kind, is_alias, bases, per key name / display name / type / default / readonly / flags list,
   per I/O name and exact type (no I/O decay here), resources with file type and tags, dict order.
"""
from __future__ import annotations

import contextlib
import copy
import io
import random
import re
import sys
import warnings
from typing import Any, Callable, Optional

# ---------------------------------------------------------------------------------------------------------------
# dumps


def _type_name(t: Any) -> str:
    return t.name if hasattr(t, 'name') and not isinstance(t, str) else 'custom:' + str(t)


def _plain(v: Any) -> Any:
    """Helper attribute -> plain data."""
    if v is None or isinstance(v, (str, int, float, bool)):
        return v
    if isinstance(v, (list, tuple)):
        return [_plain(x) for x in v]
    if all(hasattr(v, a) for a in ('x', 'y', 'z')):
        return ['Vec', float(v.x), float(v.y), float(v.z)]
    return repr(v)


def _dump_helper(h: Any) -> dict:
    d = {'helper': type(h).__name__, 'TYPE': h.TYPE.name if h.TYPE is not None else None}
    # The helper classes are slotted attrs classes: their fields are NOT in vars(h) (only UnknownHelper's are).
    fields = [a.name for a in getattr(type(h), '__attrs_attrs__', ())] + sorted(getattr(h, '__dict__', {}))
    for k in fields:
        d[k] = _plain(getattr(h, k))
    return d


def _dump_vals(val_list: Any) -> Any:
    if val_list is None:
        return None
    return [list(v[:-1]) + [sorted(v[-1])] for v in val_list]


def _dump_kv(kv: Any) -> dict:
    tname = _type_name(kv._type)
    # T7: KVDef.copy()/deepcopy turn an empty val_list into None and flags_list/choices_list turn it back, so an
    # empty list and None are the same value: [] for choices/flags keys, None for every other type.
    vals = _dump_vals(kv.val_list) or ([] if tname in ('CHOICES', 'SPAWNFLAGS') else None)
    return {
        'name': kv.name, 'type': tname, 'disp_name': kv.disp_name, 'default': kv.default,
        'desc': kv.desc, 'val_list': vals, 'readonly': kv.readonly, 'reportable': kv.reportable,
    }


def _dump_io(io_def: Any) -> dict:
    return {'name': io_def.name, 'type': _type_name(io_def._type), 'desc': io_def.desc}


def dump_ent(ent: Any) -> dict:
    """Field-wise dump of an EntityDef. Bases are dumped by class name only."""
    def tagmaps(mapping: Any, dump: Callable[[Any], dict]) -> dict:
        out = {}
        for key, tmap in mapping.items():
            out[key] = [dict(dump(v), tags=sorted(tags)) for tags, v in tmap.items()]
        return out
    res = ent.resources
    return {
        'classname': ent.classname,
        'type': ent.type.name,
        'is_alias': bool(ent.is_alias),
        'desc': ent.desc,
        'bases': [b if isinstance(b, str) else b.classname for b in ent.bases],
        'helpers': [_dump_helper(h) for h in ent.helpers],
        'kv_order': list(ent.kv_order),
        'kv_keys': [k for k, m in ent.keyvalues.items() if m],
        'keyvalues': tagmaps(ent.keyvalues, _dump_kv),
        'input_keys': [k for k, m in ent.inputs.items() if m],
        'inputs': tagmaps(ent.inputs, _dump_io),
        'output_keys': [k for k, m in ent.outputs.items() if m],
        'outputs': tagmaps(ent.outputs, _dump_io),
        'resources': None if isinstance(res, tuple) and res == () else [
            {'filename': r.filename, 'type': r.type.name, 'tags': sorted(r.tags)} for r in res
        ],
    }


def _dump_extras(fgd: Any) -> dict:
    return {
        'mapsize': [fgd.map_size_min, fgd.map_size_max],
        'mat_exclusions': sorted(str(p) for p in fgd.mat_exclusions),
        'tagged_mat_exclusions': {
            ','.join(sorted(tags)): sorted(str(p) for p in paths)
            for tags, paths in fgd.tagged_mat_exclusions.items() if paths
        },
        'auto_visgroups': {
            key: [v.name, v.parent, sorted(v.ents)] for key, v in fgd.auto_visgroups.items()
        },
    }


def _short(v: Any, n: int = 48) -> str:
    s = repr(v)
    return s if len(s) <= n else f'{s[:n - 12]}...{s[-6:]}(len {len(v) if hasattr(v, "__len__") else "?"})'


_GENERIC_UNDER = {'keyvalues', 'inputs', 'outputs', 'tagged_mat_exclusions', 'auto_visgroups'}


def _diff(got: Any, exp: Any, gpath: str = '', cpath: str = '') -> list:
    """All leaf differences as (generic path, concrete path, got, expected)."""
    if isinstance(got, dict) and isinstance(exp, dict):
        out = []
        generic = gpath.rsplit('.', 1)[-1] in _GENERIC_UNDER
        for k in list(exp) + [k for k in got if k not in exp]:
            g, c = (gpath + '.*' if generic else f'{gpath}.{k}'), f'{cpath}.{k}'
            if k not in got:
                out.append((g + ' missing', c, '<absent>', exp[k]))
            elif k not in exp:
                out.append((g + ' unexpected', c, got[k], '<absent>'))
            else:
                out.extend(_diff(got[k], exp[k], g, c))
        return out
    if isinstance(got, list) and isinstance(exp, list) and (
        len(got) == len(exp) and any(isinstance(x, (dict, list)) for x in got + exp)
    ):
        out = []
        inner = gpath.endswith('val_list[]')  # keep the position inside a choices / flags tuple
        for i, (g, e) in enumerate(zip(got, exp)):
            out.extend(_diff(g, e, gpath + (f'[{i}]' if inner else '[]'), f'{cpath}[{i}]'))
        return out
    if type(got) is not type(exp) and not (isinstance(got, (int, float)) and isinstance(exp, (int, float))):
        return [(gpath, cpath, got, exp)]
    return [] if got == exp else [(gpath, cpath, got, exp)]


def _fmt_diff(prefix: str, d: tuple) -> str:
    g, c, got, exp = d
    return f'{prefix}{g.lstrip(".")}: got {_short(got)} expected {_short(exp)} at {c.lstrip(".")}'


def _exc_line(stage: str, exc: BaseException) -> str:
    msg = str(exc).strip().split('\n')[0]
    return f'{stage} raises {type(exc).__name__}: {msg[:110]}'


# ---------------------------------------------------------------------------------------------------------------
# text oracle

_IO_VALID = {'VOID', 'INT', 'BOOL', 'STRING', 'FLOAT', 'STR_VSCRIPT_SINGLE', 'VEC', 'TARG_DEST', 'COLOR_255'}
_IO_DECAY_SPECIAL = {
    'SPAWNFLAGS': 'INT', 'TARG_NODE_SOURCE': 'INT',
    'ANGLE_NEG_PITCH': 'FLOAT', 'EXT_ANGLE_PITCH': 'FLOAT',
    'VEC_LINE': 'VEC', 'VEC_ORIGIN': 'VEC', 'VEC_AXIS': 'VEC', 'EXT_VEC_DIRECTION': 'VEC', 'EXT_VEC_LOCAL': 'VEC',
    'ANGLES': 'VEC', 'EXT_ANGLES_LOCAL': 'VEC',
    'COLOR_1': 'COLOR_255',
}


def _io_decay(type_name: str) -> str:
    """T1: the documented I/O type decay, by ValueTypes member name."""
    if type_name.startswith('custom:'):
        return type_name
    if type_name in _IO_DECAY_SPECIAL:
        return _IO_DECAY_SPECIAL[type_name]
    return type_name if type_name in _IO_VALID else 'STRING'


def _txt(text: str, extended: bool) -> str:
    """What a display name / description reads back as. Extended syntax: unchanged. Plain: P3."""
    return text if extended else text.replace('"', "''")


def _expect_text(d: dict, custom: bool, label: bool, ext_helpers: set) -> dict:
    """Dump of an entity -> the dump expected after export + parse with these options."""
    e = copy.deepcopy(d)
    e['desc'] = _txt(d['desc'], custom)
    if not custom:
        e['helpers'] = [h for h in d['helpers'] if h['helper'] not in ext_helpers]
        e['resources'] = None
        e['is_alias'] = False
    # T6: order of appearance.
    order_names: list = []
    for h in d['helpers']:
        if h['helper'] == 'HelperExtOrderBy':
            order_names += [a.casefold() for a in h['order']]
    order = {name: i for i, name in enumerate(order_names or d['kv_order'])}
    keys = sorted(d['kv_keys'], key=lambda k: order.get(k, 2 ** 64))
    e['kv_order'] = keys
    e['kv_keys'] = keys

    def variants(vs: list, conv: Callable[[dict], dict]) -> list:
        vs = [conv(v) for v in vs]
        if not custom:  # P1
            vs = [dict(vs[-1], tags=[])]
        return vs

    def conv_kv(kv: dict) -> dict:
        kv = dict(kv)
        typ = kv['type']
        # T2 (the name field of a spawnflags key is only written when a default or description follows it)
        kv['disp_name'] = kv['name'] if typ == 'SPAWNFLAGS' and not (kv['default'] or kv['desc']) \
            else _txt(kv['disp_name'], custom)
        kv['default'] = _txt(kv['default'], custom)  # P3 also applies to defaults (they are escaped like other texts)
        kv['desc'] = _txt(kv['desc'], custom)
        if typ == 'BOOL':  # T3
            low = kv['default'].casefold()
            kv['default'] = '0' if low in ('', 'no') else '1' if low == 'yes' else kv['default']
        if typ == 'CHOICES':
            kv['val_list'] = [
                [_txt(value, custom), name.replace('\n', ' ') if custom else _txt(name.replace('\n', ' '), False),
                 tags if custom else []]
                for value, name, tags in (kv['val_list'] or [])
            ]
        elif typ == 'SPAWNFLAGS':
            vals = []
            for flag, name, dflt, tags in (kv['val_list'] or []):
                name = name.replace('\n', ' ')  # T4
                written = _txt(f'[{flag}] {name}' if label else name, custom)
                if written.startswith(f'[{flag}]'):  # T5
                    written = written[len(f'[{flag}]'):].lstrip()
                vals.append([flag, written, dflt, tags if custom else []])
            kv['val_list'] = vals
        return kv

    def conv_io(io_def: dict) -> dict:
        return dict(io_def, type=_io_decay(io_def['type']), desc=_txt(io_def['desc'], custom))

    e['keyvalues'] = {k: variants(d['keyvalues'][k], conv_kv) for k in d['kv_keys']}
    for cat, keys_name in (('inputs', 'input_keys'), ('outputs', 'output_keys')):
        e[cat] = {k: variants(d[cat][k], conv_io) for k in d[keys_name]}
    return e


def _sanitise_plain(fgd: Any) -> None:
    """P4: make the texts representable in the plain syntax."""
    def fix(s: str) -> str:
        return s.replace('\\', '/').replace('\r', ' ')
    for ent in fgd.entities.values():
        ent.desc = fix(ent.desc)
        for tmap in ent.keyvalues.values():
            for kv in tmap.values():
                kv.disp_name, kv.desc = fix(kv.disp_name), fix(kv.desc)
                if isinstance(kv.default, str):
                    kv.default = fix(kv.default)
                if kv.val_list:
                    # (choices: value and name are strings; spawnflags: the first item is the number)
                    kv.val_list = [((fix(v[0]) if isinstance(v[0], str) else v[0]),) + (fix(v[1]),) + v[2:]
                                   for v in kv.val_list]
        for cat in (ent.inputs, ent.outputs):
            for tmap in cat.values():
                for io_def in tmap.values():
                    io_def.desc = fix(io_def.desc)


def _visible(d: dict, custom: bool, ext_helpers: set) -> dict:
    """The part of an entity dump that the exported text shows (to decide whether a decay rule changed the text)."""
    v = {k: d[k] for k in ('classname', 'type', 'desc', 'bases')}
    v['helpers'] = [h for h in d['helpers'] if custom or h['helper'] not in ext_helpers]
    # Layout only: the class name moves to its own line when there is any helper (even one that is not written),
    # and the "// Inputs" / "// Outputs" comment is written when the dict is non-empty (even with empty tag maps).
    v['layout'] = [bool(d['helpers']), bool(d['inputs']), bool(d['outputs'])]
    v['resources'] = d['resources'] if custom else None
    for cat in ('keyvalues', 'inputs', 'outputs'):
        out = {}
        for key, variants in d[cat].items():
            if not variants:
                continue
            new = []
            for var in variants:
                var = dict(var)
                if var.get('type') == 'SPAWNFLAGS':
                    var['disp_name'] = ''
                if not custom and len(variants) == 1:
                    var['tags'] = []
                    if var.get('val_list'):
                        var['val_list'] = [val[:-1] + [[]] for val in var['val_list']]
                new.append(var)
            out[key] = new
        v[cat] = out
    return v


def _parse_text(text: str) -> Any:
    from srctools.fgd import FGD
    from srctools.filesys import VirtualFileSystem
    fsys = VirtualFileSystem({'t.fgd': text})
    fgd = FGD()
    with warnings.catch_warnings():
        warnings.simplefilter('ignore')
        fgd.parse_file(fsys, fsys['t.fgd'], ignore_unknown_valuetype=True)
    return fgd


def _ext_helper_names() -> set:
    from srctools import fgd as fgd_mod
    return {cls.__name__ for cls in fgd_mod.HELPER_IMPL.values() if cls.IS_EXTENSION}


def _check_text_all(fgd: Any, custom_syntax: bool, label_spawnflags: bool, limit: int = 50) -> list:
    """All failures of the text round trip, as 'signature: detail' lines."""
    opts = dict(custom_syntax=custom_syntax, label_spawnflags=label_spawnflags)
    try:
        work = copy.deepcopy(fgd)
        if not custom_syntax:
            _sanitise_plain(work)
        ext = _ext_helper_names()
        orig = {k: dump_ent(e) for k, e in work.entities.items()}
        exp = {k: _expect_text(d, custom_syntax, label_spawnflags, ext) for k, d in orig.items()}
        exp_extra = _dump_extras(work)
        if exp_extra['mapsize'][0] == exp_extra['mapsize'][1]:
            exp_extra['mapsize'] = [0, 0]  # T8
        # Did a decay rule change something the text shows? Then the second export legitimately differs from the
        # first and must instead be a fixpoint.
        decayed = any(
            _visible(exp[k], custom_syntax, ext) != _visible(orig[k], custom_syntax, ext) for k in orig
        )
    except Exception as exc:  # harness trouble, not a library failure
        return [_exc_line('HARNESS oracle', exc)]
    try:
        text1 = work.export(**opts)
    except Exception as exc:
        return [_exc_line('export', exc)]
    try:
        parsed = _parse_text(text1)
    except Exception as exc:
        kind, where = _locate_parse_failure(work, opts)
        return [_exc_line('parse of exported text', exc) + f' (in {kind}) at {where}']
    fails: list = []
    got = {k: dump_ent(e) for k, e in parsed.entities.items()}
    for k in exp:
        if k not in got:
            fails.append(f'entity missing after parse: {k}')
    for k in got:
        if k not in exp:
            fails.append(f'entity unexpected after parse: {k}')
    for k in exp:
        if k in got:
            fails.extend(_fmt_diff('parsed ', d) for d in _diff(got[k], exp[k], '', k))
    fails.extend(_fmt_diff('parsed fgd.', d) for d in _diff(_dump_extras(parsed), exp_extra, '', 'fgd'))
    try:
        text2 = parsed.export(**opts)
    except Exception as exc:
        return (fails + [_exc_line('second export', exc)])[:limit]
    if not decayed:
        if text2 != text1:
            fails.append('re-export differs: ' + _text_delta(text1, text2))
    else:
        try:
            text3 = _parse_text(text2).export(**opts)
            if text3 != text2:
                fails.append('re-export not a fixpoint: ' + _text_delta(text2, text3))
        except Exception as exc:
            fails.append(_exc_line('parse of second export', exc))
    return fails[:limit]


def _locate_parse_failure(fgd: Any, opts: dict) -> tuple:
    """Diagnosis only: the first entity member whose exported text does not parse on its own."""
    from srctools.fgd import EntityDef
    try:
        for ent in fgd.entities.values():
            minis = [('header', '', EntityDef(
                ent.type, ent.classname, helpers=list(ent.helpers), desc=ent.desc, resources=ent.resources,
            ))]
            for cat in ('keyvalues', 'inputs', 'outputs'):
                for key, tmap in getattr(ent, cat).items():
                    for tags, value in tmap.items():
                        mini = EntityDef(ent.type, ent.classname)
                        getattr(mini, cat)[key] = {tags: value}
                        minis.append((cat, key, mini))
            for kind, key, mini in minis:
                buf = io.StringIO()
                mini.export(buf, opts['label_spawnflags'], opts['custom_syntax'])
                text = buf.getvalue()
                try:
                    _parse_text(text)
                except Exception:
                    body = text[text.index('\n\t[\n') + 4:-4] if kind != 'header' else text
                    return kind, f'{ent.classname}.{key}: {_short(body, 90)}'
    except Exception as exc:
        return '?', f'(locating failed: {type(exc).__name__})'
    return '?', '(no single member fails on its own)'


def _text_delta(a: str, b: str) -> str:
    la, lb = a.split('\n'), b.split('\n')
    for i, (x, y) in enumerate(zip(la, lb)):
        if x != y:
            return f'line {i + 1} {_short(x, 40)} -> {_short(y, 40)}'
    return f'line count {len(la)} -> {len(lb)}'


def check_text(fgd: Any, custom_syntax: bool, label_spawnflags: bool) -> Optional[str]:
    """export -> parse -> compare every definition (rules T*/P* in the module docstring) -> export again."""
    fails = _check_text_all(fgd, custom_syntax, label_spawnflags, limit=1)
    return fails[0] if fails else None


# ---------------------------------------------------------------------------------------------------------------
# binary oracle

_CBASE = '_CBaseEntity_'
_PAD = 'zz_c16_padding'


def _project_binary(fgd: Any) -> Any:
    """B0 + B2: a copy of the FGD in the shape serialise() accepts. Descriptions/helpers stay, to see them dropped."""
    from srctools.fgd import FGD, EntityDef, EntityTypes, IODef, KVDef, ValueTypes
    out = FGD()
    for key, ent in fgd.entities.items():
        new = EntityDef(
            ent.type, ent.classname,
            bases=[b if isinstance(b, str) else b.classname for b in ent.bases],
            helpers=list(ent.helpers), desc=ent.desc, kv_order=list(ent.kv_order),
            resources=ent.resources if isinstance(ent.resources, tuple) else list(ent.resources),
            is_alias=ent.is_alias,
        )
        for cat_name in ('keyvalues', 'inputs', 'outputs'):
            cat = getattr(new, cat_name)
            for name, tmap in getattr(ent, cat_name).items():
                if not tmap:
                    cat[name] = {}
                    continue
                value = tmap[frozenset()] if frozenset() in tmap else next(iter(tmap.values()))
                value = value.copy()
                if isinstance(value, KVDef):
                    if value._type is ValueTypes.CHOICES:
                        value.type, value.val_list = ValueTypes.STRING, None
                    elif value._type is ValueTypes.SPAWNFLAGS:
                        value.val_list = [v[:3] + (frozenset(),) for v in (value.val_list or [])]
                cat[name] = {frozenset(): value}
        out.entities[key] = new
    if _CBASE.casefold() not in out.entities:
        cbase = EntityDef(EntityTypes.BASE, _CBASE)
        cbase.keyvalues['targetname'] = {frozenset(): KVDef('targetname', ValueTypes.TARG_SOURCE, 'Name', '', 'd')}
        cbase.inputs['kill'] = {frozenset(): IODef('Kill', ValueTypes.VOID, 'd')}
        cbase.outputs['onuser1'] = {frozenset(): IODef('OnUser1', ValueTypes.VOID)}
        out.entities[_CBASE.casefold()] = cbase
    pad = EntityDef(EntityTypes.POINT, _PAD)
    for i in range(190):
        pad.keyvalues[f'pad{i}'] = {frozenset(): KVDef(f'pad{i}', ValueTypes.STRING, f'Pad {i}', f'pad default {i}')}
    out.entities[_PAD] = pad
    return out


def _expect_binary(d: dict) -> dict:
    """Dump of a projected entity -> dump expected from the binary database (B1, B3)."""
    e = copy.deepcopy(d)
    e['desc'] = ''
    e['helpers'] = []
    e['kv_order'] = []
    if not e['bases'] and d['classname'] != _CBASE:
        e['bases'] = [_CBASE]
    if e['resources'] == []:
        e['resources'] = None

    def custom(t: str) -> str:
        return 'STRING' if t.startswith('custom:') else t
    e['keyvalues'] = {}
    for k in d['kv_keys']:
        [kv] = d['keyvalues'][k]
        kv = dict(kv, desc='', reportable=False, type=custom(kv['type']))
        if kv['type'] == 'SPAWNFLAGS':
            kv['default'] = ''
            kv['val_list'] = kv['val_list'] or []
        e['keyvalues'][k] = [kv]
    for cat, keys_name in (('inputs', 'input_keys'), ('outputs', 'output_keys')):
        e[cat] = {}
        for k in d[keys_name]:
            [io_def] = d[cat][k]
            e[cat][k] = [dict(io_def, desc='', type=custom(io_def['type']))]
    return e


def _check_binary_all(fgd: Any, limit: int = 50) -> list:
    from srctools import _engine_db
    try:
        proj = _project_binary(fgd)
        exp = {k: _expect_binary(dump_ent(e)) for k, e in proj.entities.items()}
    except Exception as exc:
        return [_exc_line('HARNESS oracle', exc)]
    buf = io.BytesIO()
    try:
        with contextlib.redirect_stdout(io.StringIO()), warnings.catch_warnings():
            warnings.simplefilter('ignore')
            _engine_db.serialise(proj, buf)
    except Exception as exc:
        return [_exc_line('serialise', exc)]
    data = buf.getvalue()
    fails: list = []
    try:
        full = _engine_db.unserialise(io.BytesIO(data)).get_fgd()
    except Exception as exc:
        return [_exc_line('unserialise + get_fgd', exc)]
    got = {k: dump_ent(e) for k, e in full.entities.items()}
    for k in exp:
        if k not in got:
            fails.append(f'binary: entity missing: {k}')
        else:
            fails.extend(_fmt_diff('binary ', d) for d in _diff(got[k], exp[k], '', k))
    for k in got:
        if k not in exp:
            fails.append(f'binary: entity unexpected: {k}')
    # Lazy lookups on a second, fresh copy of the same database, in a shuffled order.
    try:
        lazy = _engine_db.unserialise(io.BytesIO(data))
        names = sorted(lazy.get_classnames())
        random.Random(len(data)).shuffle(names)
        for name in names:
            one = dump_ent(lazy.get_ent(name))
            if name in got and one != got[name]:
                fails.extend(_fmt_diff('binary lazy ', d) for d in _diff(one, got[name], '', name))
    except Exception as exc:
        fails.append(_exc_line('lazy get_ent', exc))
    return fails[:limit]


def check_binary(fgd: Any) -> Optional[str]:
    """serialise -> unserialise of the projected FGD (rules B* in the module docstring), full and lazy."""
    fails = _check_binary_all(fgd, limit=1)
    return fails[0] if fails else None


# ---------------------------------------------------------------------------------------------------------------
# bundled database

_ENGINE_REF: Optional[dict] = None


@contextlib.contextmanager
def _fresh_engine_state():
    """Run with srctools.fgd._ENGINE_DB unset, so the next access re-reads fgd.lzma; restore it afterwards."""
    from srctools import fgd as fgd_mod
    saved = fgd_mod._ENGINE_DB
    fgd_mod._ENGINE_DB = None
    try:
        yield fgd_mod
    finally:
        fgd_mod._ENGINE_DB = saved


def _engine_reference() -> dict:
    """classname.casefold() -> dump of the definition from a full load of a fresh database (cached)."""
    global _ENGINE_REF
    if _ENGINE_REF is None:
        from srctools.fgd import FGD
        with _fresh_engine_state():
            full = FGD.engine_dbase()
        _ENGINE_REF = {k: dump_ent(e) for k, e in full.entities.items()}
    return _ENGINE_REF


def check_engine_db_text() -> Optional[str]:
    """The whole bundled database: export(custom_syntax=True) -> parse -> compare all -> export again."""
    from srctools.fgd import FGD
    try:
        with _fresh_engine_state():
            full = FGD.engine_dbase()
    except Exception as exc:
        return _exc_line('engine_dbase', exc)
    fails = _check_text_all(full, True, True, limit=1)
    return fails[0] if fails else None


def engine_db_text_failures(custom_syntax: bool = True, label_spawnflags: bool = True) -> dict:
    """Diagnosis aid: the text round trip per entity (each with its own bases), signature -> [count, example]."""
    from srctools.fgd import FGD
    with _fresh_engine_state():
        full = FGD.engine_dbase()
    found: dict = {}
    for key, ent in full.entities.items():
        mini = FGD()
        todo = [ent]
        while todo:
            cur = todo.pop()
            mini.entities[cur.classname.casefold()] = cur
            todo.extend(b for b in cur.bases if not isinstance(b, str))
        for line in _check_text_all(mini, custom_syntax, label_spawnflags):
            entry = found.setdefault(_signature(line), [0, f'{ent.classname}: {line}'])
            entry[0] += 1
    return found


def check_engine_db_lazy(order_seed: int) -> Optional[str]:
    """Fresh database; EntityDef.engine_def(name) for every class in a seeded order == the full load."""
    from srctools.fgd import FGD, EntityDef
    ref = _engine_reference()
    rng = random.Random(order_seed)
    try:
        with _fresh_engine_state() as fgd_mod:
            names = sorted(EntityDef.engine_classes())
            if fgd_mod._engine_db_stats().count('blocks: 0/') != 1:
                return 'database not fresh: ' + fgd_mod._engine_db_stats().strip()
            if sorted(names) != sorted(ref):
                return f'engine_classes() differs from the full load: {len(names)} vs {len(ref)} names'
            rng.shuffle(names)
            for name in names:
                query = rng.choice([name, name, name.upper(), name.title()])
                ent = EntityDef.engine_def(query)
                for d in _diff(dump_ent(ent), ref[name], '', name):
                    return _fmt_diff('lazy ', d)
                for base in ent.bases:
                    if isinstance(base, str):
                        return f'lazy base left as a string: {name} -> {base!r}'
                    for d in _diff(dump_ent(base), ref[base.classname.casefold()], '', f'{name}>base'):
                        return _fmt_diff('lazy base ', d)
            after = FGD.engine_dbase()
            got = {k: dump_ent(e) for k, e in after.entities.items()}
            if sorted(got) != sorted(ref):
                return 'full load after lazy queries has a different entity set'
            for k in ref:
                for d in _diff(got[k], ref[k], '', k):
                    return _fmt_diff('full load after lazy queries ', d)
    except Exception as exc:
        return _exc_line('engine_def', exc)
    return None


# ---------------------------------------------------------------------------------------------------------------
# generator

_WORDS = [
    'the', 'Entity', 'name', 'of', 'a', 'target', 'to', 'fire', 'when', 'door', 'opens.', '(default)', '0-255',
    'value:', '+bonus', '[note]', '{x}', 'a=b', "it's", '50%', '//', '#tag', '@at', 'semi;colon', 'comma,', '<b>',
    '!', '?', 'path/to/file', '$fixup', '*', 'e\xe9', '\xfc', ':', '+', '-', '1', '[1]', 'Auto', 'input', 'readonly',
]
_TAGS = ['HL2', 'EPISODIC', 'P2', 'CSGO', 'MAPBASE', 'SINCE_ASW', 'UNTIL_L4D', '+USE', '!TF2', '-L4D2', '+MESA', '!P1']
_KEYWORDS = {'input', 'output', '@resources'}

# Risky features: each is known (or suspected) to hit a writer/parser disagreement, so each generated FGD switches
# every one on independently with a small probability - most FGDs then fail for at most one reason.
_FEATURES = [
    'empty_disp',         # display name '' with no default and no description
    'awkward_default',    # defaults with quote / backslash / newline
    'edge_long',          # _write_longstring edge lengths without spaces, splits inside escape pairs
    'alias',              # is_alias entities
    'flags_default',      # default / description on a flags key
    'awkward_choice',     # choices values like '+1', ' 1', 'a"b', empty or quoted/backslashed choice names
    'res_unnamed',        # resource file types without a text keyword
    'tagged_matexcl',     # @MaterialExclusion with two tags
    'empty_tagmap',       # a key whose tag map is {}
    'visgroups',          # @AutoVisgroup entries (FGD level)
]
_FEATURE_P = 0.10


def _words(rng: random.Random, n: int) -> str:
    return ' '.join(rng.choice(_WORDS) for _ in range(n))


def _long_benign(rng: random.Random) -> str:
    target = rng.choice([990, 1005, 1100, 2050, 2600])
    parts = []
    size = 0
    while size < target:
        w = rng.choice(_WORDS) if rng.random() < 0.9 else rng.choice(['line\n', 'say "x"', 'C:\\dir\\n', '\tTab'])
        parts.append(w)
        size += len(w) + 1
    return ' '.join(parts)


def _edge_long(rng: random.Random) -> str:
    k = rng.randrange(8)
    if k == 0:
        return 'a' * rng.choice([999, 1000, 1001, 1002, 1999, 2000, 2001])
    if k in (1, 2, 3):
        x = rng.choice(['\n', '"', '\\', "'", '\t'])
        return 'a' * rng.choice([997, 998, 999, 1000]) + x + 'b' * rng.choice([0, 1, 50, 1200])
    if k == 4:
        return 'ab\n' + 'a' * rng.choice([995, 996, 997]) + rng.choice(['\n', '"']) + 'tail'
    if k == 5:
        return '\n' * rng.choice([499, 500, 501, 600])
    if k == 6:
        return ('x' * 199 + ' ') * 5 + 'y' * rng.choice([0, 1, 999, 1000, 1001])
    return 'q' * 990 + '"' * rng.choice([4, 5, 6, 11]) + 'r' * 30


def _text(rng: random.Random, feats: set, allow_empty: bool = True) -> str:
    r = rng.random()
    if 'edge_long' in feats and r < 0.25:
        return _edge_long(rng)
    if r < 0.15:
        return '' if allow_empty else 'X'
    if r < 0.62:
        return _words(rng, rng.randint(1, 6))
    if r < 0.76:
        lines = [_words(rng, rng.randint(0, 4)) for _ in range(rng.randint(2, 4))]
        return '\n'.join(lines) + rng.choice(['', '\n'])
    if r < 0.84:
        return rng.choice(['say "hello" now', '"', '""', 'ends with "', '"starts', "'single'", "it''s"])
    if r < 0.92:
        return rng.choice(['C:\\path\\new\\table', 'tab\there', 'back\\', '\\', '\\n literal', 'cr\rlf', '\\"', 'a\\\\b',
                           'bell\a\b\f\v'])
    if r < 0.97:
        return _long_benign(rng)
    return rng.choice([' lead', 'trail ', '  ', ' : ', '+', '[HL2]', '= [', '//comment', '@PointClass'])


class _Names:
    def __init__(self, rng: random.Random) -> None:
        self.rng, self.used = rng, set()

    def new(self, stems: list, style: str = 'lower') -> str:
        while True:
            name = self.rng.choice(stems)
            if self.rng.random() < 0.6 or name.casefold() in self.used:
                name += self.rng.choice(['_', '']) + str(self.rng.randrange(100))
            if style == 'lower':
                name = name.lower()
            if name.casefold() not in self.used and name.casefold() not in _KEYWORDS:
                self.used.add(name.casefold())
                return name


def _tagset(rng: random.Random) -> frozenset:
    out: dict = {}
    for t in rng.sample(_TAGS, rng.randint(1, 3)):
        out.setdefault(t.lstrip('+-!'), t)
    return frozenset(out.values())


def _tag_variants(rng: random.Random) -> list:
    """Tag sets for the variants of one key: usually just the untagged one."""
    r = rng.random()
    if r < 0.70:
        return [frozenset()]
    if r < 0.80:
        return [_tagset(rng)]
    sets = [frozenset()] if rng.random() < 0.6 else []
    while len(sets) < rng.randint(2, 3):
        ts = _tagset(rng)
        if ts not in sets:
            sets.append(ts)
    rng.shuffle(sets)
    return sets


_DEFAULTS = {
    'INT': ['0', '1', '-1', '100', '007', '-'], 'FLOAT': ['0.5', '-1.25', '1e3', '0'], 'BOOL': ['0', '1', '', 'yes', 'No'],
    'VEC': ['0 0 0', '1 -2 3.5'], 'ANGLES': ['0 90 0'], 'COLOR_255': ['255 255 255', '255 128 0 200'],
    'COLOR_1': ['1 1 1', '0.5 0.5 0.5 1'], 'STR_MODEL': ['models/props/box.mdl'], 'STR_SOUND': ['Weapon.Fire'],
    'STR_MATERIAL': ['tools/toolsnodraw'], 'CHOICES': ['0', '1', 'models/a.mdl', ''],
}


def _gen_kv(rng: random.Random, feats: set, name: str, vtype: Any) -> Any:
    from srctools.fgd import KVDef, ValueTypes
    tname = _type_name(vtype)
    disp = _text(rng, feats, allow_empty=False) if rng.random() < 0.85 else ''
    default = rng.choice(_DEFAULTS.get(tname, ['', '', 'value', 'some text', '12', '@name', 'a b', ' ']))
    if 'awkward_default' in feats and rng.random() < 0.4:
        default = rng.choice(['a"b', '"', 'C:\\dir', 'back\\', 'x\ny', "it's", '\\n', 'tab\tx'])
    desc = _text(rng, feats) if rng.random() < 0.6 else ''
    val_list = None
    if vtype is ValueTypes.SPAWNFLAGS:
        if 'flags_default' not in feats or rng.random() < 0.5:
            default = desc = ''
        elif not default and not desc:
            default = '3'
        disp = name if rng.random() < 0.5 else disp
        val_list = []
        for bit in sorted(rng.sample(range(32), rng.randint(0, 5))):
            fname = rng.choice([
                _words(rng, rng.randint(1, 3)), '', 'two\nlines', ' leading', f'[{1 << bit}] own label', '[1] x',
                'say "hi"', 'back\\slash', '[', 'trailing ',
            ])
            val_list.append((1 << bit, fname, rng.random() < 0.5, _tagset(rng) if rng.random() < 0.2 else frozenset()))
    elif vtype is ValueTypes.CHOICES:
        val_list = []
        for _ in range(rng.randint(0, 5)):
            value = rng.choice(['0', '1', '2', '-1', '0.5', 'models/a.mdl', 'yes', 'No way', '1e5', '', '10'])
            cname = rng.choice([_words(rng, rng.randint(1, 3)), 'Plain', 'two\nlines', "it's", ' : ', '[HL2]'])
            if 'awkward_choice' in feats and rng.random() < 0.5:
                if rng.random() < 0.5:
                    value = rng.choice(['+1', '1e+5', ' 1', '1 ', 'nan', '1_0', 'a"b', 'back\\', 'x\ny', 'infinity'])
                else:
                    cname = rng.choice(['', 'say "hi"', 'back\\slash', 'C:\\new', 'end\\'])
            val_list.append((value, cname, _tagset(rng) if rng.random() < 0.2 else frozenset()))
    if not disp and not desc and vtype is not ValueTypes.SPAWNFLAGS and 'empty_disp' not in feats:
        if not default or (vtype is ValueTypes.BOOL):
            if vtype is not ValueTypes.BOOL:  # a boolean always gets a default written, so '' is safe there
                disp = 'Disp'
    return KVDef(name, vtype, disp, default, desc, val_list, rng.random() < 0.15, rng.random() < 0.15)


def _gen_helpers(rng: random.Random, kv_names: list) -> list:
    from srctools import fgd as F
    from srctools.math import Vec

    def key() -> str:
        return rng.choice(kv_names + ['origin', 'angles', 'radius', '_light', 'target', 'model'])

    def col() -> tuple:
        return tuple(float(rng.choice([0, 64, 128, 255, 0.5, 12.25])) for _ in range(3))

    def vec() -> Any:
        return Vec(*(rng.choice([-16, -8, 0, 8, 16, 0.5, 72, -1.25]) for _ in range(3)))

    makers = [
        lambda: F.HelperHalfGridSnap(),
        lambda: F.HelperSize(vec(), vec()),
        lambda: F.HelperBBox(*Vec.bbox(vec(), vec())),
        lambda: F.HelperRenderColor(*col()),
        lambda: F.HelperSphere(*rng.choice([(255.0, 255.0, 255.0), col()]), rng.choice(['radius', key()])),
        lambda: F.HelperLine(*col(), key(), key(), *rng.choice([(None, None), (key(), key())])),
        lambda: F.HelperCylinder(*col(), key(), key(), *rng.choice([
            (None, None, None, None), (None, None, key(), None), (key(), key(), key(), None),
            (key(), key(), key(), key()),
        ])),
        lambda: F.HelperFrustum(
            rng.choice(['_fov', 90.0, 45.5]), rng.choice(['_nearplane', 1.0]), rng.choice(['_farz', 1024.0]),
            rng.choice(['_light', (255.0, 128.0, 0.0)]), rng.choice([-1.0, 1.0, 'pitchscale'])),
        lambda: F.HelperOrigin(rng.choice(['origin', key()])),
        lambda: F.HelperVecLine(rng.choice(['origin', key()])),
        lambda: F.HelperBrushSides(rng.choice(['sides', key()])),
        lambda: F.HelperBoundingBox(key(), key()),
        lambda: F.HelperOrientedBBox(key(), key()),
        lambda: F.HelperSweptPlayerHull(),
        lambda: F.HelperSprite(rng.choice([None, 'editor/obsolete', 'editor/light.vmt', 'sprites/glow 01'])),
        lambda: F.HelperEnvSprite(rng.choice([None, 'sprites/glow01'])),
        lambda: F.HelperModel(rng.choice([None, 'models/editor/camera.mdl', '"models/with space.mdl"'])),
        lambda: F.HelperModelProp(rng.choice([None, 'models/props/box.mdl'])),
        lambda: F.HelperModelLight(rng.choice([None, 'models/editor/spot.mdl'])),
        lambda: F.HelperInstance(), lambda: F.HelperDecal(), lambda: F.HelperOverlay(),
        lambda: F.HelperOverlayTransition(), lambda: F.HelperLight(),
        lambda: F.HelperLightSpot(*rng.choice([
            ('_inner_cone', '_cone', '_light', 1.0), (key(), '_cone', '_light', 1.0), (key(), key(), '_light', 1.0),
            (key(), key(), key(), 1.0), (key(), key(), key(), -1.0), ('_inner_cone', '_cone', '_light', 0.5),
        ])),
        lambda: F.HELPER_IMPL[F.HelperTypes.ENT_LIGHT_CONE_BLACK_MESA](key(), key(), key()),
        lambda: F.HelperRope(rng.choice([None, key()])),
        lambda: F.HelperTrack(), lambda: F.HelperBreakableSurf(), lambda: F.HelperWorldText(),
        lambda: F.HELPER_IMPL[F.HelperTypes.ENT_CATAPULT](),
        lambda: F.HelperExtAppliesTo(rng.sample(['HL2', 'P2', '!CSGO', '+MAPBASE', 'since_ASW'], rng.randint(0, 3))),
        lambda: F.HelperExtOrderBy(rng.sample(kv_names + ['missing'], rng.randint(0, min(3, len(kv_names) + 1)))),
        lambda: F.UnknownHelper(rng.choice(['customhelper', 'lightprop2', 'my_helper']),
                                rng.sample(['a', 'b c', '1 2 3', '"q/r"', 'x.y'], rng.randint(0, 3))),
    ]
    return [rng.choice(makers)() for _ in range(rng.choice([0, 0, 1, 1, 2, 3, 5]))]


def _gen_resources(rng: random.Random, feats: set) -> Any:
    from srctools.fgd import RESTYPE_TO_NAME, Resource
    from srctools.const import FileType
    r = rng.random()
    if r < 0.45:
        return ()
    if r < 0.55:
        return []
    types = list(RESTYPE_TO_NAME)
    if 'res_unnamed' in feats:
        types += [FileType.SOUNDSCRIPT, FileType.PARTICLE_FILE] * 3
    out = []
    for _ in range(rng.randint(1, 4)):
        fname = rng.choice(['models/props/box.mdl', 'Weapon.Fire', 'with space.vmt', '', 'quo"te', 'back\\slash.mdl',
                            'npc_citizen', 'scripts/x.nut', 'tab\tname'])
        out.append(Resource(fname, rng.choice(types), _tagset(rng) if rng.random() < 0.3 else frozenset()))
    return out


def _gen_ent(rng: random.Random, feats: set, names: _Names, etype: Any, earlier: list, every_type: bool) -> Any:
    from srctools.fgd import EntityDef, IODef, ValueTypes
    ent = EntityDef(etype, names.new(['info_thing', 'Func_Door', 'npc_test', 'logic_x', 'BaseThing', 'trigger_q'],
                                     style='mixed'))
    ent.desc = _text(rng, feats) if rng.random() < 0.6 else ''
    if earlier and rng.random() < 0.5:
        ent.bases = rng.sample(earlier, rng.randint(1, min(2, len(earlier))))
        if 'alias' in feats and rng.random() < 0.6:
            ent.bases = ent.bases[:1]
            ent.is_alias = True
    local = _Names(rng)
    vtypes = list(ValueTypes)
    kv_types = vtypes[:] if every_type else [rng.choice(vtypes) for _ in range(rng.randint(0, 6))]
    if not every_type and rng.random() < 0.15:
        kv_types.append(rng.choice(['my_custom', 'Vector2D']))
    for vtype in kv_types:
        name = local.new(['health', 'Target', 'spawnflags', 'model', 'skin', 'StartDisabled', 'report', 'readonly',
                          'message', 'base'], style='mixed')
        tmap = {}
        for tags in _tag_variants(rng):
            tmap[tags] = _gen_kv(rng, feats, name, vtype)
        ent.keyvalues[name.casefold()] = tmap
    if 'empty_tagmap' in feats and rng.random() < 0.5:
        ent.keyvalues[local.new(['ghost'])] = {}
    keys = list(ent.keyvalues)
    r = rng.random()
    if r < 0.5:
        ent.kv_order = keys[:]
    elif r < 0.8:
        ent.kv_order = rng.sample(keys, len(keys))
    else:
        ent.kv_order = rng.sample(keys, len(keys) // 2) + ['not_a_key']
    for cat, stems in ((ent.inputs, ['Enable', 'SetValue', 'Kill', 'Open', 'input']),
                       (ent.outputs, ['OnTrigger', 'OnOpen', 'OutValue', 'output'])):
        io_types = vtypes[:] if every_type else [rng.choice(vtypes) for _ in range(rng.randint(0, 4))]
        if not every_type and rng.random() < 0.1:
            io_types.append('my_custom')
        io_names = _Names(rng)
        for vtype in io_types:
            name = io_names.new(stems, style='mixed')
            cat[name.casefold()] = {
                tags: IODef(name, vtype, _text(rng, feats) if rng.random() < 0.5 else '')
                for tags in _tag_variants(rng)
            }
    ent.helpers = _gen_helpers(rng, [kv.name for tmap in ent.keyvalues.values() for kv in tmap.values()][:6])
    ent.resources = _gen_resources(rng, feats)
    return ent


def gen_fgd(rng: random.Random) -> Any:
    """A random FGD (see the module docstring for what is restricted)."""
    from pathlib import PurePosixPath
    from srctools.fgd import FGD, AutoVisgroup, EntityTypes
    feats = {f for f in _FEATURES if rng.random() < _FEATURE_P}
    fgd = FGD()
    fgd.c16_features = sorted(feats)  # for reports only
    names = _Names(rng)
    etypes = list(EntityTypes)
    rng.shuffle(etypes)
    ents: list = []
    count = rng.randint(1, 5)
    every = rng.randrange(count) if rng.random() < 0.2 else -1
    for i in range(count):
        ent = _gen_ent(rng, feats, names, etypes[i % len(etypes)] if rng.random() < 0.8 else rng.choice(etypes),
                       ents, i == every)
        ents.append(ent)
        fgd.entities[ent.classname.casefold()] = ent
    if rng.random() < 0.2:
        fgd.map_size_min, fgd.map_size_max = rng.choice([(-16384, 16384), (-32768, 32768), (0, 4096)])
    if rng.random() < 0.15:
        fgd.mat_exclusions = {PurePosixPath(p) for p in rng.sample(['debug', 'editor', 'tools/sub dir', 'vgui'], 2)}
    if rng.random() < 0.1:
        fgd.tagged_mat_exclusions[frozenset({'P2'})].add(PurePosixPath('elevator'))
    if 'tagged_matexcl' in feats:
        fgd.tagged_mat_exclusions[frozenset({'HL2', 'EPISODIC'})].add(PurePosixPath('models/combine'))
    if 'visgroups' in feats:
        cls = [e.classname for e in ents]
        fgd.auto_visgroups['brush ents'] = AutoVisgroup('Brush Ents', 'Auto', set(rng.sample(cls, 1)))
        if rng.random() < 0.5:
            fgd.auto_visgroups['triggers'] = AutoVisgroup('Triggers', 'Brush Ents', set(cls[:2]))
    return fgd


# ---------------------------------------------------------------------------------------------------------------
# targeted corner cases

def _one(*kvs: Any, ios: tuple = (), **ent_kw: Any) -> Any:
    """FGD with one point entity 'c16_ent' holding these keyvalues (untagged) and (kind, IODef) pairs."""
    from srctools.fgd import FGD, EntityDef, EntityTypes
    fgd = FGD()
    ent = EntityDef(EntityTypes.POINT, 'c16_ent', **ent_kw)
    for kv in kvs:
        ent.keyvalues[kv.name.casefold()] = {frozenset(): kv}
        ent.kv_order.append(kv.name.casefold())
    for kind, io_def in ios:
        getattr(ent, kind)[io_def.name.casefold()] = {frozenset(): io_def}
    fgd.entities['c16_ent'] = ent
    return fgd


def _kv(name: str, tname: str = 'STRING', disp: str = 'Disp', default: str = '', desc: str = '', vals: Any = None,
        **kw: Any) -> Any:
    from srctools.fgd import KVDef, ValueTypes
    return KVDef(name, ValueTypes[tname] if tname.isupper() else tname, disp, default, desc, vals, **kw)


def _t_alias() -> Any:
    from srctools.fgd import EntityDef, EntityTypes
    fgd = _one(_kv('a'))
    fgd.entities['c16_alias'] = EntityDef(EntityTypes.POINT, 'c16_alias', bases=[fgd['c16_ent']], is_alias=True)
    return fgd


def _t_tag_dupes() -> Any:
    fgd = _one()
    ent = fgd['c16_ent']
    ent.keyvalues['skin'] = {
        frozenset({'HL2'}): _kv('skin', 'INT', 'Skin (HL2)', '0'),
        frozenset({'P2', '+USE'}): _kv('skin', 'CHOICES', 'Skin (P2)', '1', '', [('0', 'A', frozenset()), ('1', 'B', frozenset({'!CSGO'}))]),
        frozenset(): _kv('skin', 'STRING', 'Skin', 'x', 'generic'),
    }
    ent.kv_order = ['skin']
    return fgd


def _t_resources(*types: str) -> Callable[[], Any]:
    def make() -> Any:
        from srctools.const import FileType
        from srctools.fgd import Resource
        return _one(_kv('a'), resources=[Resource('some/file', FileType[t], frozenset({'+HL2'})) for t in types])
    return make


def _t_matexcl() -> Any:
    from pathlib import PurePosixPath
    fgd = _one(_kv('a'))
    fgd.tagged_mat_exclusions[frozenset({'HL2', 'EPISODIC'})].add(PurePosixPath('models/combine'))
    return fgd


def _t_empty_tagmap() -> Any:
    fgd = _one(_kv('a'), _kv('b', 'INT', 'B', '1'))
    fgd['c16_ent'].keyvalues['ghost'] = {}
    fgd['c16_ent'].inputs['ghostin'] = {}
    return fgd


def _t_orderby() -> Any:
    from srctools.fgd import HelperExtOrderBy
    fgd = _one(_kv('a'), _kv('b'), _kv('c'), helpers=[HelperExtOrderBy(['C', 'a'])])
    return fgd


def _t_all_io_types() -> Any:
    from srctools.fgd import IODef, ValueTypes
    ios = []
    for vt in ValueTypes:
        ios.append(('inputs', IODef('In' + vt.name, vt, 'desc')))
        ios.append(('outputs', IODef('Out' + vt.name, vt)))
    return _one(_kv('a'), ios=tuple(ios))


def _t_io(tname: str, desc: str) -> Callable[[], Any]:
    def make() -> Any:
        from srctools.fgd import IODef, ValueTypes
        typ = ValueTypes[tname] if tname.isupper() else tname
        return _one(ios=(('inputs', IODef('DoIt', typ, desc)), ('outputs', IODef('OnIt', typ, desc))))
    return make


def _t_custom() -> Any:
    fgd = _t_io('my_custom', 'custom I/O')()
    fgd['c16_ent'].keyvalues['a'] = {frozenset(): _kv('a', 'Vector2D', 'A', 'x')}
    return fgd


def _t_visgroups() -> Any:
    from srctools.fgd import AutoVisgroup
    fgd = _one(_kv('a'))
    fgd.auto_visgroups['brush ents'] = AutoVisgroup('Brush Ents', 'Auto', {'c16_ent'})
    fgd.auto_visgroups['triggers'] = AutoVisgroup('Triggers', 'Brush Ents', {'c16_ent'})
    return fgd


_SF = [(1, 'One', True, frozenset()), (4, 'Four', False, frozenset())]

TARGETED: list = [
    ('plain_baseline', lambda: _one(_kv('a', 'STRING', 'A', 'dflt', 'desc'), desc='An entity.')),
    ('empty_disp_with_default', lambda: _one(_kv('a', disp='', default='x'), _kv('b'))),
    ('empty_disp_with_desc_only', lambda: _one(_kv('a', disp='', desc='text'), _kv('b'))),
    ('empty_disp_alone_then_key', lambda: _one(_kv('a', disp=''), _kv('b'))),
    ('empty_disp_alone_last_key', lambda: _one(_kv('a'), _kv('b', disp=''))),
    ('empty_disp_alone_choices', lambda: _one(_kv('a', 'CHOICES', '', vals=[('0', 'Zero', frozenset())]))),
    ('empty_disp_bool', lambda: _one(_kv('a', 'BOOL', ''), _kv('b'))),
    ('desc_only', lambda: _one(_kv('a', default='', desc='only a description'))),
    ('everything_empty_but_disp', lambda: _one(_kv('a'))),
    ('bool_default_aliases', lambda: _one(_kv('a', 'BOOL', 'A', 'yes'), _kv('b', 'BOOL', 'B', 'No'), _kv('c', 'BOOL', 'C'))),
    ('longstring_999', lambda: _one(_kv('a', desc='a' * 999), desc='e' * 999)),
    ('longstring_1000', lambda: _one(_kv('a', desc='a' * 1000), desc='e' * 1000)),
    ('longstring_1001', lambda: _one(_kv('a', desc='a' * 1001), desc='e' * 1001)),
    ('longstring_2001_nospace', lambda: _one(_kv('a', disp='d' * 2001, desc='a' * 2001))),
    ('longstring_spaces', lambda: _one(_kv('a', desc='word ' * 500), desc='word ' * 500)),
    ('longstring_newlines', lambda: _one(_kv('a', desc='some line\n' * 250), desc='line\n' * 400)),
    ('split_inside_newline_escape', lambda: _one(_kv('a', desc='a' * 999 + '\n' + 'b' * 50))),
    ('split_inside_newline_escape_entdesc', lambda: _one(_kv('a'), desc='a' * 999 + '\n' + 'b' * 50)),
    ('split_inside_quote_escape', lambda: _one(_kv('a', desc='a' * 999 + '"' + 'b' * 50))),
    ('split_inside_backslash_escape', lambda: _one(_kv('a', desc='a' * 999 + '\\' + 'b' * 50))),
    ('split_after_early_newline', lambda: _one(_kv('a', desc='ab\n' + 'a' * 996 + '\n' + 'tail'))),
    ('split_before_escape_ok', lambda: _one(_kv('a', desc='a' * 1000 + '\n' + 'b' * 50))),
    ('split_in_io_desc', _t_io('VOID', 'a' * 999 + '\t' + 'b' * 5)),
    ('split_in_flag_name', lambda: _one(_kv('spawnflags', 'SPAWNFLAGS', 'spawnflags', vals=[(1, 'n' * 995 + '"' + 'z', True, frozenset())]))),
    # (a keyvalue literally named `input` / `output` cannot be expressed in the FGD syntax - the line would be an I/O
    #  definition - so it is a representability restriction, not a corner case)
    ('key_named_readonly_report', lambda: _one(_kv('readonly', 'INT', 'R', '1', readonly=True), _kv('report', reportable=True))),
    ('choices_empty_strings', lambda: _one(_kv('a', 'CHOICES', 'A', '', '', [('', 'Nothing', frozenset()), ('x', '', frozenset()), ('y', 'Y', frozenset())]))),
    ('choices_empty_name_last', lambda: _one(_kv('a', 'CHOICES', 'A', '', '', [('x', '', frozenset())]))),
    ('choices_value_plus', lambda: _one(_kv('a', 'CHOICES', 'A', '', '', [('+1', 'Plus', frozenset())]))),
    ('choices_value_exponent_plus', lambda: _one(_kv('a', 'CHOICES', 'A', '', '', [('1e+5', 'Big', frozenset())]))),
    ('choices_value_padded_number', lambda: _one(_kv('a', 'CHOICES', 'A', '', '', [(' 1', 'Padded', frozenset())]))),
    ('choices_value_quote', lambda: _one(_kv('a', 'CHOICES', 'A', '', '', [('a"b', 'Quote', frozenset())]))),
    ('choices_value_backslash', lambda: _one(_kv('a', 'CHOICES', 'A', '', '', [('dir\\', 'Dir', frozenset())]))),
    ('choices_name_quote', lambda: _one(_kv('a', 'CHOICES', 'A', '', '', [('0', 'say "hi"', frozenset())]))),
    ('choices_name_backslash', lambda: _one(_kv('a', 'CHOICES', 'A', '', '', [('0', 'C:\\new\\table', frozenset())]))),
    ('choices_name_trailing_backslash', lambda: _one(_kv('a', 'CHOICES', 'A', '', '', [('0', 'dir\\', frozenset())]))),
    ('choices_none_list', lambda: _one(_kv('a', 'CHOICES', 'A', '0'))),
    ('flags_plain', lambda: _one(_kv('spawnflags', 'SPAWNFLAGS', 'spawnflags', vals=_SF))),
    ('flags_other_disp_name', lambda: _one(_kv('spawnflags', 'SPAWNFLAGS', 'Flags!', vals=_SF))),
    ('flags_with_default', lambda: _one(_kv('spawnflags', 'SPAWNFLAGS', 'spawnflags', '5', vals=_SF))),
    ('flags_with_desc', lambda: _one(_kv('spawnflags', 'SPAWNFLAGS', 'spawnflags', '', 'about flags', vals=_SF))),
    ('flags_name_own_label', lambda: _one(_kv('spawnflags', 'SPAWNFLAGS', 'spawnflags', vals=[(2, '[2] Two', True, frozenset()), (8, '[2] not mine', False, frozenset())]))),
    ('flags_name_empty_and_spaces', lambda: _one(_kv('spawnflags', 'SPAWNFLAGS', 'spawnflags', vals=[(1, '', True, frozenset()), (2, '  lead', False, frozenset())]))),
    ('flags_bit31', lambda: _one(_kv('spawnflags', 'SPAWNFLAGS', 'spawnflags', vals=[(1 << 31, 'Top', True, frozenset())]))),
    ('default_quote', lambda: _one(_kv('a', default='say "hi"'))),
    ('default_trailing_backslash', lambda: _one(_kv('a', default='C:\\dir\\'), _kv('b'))),
    ('default_backslash_n', lambda: _one(_kv('a', default='C:\\new'))),
    ('default_newline', lambda: _one(_kv('a', default='x\ny'))),
    ('default_digits_dash', lambda: _one(_kv('a', 'INT', 'A', '-'), _kv('b', 'INT', 'B', '007'), _kv('c', 'STRING', 'C', '1-2'))),
    ('default_space', lambda: _one(_kv('a', default=' '))),
    ('alias', _t_alias),
    ('tag_duplicates_of_one_key', _t_tag_dupes),
    ('resources_empty_list', lambda: _one(_kv('a'), resources=[])),
    ('resources_named_types', _t_resources('MODEL', 'MATERIAL', 'GAME_SOUND', 'ENTITY', 'ENTCLASS_FUNC', 'GENERIC', 'PARTICLE', 'VSCRIPT_SQUIRREL', 'TEXTURE', 'CHOREO', 'BREAKABLE_CHUNK', 'WEAPON_SCRIPT')),
    ('resources_soundscript', _t_resources('SOUNDSCRIPT')),
    ('resources_particle_file', _t_resources('PARTICLE_FILE')),
    ('tagged_material_exclusion_two_tags', _t_matexcl),
    ('empty_tag_map', _t_empty_tagmap),
    ('orderby_helper', _t_orderby),
    ('all_io_types', _t_all_io_types),
    ('custom_types', _t_custom),
    ('auto_visgroups', _t_visgroups),
    ('io_desc_quote_newline', _t_io('STRING', 'say "x"\nnext')),
    ('desc_with_operators', lambda: _one(_kv('a', 'STRING', ' : ', '+', ' = [ ] // @x'), desc='+ : "q" [tag] //')),
    ('desc_trailing_backslash', lambda: _one(_kv('a', desc='ends with \\'), desc='ends with \\')),
    ('desc_control_chars', lambda: _one(_kv('a', desc='\t\a\b\f\v\r'))),
]


# ---------------------------------------------------------------------------------------------------------------
# runner

def _signature(line: str) -> str:
    sig = line.split(' at ')[0].split(': got ')[0]
    sig = re.sub(r'line \d+.*', 'line N', sig).split(' in [')[0]
    if " ('" in sig:  # long quoted payloads are cut off by _exc_line; keep only the fixed part and the location kind
        sig = sig.split(" ('")[0] + ' ...' + (' (in ' + line.split(' (in ')[1].split(')')[0] + ')' if ' (in ' in line else '')
    sig = re.sub(r"'[^']*'|\"[^\"]*\"", '<s>', sig)
    return re.sub(r'(?<!\[)\d+', 'N', sig)[:120]


def _run_all(fgd: Any) -> list:
    """(check label, failure line) for every check of one FGD."""
    out = []
    for custom in (True, False):
        for label in (True, False):
            for line in _check_text_all(fgd, custom, label):
                out.append((f'text custom_syntax={custom} label_spawnflags={label}', line))
    for line in _check_binary_all(fgd):
        out.append(('binary', line))
    return out


def main(argv: list) -> int:
    import time
    n = int(argv[1]) if len(argv) > 1 else 500
    found: dict = {}

    def record(where: str, size: int, label: str, line: str) -> None:
        custom = 'custom_syntax=True' if 'custom_syntax=True' in label else 'custom_syntax=False' if 'text' in label else 'binary'
        sig = f'[{custom}] {_signature(line)}'
        entry = found.setdefault(sig, {'count': 0, 'size': 1 << 60, 'example': ''})
        entry['count'] += 1
        if size < entry['size']:
            entry['size'], entry['example'] = size, f'{where} ({label}): {line}'

    t0 = time.time()
    clean = 0
    for seed in range(n):
        fgd = gen_fgd(random.Random(seed))
        fails = _run_all(fgd)
        clean += not fails
        size = sum(len(e.keyvalues) + len(e.inputs) + len(e.outputs) + 1 for e in fgd)
        for label, line in fails:
            record(f'seed {seed} features={fgd.c16_features}', size, label, line)
    t1 = time.time()
    print(f'generated: {n} FGDs, {clean} clean, {(t1 - t0) * 1000 / max(n, 1):.1f} ms per FGD (gen + 4 text + 1 binary check)')
    print('\ntargeted:')
    for name, make in TARGETED:
        try:
            fails = _run_all(make())
        except Exception as exc:
            fails = [('HARNESS', _exc_line('targeted case', exc))]
        verdict = 'ok' if not fails else 'FAIL'
        print(f'  {name:38s} {verdict}')
        seen = set()
        for label, line in fails:
            short_label = label.replace('custom_syntax=', 'cs=').replace('label_spawnflags=', 'ls=')
            if (key := _signature(line) + short_label.split(' ls=')[0]) not in seen:
                seen.add(key)
                print(f'      {short_label}: {line[:200]}')
            record(f'targeted {name}', 0, label, line)
    print('\nbundled database:')
    t2 = time.time()
    print('  check_engine_db_text():', check_engine_db_text(), f'[{time.time() - t2:.1f} s]')
    t2 = time.time()
    per_ent = engine_db_text_failures()
    print(f'  per-entity text round trip, distinct failures [{time.time() - t2:.1f} s]:')
    for sig, (count, example) in sorted(per_ent.items()):
        print(f'      {count:5d} x {sig}\n              e.g. {example[:220]}')
    for seed in range(3):
        t2 = time.time()
        print(f'  check_engine_db_lazy({seed}):', check_engine_db_lazy(seed), f'[{time.time() - t2:.1f} s]')
    print(f'\ndistinct failure signatures: {len(found)}')
    for sig, entry in sorted(found.items()):
        print(f'  {entry["count"]:5d} x {sig}\n          e.g. {entry["example"][:260]}')
    return 1 if found else 0


if __name__ == '__main__':
    sys.exit(main(sys.argv))
