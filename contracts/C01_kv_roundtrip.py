"""C01 -- KeyValues1 serialise/parse round trip preserves the whole tree.

Proof tier (pyvc, real code):
  serialise.*   Keyvalues._serialise against a recursive text specification SER: a leaf writes
                cur_indent "ESC(name)" "ESC(value)" NL; a block writes cur_indent "ESC(name)" NL, the open brace, SER of
                every child (one arbitrary iteration of the loop + whole runs for widths 0..3) and the close brace;
                the root writes only its children.  ESC is escape_text, used through its C02 contract.  Nothing is
                written that is not one of: indentation, a quoted escaped string, a brace line.  _serialise stores to
                no attribute (frame).
  parse.*       one arbitrary iteration of the token loop of Keyvalues.parse for each token pattern the writer emits
                (name value NL / name NL / { / } / NL), from an arbitrary parser state: the node appended, the block
                stack and the expectation flag are exactly what the tree grammar requires.
The tokenizer turns `"ESC(s)"` into STRING(s) and skips indentation (C02, C03).  The all-trees statement is the
structural induction over the tree using SER (writer) and the iteration lemmas (parser) - a fixed meta-argument.
Bounded tier: generated trees x serialise options x parse input kinds on the real code.
"""
import ast
import io
import random

import z3

from pyvc import extract, smt
from pyvc.driver import bounded
from pyvc.symexec import Builtin, ExcVal, Obj, PList, PyRaise, UninterpFn, Unsupported, to_z3
from pyvc.vc import Contract, Lemma, Registry, native

REG = Registry()
PROP = 'C01'
LEVEL = 'proof'
M = 'keyvalues'
EXPLANATION = ('Writer: every path of Keyvalues._serialise is shown to emit exactly the recursive specification SER '
               '(quoted, escaped name and value for a leaf; quoted escaped name, brace lines and the children\'s SER for a '
               'block). Parser: each token pattern that SER produces is shown, from an arbitrary loop state, to append '
               'exactly the corresponding node / push / pop the block stack. With C02 (a quoted escape_text(s) tokenizes '
               'to STRING s) and C03 (chunking does not matter) the round trip for all trees is the structural induction '
               'over the tree. The induction itself, and parse on file objects, are exercised by the bounded tier.')
TRUSTED = ['escape_text / Tokenizer string contract (proved under C02), chunk independence (C03)',
           'structural induction over the tree (meta-argument over the iteration lemmas)',
           'io.StringIO.write appends; f-strings concatenate']
UNVERIFIED = ['_tokenizer.pyx (Cython twin)', 'Keyvalues.export (deprecated generator twin of _serialise)']
TIMEOUT_MS = {'quick': 30000, 'thorough': 120000}

S = z3.StringSort()
ESC = UninterpFn('escape_text', S, S)
# SER(child id, indent, open_brace, close_brace, cur_indent): the text the callee writes (the callee's contract)
SER = z3.Function('SER', z3.IntSort(), S, S, S, S, S)


def _file(I):
    f = Obj('File', {'text': z3.StringVal('')}, module='')

    def write(s):
        f.fields['text'] = z3.Concat(f.fields['text'], to_z3(s))
        return None
    f.fields['write'] = Builtin('write', write)
    return f


def _child(I, k, file):
    """A child node used through the contract of _serialise: it appends SER(k, ...) to the file."""
    c = Obj('Keyvalues', {'_real_name': z3.String(f'child{k}_name'), '_folded_name': None, '_value': None, 'line_num': None,
                          'ident': k}, module=M)

    def ser(file_, indent, open_brace, close_brace, cur_indent):
        if file_ is not file:
            raise Unsupported('child serialised into another file')
        file.fields['write'].fn(SER(z3.IntVal(k), to_z3(indent), to_z3(open_brace), to_z3(close_brace), to_z3(cur_indent)))
        return None
    c.fields['_serialise'] = Builtin('_serialise', ser)
    return c


WS_NAMES = ('indent', 'cur_indent', 'child_indent', 'brace_indent_open', 'brace_indent_close')


def _common(h):
    """Options as _serialise receives them from serialise() (see serialise.options): arbitrary indentation strings, and
    brace lines made of indentation + the brace + a line feed."""
    h.I.global_overrides = {'escape_text': ESC}
    file = _file(h.I)
    return file, dict(indent=h.str('indent'), open_brace=z3.Concat(h.str('brace_indent_open'), z3.StringVal('{\n')),
                      close_brace=z3.Concat(h.str('brace_indent_close'), z3.StringVal('}\n')),
                      cur_indent=h.str('cur_indent'))


def _no_ws(expr):
    """The text with every indentation parameter replaced by the empty string: two texts that agree after this
    differ at most in indentation (the property is 'independent of the indentation options apart from whitespace')."""
    expr = to_z3(expr)
    return z3.simplify(z3.substitute(expr, *[(z3.String(n), z3.StringVal('')) for n in WS_NAMES]))


SER_LEAF = REG.add(Contract(f'{M}:Keyvalues._serialise', PROP, name='serialise.leaf', modular=False))


@SER_LEAF.setup
def _leaf(h):
    file, opts = _common(h)
    node = Obj('Keyvalues', {'_real_name': h.str('name'), '_folded_name': None, '_value': h.str('value'), 'line_num': None},
               module=M)
    return {'args': [node, file, opts['indent'], opts['open_brace'], opts['close_brace'], opts['cur_indent']],
            'ghost': dict(NAME=node.fields['_real_name'], VALUE=node.fields['_value'],
                          **{k.upper(): v for k, v in opts.items()})}


@native
def text_of(I, file):
    return _no_ws(file.fields['text'])


@native
def esc(I, s):
    return ESC(I, s)


@native
def cat(I, *parts):
    return _no_ws(z3.Concat(*[to_z3(p) for p in parts]))


@SER_LEAF.ensures
def leaf_line_is_indent_quoted_escaped_name_and_value(file, NAME, VALUE, CUR_INDENT):
    return text_of(file) == cat(CUR_INDENT, '"', esc(NAME), '" "', esc(VALUE), '"\n')


@SER_LEAF.ensures
def node_is_unchanged(self, NAME, VALUE):
    return self._real_name == NAME and self._value == VALUE


def _block_contract(width, root):
    name = f'serialise.{"root" if root else "block"}.width{width}'
    c = REG.add(Contract(f'{M}:Keyvalues._serialise', PROP, name=name, modular=False))

    def setup(h):
        file, opts = _common(h)
        kids = [_child(h.I, k, file) for k in range(width)]
        node = Obj('Keyvalues', {'_real_name': None if root else h.str('name'), '_folded_name': None,
                                 '_value': PList(list(kids)), 'line_num': None}, module=M)
        return {'args': [node, file, opts['indent'], opts['open_brace'], opts['close_brace'], opts['cur_indent']],
                'ghost': dict(NAME=node.fields['_real_name'], KIDS=list(kids), WIDTH=width, ROOT=root,
                              **{k.upper(): v for k, v in opts.items()})}
    c.setup(setup)

    @c.ensures
    def text_is_header_children_footer(file, NAME, WIDTH, ROOT, INDENT, OPEN_BRACE, CLOSE_BRACE, CUR_INDENT):
        return text_of(file) == expected_block(NAME, WIDTH, ROOT, INDENT, OPEN_BRACE, CLOSE_BRACE, CUR_INDENT)

    @c.ensures
    def children_list_is_unchanged(self, KIDS):
        return same_children(self, KIDS)
    return c


@native
def expected_block(I, name, width, root, indent, open_brace, close_brace, cur_indent):
    indent, open_brace, close_brace, cur_indent = map(to_z3, (indent, open_brace, close_brace, cur_indent))
    if root:
        parts = [SER(z3.IntVal(k), indent, open_brace, close_brace, z3.StringVal('')) for k in range(width)]
        return _no_ws(z3.Concat(*parts) if len(parts) > 1 else (parts[0] if parts else z3.StringVal('')))
    child_indent = z3.Concat(cur_indent, indent)
    parts = [cur_indent, z3.StringVal('"'), ESC(I, name), z3.StringVal('"\n'), cur_indent, open_brace]
    parts += [SER(z3.IntVal(k), indent, open_brace, close_brace, child_indent) for k in range(width)]
    parts += [cur_indent, close_brace]
    return _no_ws(z3.Concat(*parts))


@native
def same_children(I, node, kids):
    v = node.fields['_value']
    return isinstance(v, PList) and len(v.items) == len(kids) and all(a is b for a, b in zip(v.items, kids))


BLOCKS = [_block_contract(w, False) for w in (0, 1, 2, 3)] + [_block_contract(w, True) for w in (0, 1, 3)]


# one arbitrary iteration of the child loop of a named block (loop ordinal 1) and of the root (ordinal 0)
def _iter_lemma(name, ordinal, root):
    lem = REG.add(Lemma(name, PROP, [{'body': f'{M}:Keyvalues._serialise', 'loop': ordinal}]))

    def setup(h):
        file, opts = _common(h)
        before = h.str('text_before')
        file.fields['text'] = before
        if not root:
            pass
        kid = _child(h.I, 7, file)
        loc = dict(file=file, child=kid, **opts)
        if not root:
            loc['child_indent'] = h.str('child_indent')
        return {'locals': loc, 'ghost': dict(BEFORE=before, ROOT=root, **{k.upper(): v for k, v in opts.items()},
                                             CHILD_INDENT=loc.get('child_indent', z3.StringVal('')))}
    lem.setup(setup)

    @lem.ensures
    def iteration_appends_exactly_the_childs_text(file, BEFORE, INDENT, OPEN_BRACE, CLOSE_BRACE, CHILD_INDENT):
        return text_of(file) == cat(BEFORE, ser_of(7, INDENT, OPEN_BRACE, CLOSE_BRACE, CHILD_INDENT))
    return lem


@native
def ser_of(I, k, indent, open_brace, close_brace, cur):
    return _no_ws(SER(z3.IntVal(k), to_z3(indent), to_z3(open_brace), to_z3(close_brace), to_z3(cur)))


ITER_ROOT = _iter_lemma('serialise.root.iteration', 0, True)
ITER_BLOCK = _iter_lemma('serialise.block.iteration', 1, False)


# serialise(): the options only ever reach whitespace positions
SER_TOP = REG.add(Contract(f'{M}:Keyvalues.serialise', PROP, name='serialise.options', modular=False))


@SER_TOP.setup
def _top(h):
    h.I.global_overrides = {'escape_text': ESC}
    calls = []
    node = Obj('Keyvalues', {'_real_name': h.str('name'), '_folded_name': None, '_value': h.str('value'), 'line_num': None},
               module=M)

    def ser(file_, indent, open_brace, close_brace, cur_indent):
        calls.append((file_, indent, open_brace, close_brace, cur_indent))
        return None
    node.fields['_serialise'] = Builtin('_serialise', ser)
    file = _file(h.I)
    ib = h.bool('indent_braces')
    return {'args': [node, file], 'kwargs': dict(indent=h.str('indent'), indent_braces=ib, start_indent=h.str('start_indent')),
            'ghost': dict(CALLS=calls, INDENT=h.symbols['indent'], IB=ib, START=h.symbols['start_indent'], FILE=file)}


@native
def one_call_with(I, calls, file, indent, ib, start):
    if len(calls) != 1:
        return False
    f, ind, ob, cb, cur = calls[0]
    indent = to_z3(indent)
    want_open = z3.If(to_z3(ib), z3.Concat(indent, z3.StringVal('{\n')), z3.StringVal('{\n'))
    want_close = z3.If(to_z3(ib), z3.Concat(indent, z3.StringVal('}\n')), z3.StringVal('}\n'))
    return z3.And(z3.BoolVal(f is file), to_z3(ind) == indent, to_z3(ob) == want_open, to_z3(cb) == want_close,
                  to_z3(cur) == to_z3(start))


@SER_TOP.ensures
def braces_are_indent_plus_brace_and_newline(CALLS, FILE, INDENT, IB, START):
    return one_call_with(CALLS, FILE, INDENT, IB, START)


def _res(name, ok, line=0, note=''):
    r = smt.Result(name, 'proved' if ok else 'refuted', 'ast-scan', 0.0, {}, line, 0, note)
    r.replay_fn = _witness
    return r


def static_writer(repo):
    """Frame and shape of _serialise: no attribute / subscript stores, no mutating method calls on the node; every write is
    an f-string whose only interpolations are indentation/brace parameters or escape_text(...)."""
    fn = extract.load(M).find('Keyvalues._serialise')
    stores = [(n.lineno, ast.unparse(n)) for n in ast.walk(fn)
              if isinstance(n, (ast.Attribute, ast.Subscript)) and isinstance(n.ctx, (ast.Store, ast.Del))]
    muts = [(n.lineno, ast.unparse(n)) for n in ast.walk(fn) if isinstance(n, ast.Call) and isinstance(n.func, ast.Attribute)
            and n.func.attr in ('append', 'extend', 'insert', 'pop', 'remove', 'clear', 'sort', 'reverse', '__setitem__')]
    out = [_res('serialise.frame.no_stores_into_the_tree', not stores and not muts, fn.lineno, str(stores + muts))]
    bad = []
    n_writes = 0
    # indentation names: the four layout parameters and locals computed only from them and literals
    ws_names = {'cur_indent', 'open_brace', 'close_brace', 'indent'}
    for _ in range(3):
        for n in ast.walk(fn):
            if isinstance(n, ast.Assign) and len(n.targets) == 1 and isinstance(n.targets[0], ast.Name):
                used = {x.id for x in ast.walk(n.value) if isinstance(x, ast.Name)}
                if used <= ws_names and not any(isinstance(x, (ast.Attribute, ast.Call)) for x in ast.walk(n.value)):
                    ws_names.add(n.targets[0].id)
    for n in ast.walk(fn):
        if isinstance(n, ast.Call) and ast.unparse(n.func) == 'file.write':
            n_writes += 1
            arg = n.args[0]
            if not isinstance(arg, ast.JoinedStr):
                bad.append((n.lineno, ast.unparse(arg)))
                continue
            for v in arg.values:
                if isinstance(v, ast.FormattedValue):
                    src = ast.unparse(v.value)
                    if src in ws_names:
                        continue
                    if isinstance(v.value, ast.Call) and ast.unparse(v.value.func) == 'escape_text':
                        continue
                    bad.append((n.lineno, src))
    out.append(_res('serialise.every_name_and_value_is_written_escaped', n_writes >= 3 and not bad,
                    bad[0][0] if bad else fn.lineno, str(bad)))
    return out


# ------------------------------------------------------------------------------------------------ parser iterations
TOK = None


def _tokens():
    return extract.load('tokenizer').enum_members('Token')


class _Tok:
    """Scripted tokenizer model: `tokenizer()` pops the next scripted token; push_back records; expect checks."""
    def __init__(self, I, script):
        self.I = I
        self.script = list(script)
        self.pushed = []
        self.obj = Obj('TokenizerModel', {'line_num': z3.Int('line_num'), 'filename': ''}, module='')
        self.obj.fields['__call__'] = Builtin('__call__', self.next)
        self.obj.fields['push_back'] = Builtin('push_back', self.push_back)
        self.obj.fields['expect'] = Builtin('expect', self.expect)
        self.obj.fields['error'] = Builtin('error', self.error)

    def next(self):
        if not self.script:
            raise Unsupported('parser read more tokens than the pattern provides')
        return self.script.pop(0)

    def push_back(self, typ, val):
        self.pushed.append((typ, val))
        return None

    def expect(self, typ):
        t, v = self.next()
        if t is not typ and t != typ:
            raise PyRaise(ExcVal('KeyValError', ('expected',)))
        return v

    def error(self, *a, **k):
        return ExcVal('KeyValError', a)


def _parse_iter(name, block_line, token, script, note=''):
    """One iteration of the `for token_type, token_value in tokenizer` loop (loop ordinal 0 of Keyvalues.parse)."""
    lem = REG.add(Lemma(name, PROP, [{'body': f'{M}:Keyvalues.parse', 'loop': 0}], note=note))
    lem.raises('KeyValError')

    def setup(h):
        T = _tokens()
        tv = lambda t: T[t]     # noqa: E731
        # arbitrary current block with n_prev previous children (two symbolic predecessors are enough to see the list)
        prev = [Obj('Keyvalues', {'_real_name': h.str(f'prev{i}_name'), '_folded_name': None, '_value': h.str(f'prev{i}_val'),
                                  'line_num': None}, module=M) for i in range(2)]
        if block_line == 2 or token == 'BRACE_OPEN':
            # the last child is the block that was announced by `"name" NL`
            prev[-1].fields['_value'] = PList([])
        contents = PList(list(prev))
        cur_block = Obj('Keyvalues', {'_real_name': h.str('cur_name'), '_folded_name': None, '_value': contents,
                                      'line_num': None}, module=M)
        root = Obj('Keyvalues', {'_real_name': None, '_folded_name': None, '_value': PList([cur_block]), 'line_num': 1},
                   module=M)
        outer_contents = root.fields['_value']
        open_kvs = PList([root, cur_block])
        tval = h.str('token_value')
        tokm = _Tok(h.I, [(tv(t), (h.str(f'tok{i}_value') if t == 'STRING' else v)) for i, (t, v) in enumerate(script)])
        loc = dict(token_type=tv(token), token_value=tval if token == 'STRING' else None,
                   tokenizer=tokm.obj, cur_block=cur_block, cur_block_contents=contents, open_keyvalues=open_kvs, root=root,
                   block_line=block_line, can_flag_replace=h.bool('can_flag_replace'),
                   STRING=tv('STRING'), PROP_FLAG=tv('PROP_FLAG'), NEWLINE=tv('NEWLINE'), BRACE_OPEN=tv('BRACE_OPEN'),
                   BRACE_CLOSE=tv('BRACE_CLOSE'), BLOCK_LINE_EXPECT=2, BLOCK_LINE_NONE=0, BLOCK_LINE_SKIP=1,
                   newline_keys=False, newline_values=True, single_line=False, single_block=False, flags=None,
                   KeyValError=None)
        return {'locals': loc, 'ghost': dict(TOKM=tokm, PREV=list(prev), CUR=cur_block, ROOTKV=root, OUTER=outer_contents,
                                             CONTENTS=contents, TVAL=tval, OPEN=open_kvs)}
    lem.setup(setup)
    return lem


@native
def n_items(I, pl):
    return len(pl.items if isinstance(pl, PList) else pl)


@native
def item(I, pl, i):
    return (pl.items if isinstance(pl, PList) else pl)[i]


@native
def is_obj(I, a, b):
    return a is b


@native
def pushed_back(I, tokm):
    return [t for t, _ in tokm.pushed]


@native
def script_left(I, tokm):
    return len(tokm.script)


@native
def script_value(I, name):
    return z3.String(name)


@native
def is_empty_list(I, v):
    return isinstance(v, PList) and not v.items


@native
def has_no_line_break(I, s):
    s = to_z3(s)
    return z3.And(z3.Not(z3.Contains(s, z3.StringVal('\n'))), z3.Not(z3.Contains(s, z3.StringVal('\r'))))


# pattern 1: "name" "value" NL   (a leaf line)
P_LEAF = _parse_iter('parse.leaf_line', 0, 'STRING', [('STRING', None), ('NEWLINE', '\n')])


@P_LEAF.ensures
def leaf_is_appended_with_exact_name_and_value(cur_block_contents, CONTENTS, PREV, TVAL):
    return (is_obj(cur_block_contents, CONTENTS) and n_items(CONTENTS) == 3 and is_obj(item(CONTENTS, 0), item(PREV, 0))
            and is_obj(item(CONTENTS, 1), item(PREV, 1)) and item(CONTENTS, 2)._real_name == TVAL
            and item(CONTENTS, 2)._value == script_value('tok0_value'))


@P_LEAF.ensures
def leaf_line_leaves_the_stack_and_expectation_alone(open_keyvalues, OPEN, block_line, cur_block, CUR, TOKM):
    return (is_obj(open_keyvalues, OPEN) and n_items(OPEN) == 2 and block_line == 0 and is_obj(cur_block, CUR)
            and script_left(TOKM) == 0)


@P_LEAF.on_raise('KeyValError')
def leaf_line_is_rejected_only_for_a_line_break_in_the_name(TVAL):
    return not has_no_line_break(TVAL)


# pattern 2: "name" NL   (a block header; the brace follows on the next line)
P_HEAD = _parse_iter('parse.block_header', 0, 'STRING', [('NEWLINE', '\n')])


@P_HEAD.ensures
def empty_block_node_is_appended_and_a_brace_is_expected(CONTENTS, TVAL, block_line, TOKM):
    return (n_items(CONTENTS) == 3 and item(CONTENTS, 2)._real_name == TVAL and is_empty_list(item(CONTENTS, 2)._value)
            and block_line == 2 and script_left(TOKM) == 0)


@P_HEAD.on_raise('KeyValError')
def header_is_rejected_only_for_a_line_break_in_the_name(TVAL):
    return not has_no_line_break(TVAL)


# pattern 3: NL while a brace is expected / while nothing is expected: nothing changes
P_NL_EXPECT = _parse_iter('parse.newline_while_expecting_brace', 2, 'NEWLINE', [])
P_NL = _parse_iter('parse.newline', 0, 'NEWLINE', [])


def _unchanged(lem, bl):
    lem.setups[0] = (lem.setups[0][0], (lambda base: lambda h: (lambda sp: (sp['ghost'].update(BL=bl), sp)[1])(base(h)))(lem.setups[0][1]))

    @lem.ensures
    def newline_changes_nothing(CONTENTS, open_keyvalues, OPEN, block_line, cur_block, CUR, BL):
        return n_items(CONTENTS) == 2 and is_obj(open_keyvalues, OPEN) and n_items(OPEN) == 2 and block_line == BL \
            and is_obj(cur_block, CUR)


_unchanged(P_NL_EXPECT, 2)
_unchanged(P_NL, 0)

# pattern 4: {  after a header: the announced node becomes the current block
P_OPEN = _parse_iter('parse.open_brace', 2, 'BRACE_OPEN', [])


@P_OPEN.ensures
def announced_node_becomes_the_current_block(cur_block, cur_block_contents, open_keyvalues, OPEN, PREV, block_line, CONTENTS):
    return (is_obj(cur_block, item(PREV, 1)) and is_empty_list(cur_block_contents) and is_obj(cur_block_contents, cur_block._value)
            and is_obj(open_keyvalues, OPEN) and n_items(OPEN) == 3 and is_obj(item(OPEN, 2), item(PREV, 1)) and block_line == 0
            and n_items(CONTENTS) == 2)


# pattern 5: }  closes the current block and returns to its parent
P_CLOSE = _parse_iter('parse.close_brace', 0, 'BRACE_CLOSE', [])


@P_CLOSE.ensures
def parent_becomes_the_current_block_again(cur_block, cur_block_contents, open_keyvalues, OPEN, ROOTKV, OUTER, CONTENTS, CUR, block_line):
    return (is_obj(cur_block, ROOTKV) and is_obj(cur_block_contents, OUTER) and is_obj(open_keyvalues, OPEN) and n_items(OPEN) == 1
            and n_items(CONTENTS) == 2 and n_items(OUTER) == 1 and is_obj(item(OUTER, 0), CUR) and block_line == 0)


PARSE_LEMMAS = [P_LEAF, P_HEAD, P_NL_EXPECT, P_NL, P_OPEN, P_CLOSE]
PROOFS = [SER_LEAF] + BLOCKS + [ITER_ROOT, ITER_BLOCK, SER_TOP] + PARSE_LEMMAS
STATIC = [static_writer]


# ------------------------------------------------------------------------------------------------ bounded
ALPHABET = ['a', 'B', ' ', '"', '\\', '\n', '\t', '{', '}', '[', ']', '/', '//', '\\n', '\\"', "'", '\x00', '\x1b', '\x7f',
            '\r', 'é', 'ß', ' ', '\U0001f600', '+', '=', ',', '$', '%', '#', '\\\\', '"\\', '\ufeff', 'x\ufeff']


def _gen_str(rng, for_name):
    n = rng.choice([0, 1, 1, 2, 3, 5])
    s = ''.join(rng.choice(ALPHABET) for _ in range(n))
    if for_name:
        s = s.replace('\n', 'n').replace('\r', 'r')      # names without line breaks (the format cannot carry them)
    return s


def _gen_tree(rng, depth=0):
    from srctools.keyvalues import Keyvalues
    kids = []
    for _ in range(rng.choice([0, 1, 2, 3, 4])):
        nm = _gen_str(rng, True)
        if depth < 3 and rng.random() < 0.35:
            kids.append(Keyvalues(nm, _gen_tree(rng, depth + 1)))
        else:
            kids.append(Keyvalues(nm, _gen_str(rng, False)))
    return kids


def _dump(kv):
    if kv.has_children():
        return (kv._real_name, [_dump(c) for c in kv._value])
    return (kv._real_name, kv._value)


def _job_tree(seed):
    from srctools.keyvalues import Keyvalues
    rng = random.Random(seed)
    kids = _gen_tree(rng)
    root = rng.random() < 0.5
    tree = Keyvalues.root(*kids) if root else Keyvalues(_gen_str(rng, True), kids)
    want = _dump(tree) if root else (None, [_dump(tree)])
    before = _dump(tree)
    texts = []
    try:
        for indent, ib, start in [('\t', True, ''), ('  ', False, ''), ('', True, ''), (' \t', False, '\t\t'), ('', False, '')]:
            text = tree.serialise(indent=indent, indent_braces=ib, start_indent=start)
            texts.append(text)
            if _dump(tree) != before:
                return ('bad', f'serialise changed the tree {before!r}')
            kinds = rng.choice(['str', 'chunks', 'file', 'chars'])
            if kinds == 'str':
                src = text
            elif kinds == 'chars':
                src = list(text)
            elif kinds == 'file':
                src = io.StringIO(text)
            else:
                cuts = sorted(rng.sample(range(len(text) + 1), min(len(text) + 1, rng.choice([0, 1, 3, 8]))))
                src = [text[a:b] for a, b in zip([0] + cuts, cuts + [len(text)])]
            back = Keyvalues.parse(src)
            got = _dump(back)
            if got != want:
                return ('bad', f'indent={indent!r} braces={ib} via {kinds}: {want!r} came back as {got!r}')
            buf = io.StringIO()
            tree.serialise(buf, indent=indent, indent_braces=ib, start_indent=start)
            if buf.getvalue() != text:
                return ('bad', 'serialise(file) wrote different text than serialise() returned')
        # independent of the indentation options apart from whitespace
        def strip(t):
            return [ln.strip(' \t') for ln in t.split('\n')]
        if any(strip(t) != strip(texts[0]) for t in texts[1:]) and not any('\n' in s or '\t' in s or ' ' in s for s in _strings(want)):
            return ('bad', 'text differs between indentation options by more than whitespace')
    except Exception as e:
        return ('bad', f'{type(e).__name__}: {str(e)[:100]} for {before!r}')
    return ('ok', len(kids))


def _strings(d):
    name, v = d
    out = [name or '']
    if isinstance(v, list):
        for c in v:
            out.extend(_strings(c))
    else:
        out.append(v)
    return out


TARGETED = {
    'block_name_with_quote': lambda K: K('a"b', [K('x', 'y')]),
    'block_name_with_backslash': lambda K: K('a\\', [K('x', 'y')]),
    'block_name_with_tab': lambda K: K('a\tb', []),
    'leaf_name_with_quote': lambda K: K.root(K('a"b', 'v')),
    'value_with_everything': lambda K: K.root(K('k', '"\\\n\t{}[]//\r\x00')),
    'empty_names_and_values': lambda K: K.root(K('', ''), K('', [K('', '')])),
    'empty_block': lambda K: K('blk', []),
    'duplicates': lambda K: K.root(K('a', '1'), K('a', '2'), K('A', '3'), K('a', [K('a', '4')])),
    'brace_strings': lambda K: K.root(K('{', '}'), K('}', [K('{', '{')])),
    'bracket_strings': lambda K: K.root(K('[flag]', '[x]'), K('k', 'v [flag]')),
    'deep': lambda K: K('a', [K('b', [K('c', [K('d', [K('e', 'f')])])])]),
    # U+FEFF is only skipped *between* tokens of the first line; inside quoted strings it is data
    'bom_inside_strings': lambda K: K.root(K('\ufeffBlock\ufeff', [K('\ufeffk', 'v\ufeff')]), K('\ufeff', '\ufeff')),
    'bom_inside_first_leaf': lambda K: K.root(K('\ufeffa\ufeffb', '\ufeff\ufeff')),
    # one block object at two positions (the object graph is a DAG, its content a tree): written once per position
    'shared_block_twice_under_root': lambda K: (lambda a: K.root(a, a))(K('a', [K('x', 'y')])),
    'shared_block_under_two_parents': lambda K: (lambda a: K('top', [K('p', [a]), K('q', [a, K('r', [a])])]))(K('a', [K('x', 'y'), K('e', [])])),
}


def _job_targeted(kind):
    from srctools.keyvalues import Keyvalues
    try:
        tree = TARGETED[kind](Keyvalues)
        want = _dump(tree) if tree._real_name is None else (None, [_dump(tree)])
        for indent, ib in [('\t', True), ('', False)]:
            text = tree.serialise(indent=indent, indent_braces=ib)
            got = _dump(Keyvalues.parse(text))
            if got != want:
                return ('bad', f'{want!r} came back as {got!r}')
            got = _dump(Keyvalues.parse(list(text)))
            if got != want:
                return ('bad', f'(one character per chunk) {want!r} came back as {got!r}')
    except Exception as e:
        return ('bad', f'{type(e).__name__}: {str(e)[:100]}')
    return ('ok', 1)


@bounded('C01.B-roundtrip', bound='15 targeted trees + generated trees (depth <= 4, <= 4 children per block, names/values of <= 5 '
         'pieces from an alphabet with quotes, backslashes, escape look-alikes, braces, brackets, control characters, CR, '
         'U+2028, U+FEFF and non-BMP characters; block objects shared between positions) x 5 option sets x parse on str / chunk list / single characters / file object; '
         'quick 4000 trees, thorough 100000', rule='a tree with no children is trivial')
def b_roundtrip(ctx):
    for kind, res in ctx.pmap(_job_targeted, list(TARGETED), job_timeout=5.0):
        ctx.case(kind)
        if isinstance(res, str) or res[0] != 'ok':
            ctx.violation(f'targeted={kind}', res if isinstance(res, str) else res[1], [kind])
    n = 100000 if ctx.thorough else 4000
    seen = set()
    for job, res in ctx.pmap(_job_tree, [ctx.seed * 104729 + i for i in range(n)], batch=1024, job_timeout=8.0):
        ctx.case(job, nontrivial=not isinstance(res, str) and res[1] != 0)
        if isinstance(res, str) or res[0] != 'ok':
            what = res if isinstance(res, str) else res[1]
            sig = ''.join(ch for ch in what if ch.isalpha() or ch == ' ')[:30]
            if sig in seen:
                continue
            seen.add(sig)
            ctx.violation(f'tree.seed={job}', what, [job])


def _replay(inp):
    res = _job_targeted(inp[0]) if isinstance(inp[0], str) else _job_tree(inp[0])
    return {'failed': isinstance(res, str) or res[0] != 'ok', 'observation': res if isinstance(res, str) else res[1]}


b_roundtrip.replay = _replay
BOUNDED = [b_roundtrip]

_WITNESS = []


def _witness(model=None, obligation=None):
    from pyvc.driver import _call_with_timeout
    if _WITNESS:
        return _WITNESS[0]
    out = {'failed': False}
    for kind in TARGETED:
        res = _call_with_timeout((_job_targeted, kind, 5.0))
        if isinstance(res, str) or res[0] != 'ok':
            out = {'failed': True, 'scenario': kind, 'observation': res if isinstance(res, str) else res[1]}
            break
    else:
        for seed in range(400):
            res = _call_with_timeout((_job_tree, seed, 8.0))
            if isinstance(res, str) or res[0] != 'ok':
                out = {'failed': True, 'scenario': f'tree seed {seed}', 'observation': res if isinstance(res, str) else res[1]}
                break
    _WITNESS.append(out)
    return out


for _c in PROOFS:
    _c.replay_fn = _witness


# ------------------------------------------------------------------------------------------------ self-test catalogue
MUTATIONS = [
    dict(name='bom_dropped_inside_quoted_strings', file='tokenizer.py',
         old="                    if chunk:\n                        self._cur_chunk = chunk\n                        self._char_index = 0",
         new="                    if self.line_num == 1 and chunk.startswith('\\uFEFF'):\n                        chunk = chunk[1:]\n                    if chunk:\n                        self._cur_chunk = chunk\n                        self._char_index = 0",
         expect='targeted=bom_inside'),
    dict(name='block_name_unescaped', file='keyvalues.py',
         old="""                file.write(f'{cur_indent}"{escape_text(self._real_name)}"\\n')""",
         new="""                file.write(f'{cur_indent}"{self._real_name}"\\n')""", expect='serialise.block'),
    dict(name='leaf_value_unescaped', file='keyvalues.py',
         old="""            file.write(f'{cur_indent}"{escape_text(self._real_name)}" "{escape_text(self._value)}"\\n')""",
         new="""            file.write(f'{cur_indent}"{escape_text(self._real_name)}" "{self._value}"\\n')""", expect='serialise.leaf'),
    dict(name='children_written_reversed', file='keyvalues.py',
         old="                for child in self._value:\n                    child._serialise(file, indent, open_brace, close_brace, child_indent)",
         new="                for child in reversed(self._value):\n                    child._serialise(file, indent, open_brace, close_brace, child_indent)",
         expect='serialise.block.width2'),
    dict(name='close_brace_missing_for_empty_block', file='keyvalues.py',
         old="                file.write(f'{cur_indent}{close_brace}')",
         new="                if self._value:\n                    file.write(f'{cur_indent}{close_brace}')", expect='serialise.block.width0'),
    dict(name='parse_stores_folded_name', file='keyvalues.py',
         old="                keyvalue.real_name = sys.intern(token_value)", new="                keyvalue.real_name = sys.intern(token_value.casefold())",
         expect='parse.leaf_line'),
    dict(name='parse_close_does_not_pop', file='keyvalues.py', old="                closed_block = open_keyvalues.pop()",
         new="                closed_block = open_keyvalues[-1]", expect='parse.close_brace'),
    dict(name='parse_block_appended_twice', file='keyvalues.py',
         old="                    block_line = BLOCK_LINE_EXPECT\n                    can_flag_replace = False\n                    cur_block_contents.append(keyvalue)",
         new="                    block_line = BLOCK_LINE_EXPECT\n                    can_flag_replace = False\n                    cur_block_contents.append(keyvalue)\n                    cur_block_contents.append(keyvalue)",
         expect='parse.block_header'),
    dict(name='serialise_sorts_children', file='keyvalues.py',
         old="        if isinstance(self._value, list):\n            if self._real_name is None:\n                # If the name is None, we just output the children\n                # without a \"Name\" { } surround. These Keyvalue objects represent the root.\n                for child in self._value:\n                    child._serialise(",
         new="        if isinstance(self._value, list):\n            self._value.sort(key=lambda kv: kv._real_name or '')\n            if self._real_name is None:\n                # If the name is None, we just output the children\n                # without a \"Name\" { } surround. These Keyvalue objects represent the root.\n                for child in self._value:\n                    child._serialise(",
         expect='serialise.frame'),
]
HARMLESS = [
    dict(name='close_brace_at_child_indent', file='keyvalues.py', old="                file.write(f'{cur_indent}{close_brace}')",
         new="                file.write(f'{child_indent}{close_brace}')"),
    dict(name='leaf_written_in_two_calls', file='keyvalues.py',
         old="""            file.write(f'{cur_indent}"{escape_text(self._real_name)}" "{escape_text(self._value)}"\\n')""",
         new="""            file.write(f'{cur_indent}"{escape_text(self._real_name)}" ')\n            file.write(f'"{escape_text(self._value)}"\\n')"""),
]
