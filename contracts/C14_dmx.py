"""C14 -- DMX export/parse preserves the element graph in binary and KeyValues2 form.

Proof tier (pyvc, real code re-read on every run):
  typecode.*      the attribute type byte: the statements of export_binary that compute it, followed by the statements of
                  parse_bin that decode it, for all 14 value types x scalar/array  (a loop-free harness over the full,
                  finite domain);
  time.*          _conv_binary_to_time / _conv_time_to_binary are inverse on every 32-bit tick count (real arithmetic);
  kv1.*           Element.from_kv1: per-iteration lemmas of the classification loop and of the conversion loop: a leaf is
                  stored as an attribute only if its folded name is not reserved and not a duplicate;
  AST obligations every string export_binary looks up in the string table was added to it under the same guard; both
                  directions choose the same struct format per version; every text written by _export_kv2 goes through
                  escape_text (inverse of the tokenizer's unescape: proved under C02); every string parse_bin reads is
                  decoded with the encoding export_binary encodes with.
Bounded tier: generated element graphs (cycles, sharing, stubs, NULLs, all types, empty arrays, escapes, Unicode) through
binary v1-5 x unicode modes and KeyValues2 nested/flat x cull_uuid; Keyvalues trees through from_kv1/to_kv1; native
tick round trips.
"""
import ast
import random

import z3

from pyvc import extract, smt
from pyvc.driver import bounded
from pyvc.symexec import Builtin, Obj, PList, PyRaise, ExcVal, Unsupported, to_z3
from pyvc.vc import Contract, Lemma, Registry, native

REG = Registry()
PROP = 'C14'
LEVEL = 'other'
M = 'dmx'
EXPLANATION = ('The wire-level kernels that the graph round trip rests on are proved on the real code: the type byte '
               '(14 types x scalar/array, encoder statements followed by decoder statements), the TIME tick conversion, '
               'the reserved-name/duplicate logic of from_kv1, and AST obligations tying the two directions together '
               '(string table coverage, struct formats per version, escaping of every KeyValues2 text, decoding with the '
               'export encoding). The graph-level statement (isomorphism incl. sharing, cycles, stubs, order) is decided '
               'by a bounded generator-based round trip, not proved.')
TRUSTED = ['struct.pack/unpack are inverse on in-range values (CPython)', 'float arithmetic in the TIME conversion treated as '
           'real arithmetic in the proof (the bounded tier runs the IEEE code on boundary and sampled ticks)',
           'escape_text / tokenizer unescape inverse: proved under C02 and used here as a dependency contract',
           'uuid.UUID(str(u)) == u and UUID(bytes_le=u.bytes_le) == u (stdlib)']
UNVERIFIED = ['graph traversal / element table construction in export_binary and parse_bin (bounded only)',
              'parse_kv2 fix-up pass and _parse_kv2_element (bounded only)', 'Cython tokenizer twin']
TIMEOUT_MS = {'quick': 30000, 'thorough': 120000}


def _const(name):
    return extract.load(M).const(name)


def _vtypes():
    return extract.load(M).enum_members('ValueType')


# ------------------------------------------------------------------------------------------------ type byte
def _encoder_fragment(fn):
    """export_binary: `typ_ind = VAL_TYPE_TO_IND[attr.type]` and the statement after it (the array offset)."""
    for node in ast.walk(fn):
        body = getattr(node, 'body', None)
        if not isinstance(body, list):
            continue
        for i, st in enumerate(body):
            if isinstance(st, ast.Assign) and isinstance(st.targets[0], ast.Name) and st.targets[0].id == 'typ_ind':
                return body[i:i + 2]
    return []


def _decoder_fragment(fn):
    """parse_bin: the `if` that splits the type byte into (array?, base type) and the IND_TO_VALTYPE lookup after it."""
    for node in ast.walk(fn):
        body = getattr(node, 'body', None)
        if not isinstance(body, list):
            continue
        for i, st in enumerate(body):
            if isinstance(st, ast.If) and 'ARRAY_OFFSET' in ast.unparse(st.test) and i + 1 < len(body) \
                    and 'IND_TO_VALTYPE' in ast.unparse(body[i + 1]):
                return body[i:i + 2]
    return []


TYPECODE = REG.add(Lemma('typecode.roundtrip', PROP, [
    {'stmts': f'{M}:Element.export_binary', 'select': _encoder_fragment},
    {'native': lambda I, vals: vals.__setitem__('attr_type_data', vals['typ_ind'])},
    {'stmts': f'{M}:Element.parse_bin', 'select': _decoder_fragment},
]))


def _typecode_setup(tname):
    def setup(h):
        tval = _vtypes()[tname]
        attr = Obj('Attribute', {'_typ': tval, 'type': tval, 'is_array': h.bool('is_array')}, module='')
        size = h.int('array_size_in_file')
        reader = Obj('binformat', {}, module='')
        reader.fields['struct_read'] = Builtin('struct_read', lambda fmt, file: PList([size]))
        h.I.global_overrides = {'binformat': reader}
        return {'locals': dict(attr=attr, file=None), 'ghost': dict(T=tval, IS_ARRAY=attr.fields['is_array'])}
    return setup


for _t in ['ELEMENT', 'INT', 'FLOAT', 'BOOL', 'STRING', 'BINARY', 'TIME', 'COLOR', 'VEC2', 'VEC3', 'VEC4', 'ANGLE',
           'QUATERNION', 'MATRIX']:
    TYPECODE.setup(_typecode_setup(_t), label=_t)


@TYPECODE.ensures
def type_byte_fits_one_unsigned_byte(typ_ind):
    return 0 < typ_ind and typ_ind <= 255


@TYPECODE.ensures
def decoder_recovers_the_value_type(attr_type, T):
    return attr_type == T


@TYPECODE.ensures
def decoder_recovers_scalar_or_array(array_size, IS_ARRAY):
    return (array_size is not None) == IS_ARRAY


def static_typecodes(repo):
    """The table side: the 14 codes are distinct, start at 1, and the array codes (code + ARRAY_OFFSET) do not collide
    with any scalar code; ValueType has exactly the members the lemma enumerates."""
    mod = extract.load(M)
    table = mod.const('VAL_TYPE_TO_IND')
    off = mod.const('ARRAY_OFFSET')
    vt = _vtypes()
    names = set(vt.values())
    lemma_names = {vt.get(lab, lab) for lab, _ in TYPECODE.setups}
    codes = sorted(table.values())
    out = [_res('typecode.lemma_enumerates_every_value_type', names == lemma_names, note=str(names ^ lemma_names)),
           _res('typecode.table_covers_every_value_type', set(table) == names),
           _res('typecode.codes_are_distinct_and_positive', len(set(codes)) == len(codes) and codes[0] >= 1),
           _res('typecode.array_codes_do_not_collide_with_scalar_codes',
                not ({c + off for c in codes} & set(codes)), note=f'offset {off}, codes {codes}'),
           _res('typecode.array_codes_fit_a_byte', max(codes) + off <= 255)]
    return out


# ------------------------------------------------------------------------------------------------ TIME ticks
def _round_half_even(I, x, nd):
    if nd is not None:
        raise Unsupported('round(x, n) of a symbolic value')
    x = to_z3(x)
    if z3.is_int(x):
        return x
    fl = z3.ToInt(x)
    frac = x - z3.ToReal(fl)
    half = z3.RealVal('1/2')
    return z3.If(frac < half, fl, z3.If(frac > half, fl + 1, z3.If(fl % 2 == 0, fl, fl + 1)))


def _struct_model(I):
    """struct.Struct('<i'): pack is the identity on 32-bit ints (struct.error otherwise), unpack its inverse."""
    st = Obj('Struct', {'size': 4}, module='')

    def pack(n):
        n = to_z3(n)
        if not z3.is_int(n):
            raise Unsupported('struct.pack of a non-integer')
        if I.path.branch(z3.Or(n < -2 ** 31, n > 2 ** 31 - 1), 'pack.range'):
            raise PyRaise(ExcVal('StructError', ('out of range',)))
        return Obj('bytes4', {'num': n}, module='')

    def unpack(b):
        return PList([b.fields['num']])
    st.fields.update(pack=Builtin('pack', pack), unpack=Builtin('unpack', unpack))
    return st


def _time_setup(h):
    h.I.round_model = _round_half_even
    h.I.global_overrides = {'_struct_time': _struct_model(h.I)}


TIME_DEC_ENC = REG.add(Lemma('time.encode_after_decode', PROP, [
    {'call': f'{M}:_conv_binary_to_time', 'args': ['byt'], 'result': 'tim'},
    {'call': f'{M}:_conv_time_to_binary', 'args': ['tim'], 'result': 'out'},
]))


@TIME_DEC_ENC.setup
def _ticks(h):
    _time_setup(h)
    n = h.int('ticks')
    h.assume(z3.And(n >= -2 ** 31, n <= 2 ** 31 - 1))
    return {'locals': dict(byt=Obj('bytes4', {'num': n}, module='')), 'ghost': dict(N=n)}


@native
def packed_int(I, b):
    return b.fields['num']


@TIME_DEC_ENC.ensures
def every_tick_count_survives(out, N):
    return packed_int(out) == N


@TIME_DEC_ENC.ensures
def decoded_time_is_ticks_over_10000(tim, N):
    return tim.value * 10000 == N


TIME_ENC_DEC = REG.add(Lemma('time.decode_after_encode', PROP, [
    {'call': f'{M}:_conv_time_to_binary', 'args': ['tim'], 'result': 'byt'},
    {'call': f'{M}:_conv_binary_to_time', 'args': ['byt'], 'result': 'back'},
]))
TIME_ENC_DEC.raises('StructError')


@TIME_ENC_DEC.setup
def _seconds(h):
    _time_setup(h)
    v = h.real('seconds')
    return {'locals': dict(tim=Obj('Time', {'value': v}, module=M)), 'ghost': dict(V=v)}


@TIME_ENC_DEC.ensures
def within_half_a_tick_and_exact_on_tick_multiples(back, V):
    return (back.value - V) * 20000 <= 1 and (V - back.value) * 20000 <= 1 and \
        implies(is_integer(V * 10000), back.value == V)


@native
def is_integer(I, x):
    x = to_z3(x)
    return z3.ToReal(z3.ToInt(x)) == x


@TIME_ENC_DEC.ensures
def only_values_inside_the_32_bit_tick_range_are_written(V):
    return V * 10000 >= -2 ** 31 - 1 and V * 10000 <= 2 ** 31


# ------------------------------------------------------------------------------------------------ from_kv1
from pyvc.builtins_model import fold_fn  # noqa: E402


def FOLD(s):
    return fold_fn()(to_z3(s))


def _kv_child(h, name):
    real = h.str(name + '_real')
    is_block = h.bool(name + '_is_block')
    kv = Obj('Keyvalues', {'_real_name': real, '_folded_name': FOLD(real), '_value': None, 'line_num': None},
             module='keyvalues')
    return kv, real, is_block


KV1_CLASSIFY = REG.add(Lemma('kv1.classify_iteration', PROP, [
    {'body': f'{M}:Element.from_kv1', 'loop': 0},
]))


@KV1_CLASSIFY.setup
def _classify(h):
    kv, real, is_block = _kv_child(h, 'child')
    # has_children() is isinstance(self._value, list): the model keeps the flag and overrides the method
    kv.fields['has_children'] = Builtin('has_children', lambda: is_block)
    for lit in ('name', 'subkeys'):
        h.assume(FOLD(z3.StringVal(lit)) == z3.StringVal(lit))
    seen = h.set_of('leaf_names', z3.StringSort())
    h.I.extra_methods = getattr(h.I, 'extra_methods', None)
    return {'locals': dict(child=kv, leaf_names=seen, has_leaf=h.bool('has_leaf'), has_block=h.bool('has_block'),
                           no_inline=h.bool('no_inline')),
            'ghost': dict(REAL=real, IS_BLOCK=is_block, NO_INLINE0=h.symbols['no_inline'], SEEN0=type(seen)(seen.expr),
                          HAS_LEAF0=h.symbols['has_leaf'], HAS_BLOCK0=h.symbols['has_block'])}


@native
def fold(I, s):
    return FOLD(to_z3(s))


@native
def member(I, s, x):
    return z3.Select(s.expr, to_z3(x))


@KV1_CLASSIFY.ensures
def flags_only_ever_rise(no_inline, has_leaf, has_block, NO_INLINE0, HAS_LEAF0, HAS_BLOCK0):
    return implies(NO_INLINE0, no_inline) and implies(HAS_LEAF0, has_leaf) and implies(HAS_BLOCK0, has_block)


@KV1_CLASSIFY.ensures
def child_kind_is_recorded(has_leaf, has_block, IS_BLOCK):
    return has_block if IS_BLOCK else has_leaf


@KV1_CLASSIFY.ensures
def reserved_leaf_name_forbids_inlining(no_inline, REAL, IS_BLOCK):
    return implies(not IS_BLOCK and (fold(REAL) == 'name' or fold(REAL) == 'subkeys'), no_inline)


@KV1_CLASSIFY.ensures
def repeated_leaf_name_forbids_inlining(no_inline, REAL, IS_BLOCK, SEEN0):
    return implies(not IS_BLOCK and member(SEEN0, fold(REAL)), no_inline)


@KV1_CLASSIFY.ensures
def leaf_name_is_remembered_folded(leaf_names, REAL, IS_BLOCK):
    return implies(not IS_BLOCK, member(leaf_names, fold(REAL)))


def _res(name, ok, line=0, note=''):
    r = smt.Result(name, 'proved' if ok else 'refuted', 'ast-scan', 0.0, {}, line, 0, note)
    r.replay_fn = _witness
    return r


def _shape(name, good, bad=False, line=0, note=''):
    """good: the shape the argument needs is present; bad: a shape known to break the property is present; neither:
    the code was restructured - undecided, never a violation."""
    r = smt.shape(name, good, bad, line, note)
    r.replay_fn = _witness
    return r


def static_kv1_convert(repo):
    """Second loop of from_kv1 and the glue: a child is stored as an attribute (`elem[child.real_name] = child.value`) only
    on the branch `not (no_inline or child.has_children())`; blocks and leaves together force no_inline; nothing
    resets no_inline between the loops."""
    fn = extract.load(M).find('Element.from_kv1')
    loops = [n for n in fn.body if isinstance(n, ast.For)]
    out = [_shape('kv1.two_loops_over_the_children', len(loops) == 2 and all(ast.unparse(l.iter) == 'props' for l in loops),
                  False, fn.lineno)]
    if len(loops) != 2:
        return out
    second = loops[1]
    ok = (len(second.body) == 1 and isinstance(second.body[0], ast.If)
          and ast.unparse(second.body[0].test) == 'no_inline or child.has_children()')
    unguarded = len(second.body) == 1 and isinstance(second.body[0], ast.If) and 'no_inline' not in ast.unparse(second.body[0].test)
    out.append(_shape('kv1.inline_branch_is_guarded_by_no_inline', ok, unguarded, second.lineno))
    if ok:
        els = second.body[0].orelse
        out.append(_shape('kv1.inline_branch_stores_under_the_original_name',
                          len(els) == 1 and ast.unparse(els[0]) == 'elem[child.real_name] = child.value',
                          len(els) == 1 and ast.unparse(els[0]) == 'elem[child.name] = child.value', second.lineno))
        then = second.body[0].body
        out.append(_shape('kv1.other_branch_recurses_into_subkeys',
                          any('subkeys.append(cls.from_kv1(child))' == ast.unparse(s) for s in then), False, second.lineno))
    between = fn.body[fn.body.index(loops[0]) + 1: fn.body.index(second)]
    resets = [ast.unparse(s) for s in between for n in ast.walk(s)
              if isinstance(n, ast.Assign) and any(isinstance(t, ast.Name) and t.id == 'no_inline' for t in n.targets)
              and ast.unparse(n.value) != 'True']
    out.append(_shape('kv1.no_inline_is_not_reset_between_the_loops', not resets, bool(resets), note=str(resets)))
    mixed = any(isinstance(s, ast.If) and ast.unparse(s.test) in ('has_block and has_leaf', 'has_leaf and has_block')
                and ast.unparse(s.body[0]) == 'no_inline = True' for s in between)
    out.append(_shape('kv1.blocks_and_leaves_together_forbid_inlining', mixed, False))
    subk = any(isinstance(s, ast.If) and ast.unparse(s.test) in ('no_inline or has_block', 'has_block or no_inline')
               for s in between)
    out.append(_shape('kv1.subkeys_array_exists_whenever_it_is_appended_to', subk, False))
    return out


# ------------------------------------------------------------------------------------------------ AST obligations
def _guards(fn, target):
    """Conditions under which `target` is reached inside fn: tests of the enclosing ifs (with polarity) and the negated
    tests of earlier sibling `if T: continue/raise/return` statements."""
    path = []

    def exits(body):
        return bool(body) and isinstance(body[-1], (ast.Continue, ast.Raise, ast.Return, ast.Break))

    def walk(node, acc):
        if node is target:
            path.extend(acc)
            return True
        for field, value in ast.iter_fields(node):
            items = value if isinstance(value, list) else [value]
            extra = []
            if isinstance(node, ast.If) and field in ('body', 'orelse'):
                extra = [('+' if field == 'body' else '-') + ast.unparse(node.test)]
            seq = list(extra)
            for it in items:
                if isinstance(it, ast.AST):
                    if walk(it, acc + seq):
                        return True
                    if isinstance(value, list) and isinstance(it, ast.If) and exits(it.body) and not it.orelse:
                        seq = seq + ['-' + ast.unparse(it.test)]
        return False
    walk(fn, [])
    return path


def _reach(guards, env):
    for g in guards:
        val = bool(eval(g[1:], {}, env))       # noqa: S307 - guard expressions of the function under check
        if val != (g[0] == '+'):
            return False
    return True


class _NS:
    def __init__(self, **kw):
        self.__dict__.update(kw)


def _guard_envs():
    vt = _vtypes()
    VT = _NS(**vt)
    for version in range(0, 6):
        ind = '<i' if version >= 5 else ('<h' if version >= 2 else None)
        for tname in sorted(set(vt.values())):
            for is_array in (False, True):
                for aname in ('name', 'other'):
                    yield dict(version=version, stringdb_ind=ind, stringdb_size=ind, ValueType=VT,
                               attr=_NS(type=tname, is_array=is_array, name=aname), subelem=None, isinstance=isinstance,
                               StubElement=type(None), elem_to_ind={})


def static_stringdb(repo):
    """export_binary: every `string_to_ind[X]` lookup has a matching `used_strings.add(X)` in the collection pass; the
    table is sorted(used_strings) enumerated, and its size and indices are written with the per-version formats that
    parse_bin reads them with."""
    mod = extract.load(M)
    exp = mod.find('Element.export_binary')
    par = mod.find('Element.parse_bin')
    out = []
    lookups, adds = [], set()
    for n in ast.walk(exp):
        if isinstance(n, ast.Subscript) and isinstance(n.value, ast.Name) and n.value.id == 'string_to_ind' \
                and isinstance(n.ctx, ast.Load):
            lookups.append((ast.unparse(n.slice), n.lineno))
        if isinstance(n, ast.Call) and ast.unparse(n.func) == 'used_strings.add':
            adds.add(ast.unparse(n.args[0]))
    missing = [(x, ln) for x, ln in lookups if x not in adds]
    out.append(_res('stringdb.lookups_exist', len(lookups) >= 4, exp.lineno, str(lookups)))
    out.append(_res('stringdb.every_looked_up_string_was_collected', not missing, missing[0][1] if missing else exp.lineno,
                    str(missing)))
    # ... and under every (version, value type, scalar/array, is-the-name-attribute) combination in which the lookup is
    # reached, the matching add is reached in the collection pass (guards evaluated exhaustively)
    unguarded = []
    try:
        for n in ast.walk(exp):
            if isinstance(n, ast.Subscript) and isinstance(n.value, ast.Name) and n.value.id == 'string_to_ind' \
                    and isinstance(n.ctx, ast.Load):
                x = ast.unparse(n.slice)
                g_look = [g for g in _guards(exp, n) if 'subelem' not in g]
                add_nodes = [a for a in ast.walk(exp) if isinstance(a, ast.Call) and ast.unparse(a.func) == 'used_strings.add'
                             and ast.unparse(a.args[0]) == x]
                g_adds = [_guards(exp, a) for a in add_nodes]
                for env in _guard_envs():
                    if _reach(g_look, env) and not any(_reach(g, env) for g in g_adds):
                        unguarded.append((n.lineno, x, {k: (v.__dict__ if isinstance(v, _NS) and k == 'attr' else v)
                                                        for k, v in env.items() if k in ('version', 'attr')}))
                        break
        guard_note = str(unguarded[:2])
        ok = not unguarded
    except Exception as e:      # a guard the evaluator cannot handle: undecided, not a violation
        raise Unsupported(f'string table guard evaluation: {type(e).__name__}: {e}')
    out.append(_res('stringdb.collected_under_every_condition_it_is_looked_up', ok,
                    unguarded[0][0] if unguarded else exp.lineno, guard_note))
    src = ast.unparse(exp)
    out.append(_shape('stringdb.table_is_the_sorted_set', 'string_list = sorted(used_strings)' in src
                      and 'string_to_ind = {text: ind for ind, text in enumerate(string_list)}' in src, False, exp.lineno))

    def fmt_chain(fn):
        for n in ast.walk(fn):
            if isinstance(n, ast.If) and ast.unparse(n.test) == 'version >= 5' and 'stringdb_size' in ast.unparse(n.body[0]):
                return ast.unparse(n).replace("= None", "= ''")
        return None
    a, b = fmt_chain(exp), fmt_chain(par)
    out.append(_shape('stringdb.both_directions_use_the_same_formats_per_version', a is not None and a == b,
                      a is not None and b is not None and a != b, exp.lineno, f'{a!r} vs {b!r}' if a != b else ''))
    return out


def static_kv2_escape(repo):
    """_export_kv2: every %b argument that carries user text is escape_text(...).encode(...); the only unescaped
    arguments are indentation, UUID strings and ValueType identifiers."""
    mod = extract.load(M)
    fn = mod.find('Element._export_kv2')
    safe = {'indent', 'indent_child', 'indent_arr', "str(self.uuid).encode('ascii')", "str(child.uuid).encode('ascii')",
            'attr.type.value.encode(encoding)'}
    bad = []
    n_args = 0
    for n in ast.walk(fn):
        if isinstance(n, ast.BinOp) and isinstance(n.op, ast.Mod) and isinstance(n.left, ast.Constant) \
                and isinstance(n.left.value, bytes):
            args = n.right.elts if isinstance(n.right, ast.Tuple) else [n.right]
            for a in args:
                n_args += 1
                src = ast.unparse(a)
                if src in safe:
                    continue
                if isinstance(a, ast.Call) and isinstance(a.func, ast.Attribute) and a.func.attr == 'encode' \
                        and isinstance(a.func.value, ast.Call) and ast.unparse(a.func.value.func) == 'escape_text':
                    continue
                bad.append((a.lineno, src))
    out = [_res('kv2.format_arguments_found', n_args >= 8, fn.lineno),
           _res('kv2.every_text_is_escaped', not bad, bad[0][0] if bad else fn.lineno, str(bad))]
    # the parser side: the tokenizer is created with allow_escapes=True, so unescape is applied to every string token
    par = mod.find('Element.parse_kv2')
    out.append(_shape('kv2.parser_unescapes', 'Tokenizer(file, allow_escapes=True)' in ast.unparse(par),
                      'allow_escapes=False' in ast.unparse(par), par.lineno))
    # ValueType identifiers need no escaping
    ident = all(v and all(c.isalnum() or c == '_' for c in v) for v in _vtypes().values())
    out.append(_res('kv2.value_type_identifiers_need_no_escape', ident))
    return out


def static_encoding(repo):
    """parse_bin decodes every string it reads with the encoding export_binary encodes with (the UUID after a stub marker
    is ASCII on both sides)."""
    mod = extract.load(M)
    par = mod.find('Element.parse_bin')
    exp = mod.find('Element.export_binary')
    bad = []
    for n in ast.walk(par):
        if isinstance(n, ast.Call) and ast.unparse(n.func) in ('binformat.read_nullstr', 'binformat.read_nullstr_array'):
            src = ast.unparse(n)
            uses = any(isinstance(a, ast.Name) and a.id == 'encoding' for a in n.args) or \
                any(k.arg == 'encoding' and ast.unparse(k.value) == 'encoding' for k in n.keywords)
            parent_is_uuid = False
            for p in ast.walk(par):
                if isinstance(p, ast.Call) and ast.unparse(p.func) == 'UUID' and p.args and p.args[0] is n:
                    parent_is_uuid = True
            if not uses and not parent_is_uuid:
                bad.append((n.lineno, src))
    out = [_res('encoding.parser_decodes_with_the_file_encoding', not bad, bad[0][0] if bad else par.lineno, str(bad))]
    enc = []
    for n in ast.walk(exp):
        if isinstance(n, ast.Call) and isinstance(n.func, ast.Attribute) and n.func.attr == 'encode':
            arg = ast.unparse(n.args[0]) if n.args else ''
            recv = ast.unparse(n.func.value)
            if arg not in ('encoding',) and recv not in ('fmt_name', 'str(subelem.uuid)'):
                enc.append((n.lineno, ast.unparse(n)))
    out.append(_res('encoding.exporter_encodes_with_the_file_encoding', not enc, enc[0][0] if enc else exp.lineno, str(enc)))
    src = ast.unparse(exp)
    marker = "file.write(pack('<i', -2))" in src
    out.append(_shape('encoding.stub_marker_is_followed_by_its_uuid',
                      marker and "str(subelem.uuid).encode('ascii') + b'\\x00'" in src,
                      marker and 'uuid' not in src.split("file.write(pack('<i', -2))", 1)[1].split('else:', 1)[0], exp.lineno))
    return out


STATIC = [static_typecodes, static_kv1_convert, static_stringdb, static_kv2_escape, static_encoding]
PROOFS = [TYPECODE, TIME_DEC_ENC, TIME_ENC_DEC, KV1_CLASSIFY]


# ------------------------------------------------------------------------------------------------ bounded
def _load():
    from srctools import dmx
    return dmx


def _job_graph(job):
    seed, mode = job
    from contracts import dmx_support as S
    dmx = _load()
    rng = random.Random(seed)
    uni = rng.choice(['ascii', 'ascii', 'format', 'silent'])
    try:
        root = S.gen_graph(rng, dmx, unicode=uni != 'ascii', names_escape=rng.random() < 0.6)
        c0 = S.canon(root, dmx)
    except Exception as e:
        return ('harness', f'{type(e).__name__}: {e}')
    has_time = any(a[1] == 'TIME' for n in c0 for a in n['attrs'])
    bad = []
    for v in range(1, 6):
        if has_time and v < 3:
            continue
        try:
            d = S.diff(c0, S.canon(S.rt_binary(root, dmx, v, uni), dmx))
        except Exception as e:
            d = f'{type(e).__name__}: {str(e)[:120]}'
        if d:
            bad.append((f'binary_v{v}.{uni}', d))
    for flat in (False, True):
        for cull in (False, True):
            try:
                back = S.rt_kv2(root, dmx, flat, cull, uni)
                d = S.diff(S.canon(root, dmx, with_uuid=not cull), S.canon(back, dmx, with_uuid=not cull), 5.1e-7)
            except Exception as e:
                d = f'{type(e).__name__}: {str(e)[:120]}'
            if d:
                bad.append((f'kv2.flat={int(flat)}.cull={int(cull)}.{uni}', d))
    return ('ok', len(c0)) if not bad else ('bad', bad)


TARGETED = ['nameless_element', 'scalar_matrix', 'stub_scalar', 'stub_array', 'null_in_array', 'self_ref', 'mutual_cycle', 'shared_child',
            'escaped_attr_name', 'escaped_type_and_name', 'unicode_array', 'empty_arrays', 'negative_time', 'case_names']


def _targeted(kind, dmx):
    import uuid as U
    from srctools.math import FrozenMatrix
    V = dmx.ValueType
    r = dmx.Element('root', 'DmElement')
    uni = 'ascii'
    if kind == 'nameless_element':
        # the optional `name` attribute removed, on the root, on a middle element and on the last element of the table
        a, b = dmx.Element('a', 'T'), dmx.Element('b', 'T')
        a['x'] = 1
        a['y'] = 'two'
        b['p'] = 2.5
        b['q'] = dmx.Attribute('q', V.INT, [1, 2, 3])
        r['kids'] = dmx.Attribute('kids', V.ELEMENT, [a, b])
        r['z'] = True
        for e in (r, a, b):
            del e['name']
    elif kind == 'scalar_matrix':
        r['m'] = dmx.Attribute('m', V.MATRIX, FrozenMatrix())
        r['ma'] = dmx.Attribute('ma', V.MATRIX, [FrozenMatrix()])
    elif kind == 'stub_scalar':
        r['s'] = dmx.StubElement.stub(U.UUID(int=7))
    elif kind == 'stub_array':
        s = dmx.StubElement.stub(U.UUID(int=9))
        r['a'] = dmx.Attribute('a', V.ELEMENT, [s, dmx.NULL, s, r])
    elif kind == 'null_in_array':
        r['a'] = dmx.Attribute('a', V.ELEMENT, [dmx.NULL, dmx.NULL])
        r['n'] = dmx.Attribute('n', V.ELEMENT, dmx.NULL)
    elif kind == 'self_ref':
        r['me'] = dmx.Attribute('me', V.ELEMENT, r)
    elif kind == 'mutual_cycle':
        a, b = dmx.Element('a', 'T'), dmx.Element('b', 'T')
        a['other'] = dmx.Attribute('other', V.ELEMENT, b)
        b['other'] = dmx.Attribute('other', V.ELEMENT, a)
        r['kids'] = dmx.Attribute('kids', V.ELEMENT, [a, b])
    elif kind == 'shared_child':
        c = dmx.Element('c', 'T')
        c['v'] = 3
        r['x'] = dmx.Attribute('x', V.ELEMENT, c)
        r['y'] = dmx.Attribute('y', V.ELEMENT, [c, c])
    elif kind == 'escaped_attr_name':
        for nm in ['a"b', 'back\\slash', 'tab\tname', 'new\nline', '{', '}', '[', '//c', ' ']:
            r[nm] = dmx.Attribute(nm, V.STRING, nm)
    elif kind == 'escaped_type_and_name':
        r = dmx.Element('ro"ot\n', 'Dm"El\\')
        r['k'] = dmx.Attribute('k', V.STRING, ['a"b', '\\', '\n', ''])
    elif kind == 'unicode_array':
        uni = 'format'
        r = dmx.Element('näme', 'DmElement')
        r['ß'] = dmx.Attribute('ß', V.STRING, ['é', '日本', ''])
        r['s'] = dmx.Attribute('s', V.STRING, '✓')
    elif kind == 'empty_arrays':
        for t in V:
            r['e_' + t.name] = dmx.Attribute.array('e_' + t.name, t)
    elif kind == 'negative_time':
        r['t'] = dmx.Attribute('t', V.TIME, dmx.Time(-0.0003))
        r['ta'] = dmx.Attribute('ta', V.TIME, [dmx.Time(-1.5), dmx.Time(-0.0001), dmx.Time(214748.3647)])
    elif kind == 'case_names':
        r['MixedCase'] = 1
        r['UPPER'] = 2.5
        r['lower'] = True
    return r, uni


def _job_targeted(kind):
    from contracts import dmx_support as S
    dmx = _load()
    try:
        root, uni = _targeted(kind, dmx)
        c0 = S.canon(root, dmx)
    except Exception as e:
        return ('harness', f'{type(e).__name__}: {e}')
    has_time = any(a[1] == 'TIME' for n in c0 for a in n['attrs'])
    bad = []
    for v in range(1, 6):
        if has_time and v < 3:
            continue
        try:
            d = S.diff(c0, S.canon(S.rt_binary(root, dmx, v, uni), dmx))
        except Exception as e:
            d = f'{type(e).__name__}: {str(e)[:120]}'
        if d:
            bad.append((f'binary_v{v}', d))
    for flat in (False, True):
        for cull in (False, True):
            try:
                back = S.rt_kv2(root, dmx, flat, cull, uni)
                d = S.diff(S.canon(root, dmx, with_uuid=not cull), S.canon(back, dmx, with_uuid=not cull), 5.1e-7)
            except Exception as e:
                d = f'{type(e).__name__}: {str(e)[:120]}'
            if d:
                bad.append((f'kv2.flat={int(flat)}.cull={int(cull)}', d))
    return ('ok', len(c0)) if not bad else ('bad', bad)


@bounded('C14.B-roundtrip', bound='13 targeted graphs + generated element graphs of 1..6 elements (<= 5 attributes each, '
         'arrays <= 3 items, strings <= 6 characters from an alphabet with quotes, backslashes, tabs, newlines, braces and '
         'non-ASCII characters) x binary versions 1-5 (3-5 with TIME) x KeyValues2 nested/flat x cull_uuid, under one of the '
         'unicode modes; quick 3000 graphs, thorough 60000', rule='a graph counts once; all are non-trivial')
def b_roundtrip(ctx):
    for kind, res in ctx.pmap(_job_targeted, TARGETED, job_timeout=5.0):
        ctx.case(kind)
        if isinstance(res, str) or res[0] != 'ok':
            what = res if isinstance(res, str) else res[1]
            first = what[0] if isinstance(what, list) else ('', what)
            ctx.violation(f'targeted={kind}.{first[0]}', f'{first[1]}', [kind])
    n = 60000 if ctx.thorough else 3000
    jobs = [(ctx.seed * 1000003 + i, 'gen') for i in range(n)]
    reported = set()
    for job, res in ctx.pmap(_job_graph, jobs, batch=512, job_timeout=8.0):
        ctx.case(job)
        if isinstance(res, str) or res[0] != 'ok':
            what = res if isinstance(res, str) else res[1]
            first = what[0] if isinstance(what, list) else ('', what)
            sig = first[0].split('.')[0] + ':' + ''.join(ch for ch in str(first[1]) if ch.isalpha() or ch == ' ')[:24]
            if sig in reported:
                continue
            reported.add(sig)
            ctx.violation(f'graph.seed={job[0]}.{first[0]}', f'{first[1]}', list(job))


def _replay_rt(inp):
    res = _job_targeted(inp[0]) if len(inp) == 1 else _job_graph(tuple(inp))
    return {'failed': isinstance(res, str) or res[0] != 'ok', 'observation': res if isinstance(res, str) else res[1]}


b_roundtrip.replay = _replay_rt


def _gen_kv(rng, depth=0):
    from srctools.keyvalues import Keyvalues
    names = ['a', 'A', 'b', 'name', 'Name', 'NAME', 'subkeys', 'SubKeys', 'SUBKEYS', 'value', 'id', 'key with space', '',
             'x"y', 'ß', 'STRASSE']
    kids = []
    for _ in range(rng.choice([0, 1, 2, 3, 4])):
        nm = rng.choice(names)
        if depth < 3 and rng.random() < 0.35:
            kids.append(Keyvalues(nm, list(_gen_kv(rng, depth + 1))))
        else:
            kids.append(Keyvalues(nm, rng.choice(['', 'v', 'V w', '1', 'name', 'a"b'])))
    return kids


def _kv_dump(kv):
    if kv.has_children():
        return (kv._real_name, [_kv_dump(c) for c in kv])
    return (kv._real_name, kv.value)


def _job_kv1(seed):
    from srctools.keyvalues import Keyvalues
    dmx = _load()
    rng = random.Random(seed)
    kids = _gen_kv(rng)
    tree = Keyvalues.root(*kids) if rng.random() < 0.5 else Keyvalues(rng.choice(['blk', 'Name', 'subkeys']), kids)
    try:
        elem = dmx.Element.from_kv1(tree)
        back = elem.to_kv1()
        if _kv_dump(back) != _kv_dump(tree):
            return ('bad', f'{_kv_dump(tree)} came back as {_kv_dump(back)}')
        if elem.name != (tree._real_name or ''):
            return ('bad', f'element of {_kv_dump(tree)} is named {elem.name!r}')
        # and through a file: the element tree survives a binary and a text round trip, then converts back
        from contracts import dmx_support as S
        for how in ('bin', 'kv2'):
            e2 = S.rt_binary(elem, dmx, 5, 'format') if how == 'bin' else S.rt_kv2(elem, dmx, False, False, 'format')
            b2 = e2.to_kv1()
            if _kv_dump(b2) != _kv_dump(tree):
                return ('bad', f'{_kv_dump(tree)} came back through {how} as {_kv_dump(b2)}')
    except Exception as e:
        return ('bad', f'{type(e).__name__}: {e} for {_kv_dump(tree)}')
    return ('ok', len(kids))


@bounded('C14.B-kv1', bound='generated Keyvalues trees (depth <= 4, <= 4 children per block, names from a pool with case '
         'variants of the reserved names, duplicates, blanks and non-ASCII) through from_kv1/to_kv1 directly and through a '
         'binary v5 and a KeyValues2 file; quick 4000 trees, thorough 100000', rule='trees with no children are trivial')
def b_kv1(ctx):
    n = 100000 if ctx.thorough else 4000
    seen = set()
    for job, res in ctx.pmap(_job_kv1, [ctx.seed * 7919 + i for i in range(n)], batch=1024, job_timeout=10.0):
        ctx.case(job, nontrivial=not isinstance(res, str) and res[1] != 0)
        if isinstance(res, str) or res[0] != 'ok':
            what = res if isinstance(res, str) else res[1]
            sig = what[:25]
            if sig in seen:
                continue
            seen.add(sig)
            ctx.violation(f'kv1.seed={job}', what, [job])


b_kv1.replay = lambda inp: (lambda r: {'failed': isinstance(r, str) or r[0] != 'ok', 'observation': r})(_job_kv1(inp[0]))


def _job_ticks(chunk):
    dmx = _load()
    enc = dmx.TYPE_CONVERT[dmx.ValueType.TIME, dmx.ValueType.BINARY]
    dec = dmx.TYPE_CONVERT[dmx.ValueType.BINARY, dmx.ValueType.TIME]
    import struct
    for n in chunk:
        raw = struct.pack('<i', n)
        t = dec(raw)
        if enc(t) != raw:
            return ('bad', n, f'{n} ticks decode to {t.value!r} and encode back to {struct.unpack("<i", enc(t))[0]}')
        if abs(t.value * 10000.0 - n) > 1e-6 * max(1, abs(n)):
            return ('bad', n, f'{n} ticks decode to {t.value!r}')
    return ('ok', len(chunk), '')


@bounded('C14.B-ticks', bound='native (IEEE) TIME conversion on every tick count within 70000 of 0, of +-2^31 and of '
         'powers of two, plus random 32-bit tick counts (quick 400000, thorough 8000000)', rule='every tick count is a case')
def b_ticks(ctx):
    rng = random.Random(ctx.seed)
    edge = set(range(-70000, 70001)) | set(range(2 ** 31 - 70000, 2 ** 31)) | set(range(-2 ** 31, -2 ** 31 + 70000))
    for p in range(8, 31):
        for d in range(-50, 51):
            edge.add(2 ** p + d)
            edge.add(-2 ** p + d)
    nums = sorted(edge) + [rng.randint(-2 ** 31, 2 ** 31 - 1) for _ in range(8000000 if ctx.thorough else 400000)]
    chunks = [nums[i:i + 20000] for i in range(0, len(nums), 20000)]
    for chunk, res in ctx.pmap(_job_ticks, chunks, batch=64, job_timeout=60.0):
        ctx.evaluations += len(chunk) - 1
        ctx.case((chunk[0], chunk[-1], len(chunk)))
        if isinstance(res, str) or res[0] != 'ok':
            ctx.violation(f'ticks={res[1] if not isinstance(res, str) else chunk[0]}', res if isinstance(res, str) else res[2],
                          [res[1]] if not isinstance(res, str) else chunk[:1])
            return


b_ticks.replay = lambda inp: (lambda r: {'failed': isinstance(r, str) or r[0] != 'ok', 'observation': r})(_job_ticks(inp))
BOUNDED = [b_roundtrip, b_kv1, b_ticks]


_WITNESS = []


def _witness(model=None, obligation=None):
    """Native confirmation for a refuted obligation: the targeted graphs, a few generated ones, tick edges, kv1 trees."""
    from pyvc.driver import _call_with_timeout
    if _WITNESS:
        return _WITNESS[0]
    out = {'failed': False}
    for kind in TARGETED:
        res = _call_with_timeout((_job_targeted, kind, 20.0))
        if isinstance(res, str) or res[0] != 'ok':
            out = {'failed': True, 'scenario': kind, 'observation': res if isinstance(res, str) else res[1][:2]}
            break
    else:
        res = _call_with_timeout((_job_ticks, list(range(-40, 41)) + [2 ** 31 - 1, -2 ** 31], 20.0))
        if isinstance(res, str) or res[0] != 'ok':
            out = {'failed': True, 'scenario': 'ticks', 'observation': res}
        else:
            for seed in range(300):
                res = _call_with_timeout((_job_kv1, seed, 10.0))
                if isinstance(res, str) or res[0] != 'ok':
                    out = {'failed': True, 'scenario': f'kv1 seed {seed}', 'observation': res}
                    break
    _WITNESS.append(out)
    return out


for _c in PROOFS:
    _c.replay_fn = _witness


# ------------------------------------------------------------------------------------------------ self-test catalogue
MUTATIONS = [
    dict(name='array_offset_not_strict', file='dmx.py', old="                if attr_type_data > ARRAY_OFFSET:",
         new="                if attr_type_data >= ARRAY_OFFSET:", expect='typecode.roundtrip'),
    dict(name='array_offset_15', file='dmx.py', old="ARRAY_OFFSET: Final = 14", new="ARRAY_OFFSET: Final = 13",
         expect='typecode.array_codes_do_not_collide_with_scalar_codes'),
    dict(name='time_truncates', file='dmx.py', old="    return _struct_time.pack(round(tim.value * 10000.0))",
         new="    return _struct_time.pack(int(tim.value * 10000.0 + 0.5))", expect='time.encode_after_decode'),
    dict(name='time_other_scale', file='dmx.py', old="    return Time(num / 10000.0)", new="    return Time(num / 1000.0)",
         expect='time.'),
    dict(name='kv1_reserved_checks_real_name', file='dmx.py', old="                if child.name in {'name', 'subkeys'}:",
         new="                if child.real_name in {'name', 'subkeys'}:", expect='reserved_leaf_name_forbids_inlining'),
    dict(name='kv1_duplicates_by_real_name', file='dmx.py',
         old="                if child.name in leaf_names:\n                    no_inline = True\n                else:\n                    leaf_names.add(child.name)",
         new="                if child.real_name in leaf_names:\n                    no_inline = True\n                else:\n                    leaf_names.add(child.real_name)",
         expect='kv1.classify_iteration'),
    dict(name='kv1_inline_ignores_flag', file='dmx.py', old="            if no_inline or child.has_children():\n                assert subkeys is not None",
         new="            if child.has_children():\n                assert subkeys is not None", expect='kv1.inline_branch_is_guarded_by_no_inline'),
    dict(name='kv2_attr_name_unescaped', file='dmx.py', old="                escape_text(attr.name).encode(encoding),",
         new="                attr.name.encode(encoding),", expect='kv2.every_text_is_escaped'),
    dict(name='kv2_array_values_unescaped', file='dmx.py',
         old="                        file.write(b'\"%b\"' % (escape_text(str_value).encode(encoding), ))",
         new="                        file.write(b'\"%b\"' % (str_value.encode(encoding), ))", expect='kv2.every_text_is_escaped'),
    dict(name='stringdb_scalar_strings_from_v5_only', file='dmx.py',
         old="                elif version >= 4 and attr.type is ValueType.STRING and not attr.is_array:\n                    used_strings.add(attr.val_str)",
         new="                elif version >= 5 and attr.type is ValueType.STRING and not attr.is_array:\n                    used_strings.add(attr.val_str)",
         expect='stringdb.collected_under_every_condition_it_is_looked_up'),
    dict(name='stringdb_index_format_differs', file='dmx.py',
         old="        elif version >= 4:\n            stringdb_size = '<i'\n            stringdb_ind = '<h'\n        elif version >= 2:\n            stringdb_size = stringdb_ind = '<h'\n        else:\n            stringdb_size = stringdb_ind = None",
         new="        elif version >= 4:\n            stringdb_size = '<i'\n            stringdb_ind = '<i'\n        elif version >= 2:\n            stringdb_size = stringdb_ind = '<h'\n        else:\n            stringdb_size = stringdb_ind = None",
         expect='stringdb.both_directions_use_the_same_formats_per_version'),
    dict(name='string_arrays_read_as_ascii', file='dmx.py',
         old="binformat.read_nullstr_array(file, array_size, encoding))", new="binformat.read_nullstr_array(file, array_size))",
         expect='encoding.parser_decodes_with_the_file_encoding'),
    dict(name='stub_uuid_not_written', file='dmx.py', old="                            file.write(str(subelem.uuid).encode('ascii') + b'\\0')\n",
         new="", expect='encoding.stub_marker_is_followed_by_its_uuid'),
    dict(name='kv2_stub_random_uuid', file='dmx.py', old="        stub = self[uuid] = StubElement.stub(uuid)",
         new="        stub = self[uuid] = StubElement.stub()", expect='targeted=stub_scalar'),
    dict(name='binary_shared_children_duplicated', file='dmx.py',
         old="                        if not isinstance(subelem, StubElement) and subelem.uuid not in elem_to_ind:\n                            elem_to_ind[subelem.uuid] = len(elements)",
         new="                        if not isinstance(subelem, StubElement):\n                            elem_to_ind[subelem.uuid] = len(elements)",
         expect='targeted=self_ref'),
]
HARMLESS = [
    dict(name='typecode_rename', file='dmx.py',
         old="                typ_ind = VAL_TYPE_TO_IND[attr.type]\n                if attr.is_array:\n                    typ_ind += ARRAY_OFFSET",
         new="                typ_ind = VAL_TYPE_TO_IND[attr.type]\n                if attr.is_array:\n                    typ_ind = typ_ind + ARRAY_OFFSET"),
    dict(name='time_round_spelled_out', file='dmx.py', old="    return _struct_time.pack(round(tim.value * 10000.0))",
         new="    ticks = round(tim.value * 10000.0)\n    return _struct_time.pack(ticks)"),
]
