"""C02 -- escape_text and the tokenizer are exact inverses on every string.

Proof tier: tables (taken from the AST of tokenizer.py) + one-character step lemma over the real loop body of
Tokenizer._handle_string + closing-quote lemma + "no raw quote / line break" lemma; the statement for all strings is
the induction over the characters of s (fixed meta-argument).  `_next_char` is used through its contract (text, p)
-> (text[p+1] or None), which C03 proves against the real chunk-refill code.
Bounded tier: exhaustive differential test on the real Tokenizer.
"""
import itertools
import re

import z3

from pyvc import extract, smt
from pyvc.driver import bounded
from pyvc.symexec import ExcVal, Obj, PList, Obligation, to_z3
from pyvc.vc import Contract, Lemma, Registry, native

REG = Registry()
PROP = 'C02'
LEVEL = 'proof'
EXPLANATION = ('For every character c and both modes: starting at the loop head of Tokenizer._handle_string with the '
               'remaining input beginning with e(c) = the escaped form of c (from ESCAPES_INV and the two regexes in '
               'the AST), exactly one iteration appends c, consumes |e(c)| characters, restores last_was_cr = False and '
               'advances line_num iff c is a raw line feed; a following quote returns (STRING, joined characters). '
               'e(c) never contains a raw quote nor (single-line) a raw line break. Tables, regex shape and '
               '_escape_matcher are separate obligations. The all-strings statement follows by induction on |s|.')
TRUSTED = ['re.sub(pattern, f, s) for a pattern that is an alternation of single characters replaces exactly the '
           'characters in that set by f(match) (the set itself is established by exhaustive matching)',
           'Tokenizer._next_char contract (proved in C03)', 'induction over the characters of s (meta-argument)']
UNVERIFIED = ['_tokenizer.pyx (Cython twin of escape_text and Tokenizer)']
M = 'tokenizer'


def tables():
    mod = extract.load(M)
    return mod.const('ESCAPES'), mod.const('ESCAPES_INV'), mod.const('ESCAPE_RE'), mod.const('ESCAPE_MULTILINE_RE')


def escaped_set(rx):
    """The set of single characters the regex matches, established by trying every code point."""
    return frozenset(chr(i) for i in range(0x110000) if not (0xD800 <= i <= 0xDFFF) and rx.fullmatch(chr(i)))


_sets = {}


def sets():
    key = extract.REPO
    if key not in _sets:
        _, _, rx, rxm = tables()
        _sets[key] = (escaped_set(rx), escaped_set(rxm))
    return _sets[key]


# ------------------------------------------------------------------------------------------------ table obligations
def _res(name, ok, note=''):
    return smt.Result(name, 'proved' if ok else 'refuted', 'table-eval', 0.0, {}, 0, 0, note)


def static_tables(repo):
    esc, inv, rx, rxm = tables()
    single, multi = sets()
    out = []
    # the regexes match single characters only (no longer match anywhere): alternation of literals
    probe = ''.join(sorted(single | multi)) * 2 + 'ab\n\r"\\'
    out.append(_res('tables.regex_matches_single_chars_only',
                    all(len(m.group()) == 1 for m in rx.finditer(probe)) and
                    all(len(m.group()) == 1 for m in rxm.finditer(probe))))
    out.append(_res('tables.escaped_set_single_mode', single == frozenset('\n\t\v\b\r\f\a\\\'"'), repr(sorted(single))))
    out.append(_res('tables.escaped_set_multiline_mode', multi == frozenset('\t\v\b\r\f\a\\\'"'), repr(sorted(multi))))
    out.append(_res('tables.every_escaped_char_has_an_inverse_entry', all(c in inv for c in single | multi)))
    ok = all(len(inv[c]) == 2 and inv[c][0] == '\\' and esc.get(inv[c][1]) == c for c in single | multi)
    out.append(_res('tables.ESCAPES_inverts_ESCAPES_INV', ok, 'ESCAPES[ESCAPES_INV[c][1]] == c for every escaped c'))
    out.append(_res('tables.quote_backslash_cr_always_escaped', all(c in multi and c in single for c in '"\\\r')))
    out.append(_res('tables.lf_escaped_in_single_line_mode', '\n' in single and '\n' not in multi))
    # no escape letter is itself a line feed (the tokenizer treats backslash + LF as a continuation)
    out.append(_res('tables.no_escape_symbol_is_a_line_break', all(inv[c][1] not in '\r\n' for c in single | multi)))
    return out


STATIC = [static_tables]


# ------------------------------------------------------------------------------------------------ _next_char contract
next_char = REG.add(Contract('tokenizer:Tokenizer._next_char', PROP, name='Tokenizer._next_char(assumed here, proved in C03)'))


@next_char.result
def _(h, vals):
    I = h.I
    self = vals['self']
    pos = self.fields['_gpos'] + 1
    self.fields['_gpos'] = pos
    text = self.fields['_gtext']
    if I.path.branch(pos < z3.Length(text), 'next_char.has_more'):
        return z3.SubString(text, pos, 1)
    return None


err = REG.add(Contract('tokenizer:BaseTokenizer.error', PROP, name='BaseTokenizer.error(summary)'))


@err.result
def _(h, vals):
    return ExcVal('TokenSyntaxError', ())


@native
def esc_form(I, c, multiline):
    """e(c): ESCAPES_INV[c] if c is in the mode's escaped set, else c itself (tables from the AST)."""
    _, inv, _, _ = tables()
    single, multi = sets()
    c = to_z3(c)
    ml = to_z3(multiline)
    e = c
    for ch in sorted(single | multi):
        cond = c == z3.StringVal(ch)
        if ch in single and ch in multi:
            e = z3.If(cond, z3.StringVal(inv[ch]), e)
        elif ch in single:
            e = z3.If(z3.And(cond, z3.Not(ml)), z3.StringVal(inv[ch]), e)
        else:
            e = z3.If(z3.And(cond, ml), z3.StringVal(inv[ch]), e)
    return e


def _tokenizer(h):
    text = h.str('text')
    p0 = h.int('p0')
    line = h.int('line0')
    h.assume(p0 >= -1)
    tok = Obj('Tokenizer', dict(allow_escapes=True, line_num=line, _gpos=p0, _gtext=text, filename=None,
                                string_bracket=h.bool('string_bracket'), string_parens=h.bool('string_parens'),
                                allow_star_comments=h.bool('star'), colon_operator=h.bool('colon'),
                                plus_operator=h.bool('plus'), preserve_comments=h.bool('keep_comments'),
                                _last_was_cr=h.bool('outer_cr')), module=M)
    return tok, text, p0, line


# ------------------------------------------------------------------------------------------------ step lemma
step = REG.add(Lemma('handle_string.one_character', PROP, [{'body': f'{M}:Tokenizer._handle_string', 'loop': 0}],
                     inline=()))


@step.setup
def _(h):
    tok, text, p0, line = _tokenizer(h)
    c = h.char('c')
    ml = h.bool('multiline')
    V = h.str('V')
    e = esc_form.__wrapped__(h.I, c, ml) if hasattr(esc_form, '__wrapped__') else esc_form(h.I, c, ml)
    # the remaining input starts with e(c)
    h.assume(z3.SubString(text, p0 + 1, z3.Length(e)) == e)
    h.assume(p0 + 1 + z3.Length(e) <= z3.Length(text))
    return {'locals': dict(self=tok, value_chars=PList([V]), last_was_cr=False),
            'ghost': dict(c=c, multiline=ml, V=V, p0=p0, line0=line, e=e)}


@native
def joined(I, lst):
    from pyvc.builtins_model import str_concat
    return str_concat(I, list(lst.items))


@step.ensures
def stays_in_loop(exit_kind):
    return exit_kind == 'normal' or exit_kind == 'continue'


@step.ensures
def appended_exactly_c(value_chars, V, c):
    return joined(value_chars) == V + c


@step.ensures
def consumed_exactly_the_escaped_form(self, p0, e):
    return self._gpos == p0 + len(e)


@step.ensures
def carriage_return_flag_clear(last_was_cr):
    return last_was_cr == False   # noqa: E712


@step.ensures
def line_number_counts_raw_line_feeds(self, line0, c, multiline):
    return self.line_num == line0 + (1 if (c == '\n' and multiline) else 0)


# ------------------------------------------------------------------------------------------------ closing quote
close = REG.add(Lemma('handle_string.closing_quote', PROP, [{'body': f'{M}:Tokenizer._handle_string', 'loop': 0}],
                      inline=()))


@close.setup
def _(h):
    tok, text, p0, line = _tokenizer(h)
    V = h.str('V')
    h.assume(z3.SubString(text, p0 + 1, 1) == z3.StringVal('"'))
    h.assume(p0 + 2 <= z3.Length(text))
    return {'locals': dict(self=tok, value_chars=PList([V]), last_was_cr=False),
            'ghost': dict(V=V, p0=p0, line0=line)}


@close.ensures
def returns_string_token_with_joined_value(exit_kind, result, V):
    return exit_kind == 'return' and result[0] == STRING_TOKEN and result[1] == V


@close.ensures
def cursor_just_after_the_quote(self, p0, line0):
    return self._gpos == p0 + 1 and self.line_num == line0


STRING_TOKEN = 1   # Token.STRING.value (checked against the AST below)
EOF_TOKEN = 0


def static_token_values(repo):
    mod = extract.load(M)
    vals = mod.enum_members('Token')
    return [_res('tables.Token.STRING_is_1', vals.get('STRING') == STRING_TOKEN),
            _res('tables.Token.EOF_is_0', vals.get('EOF') == EOF_TOKEN)]


STATIC.append(static_token_values)

# ------------------------------------------------------------------------------------------------ no raw quote / newline
def static_no_raw(repo):
    """Escaped text is a sequence of units e(c); a unit is either one character that is not a quote or a backslash
    (nor CR; nor LF in single-line mode), or a backslash followed by one character that is not a line break.  Hence
    every quote in escaped text is preceded by an odd number of backslashes (never raw), and raw line breaks occur
    only as LF in multiline mode.  Proved for all characters c over the tables (z3 strings)."""
    from pyvc.symexec import Path, Interp
    I = Interp(Path([], []))
    c = z3.String('c')
    obs = []
    q, bs, cr, lf = (z3.StringVal(x) for x in ('"', '\\', '\r', '\n'))
    for ml in (False, True):
        e = esc_form(I, c, ml)
        pre = [z3.Length(c) == 1]
        first, second = z3.SubString(e, 0, 1), z3.SubString(e, 1, 1)
        tag = 'multiline' if ml else 'single_line'
        obs.append(Obligation(f'no_raw.{tag}.unit_has_one_or_two_chars', pre, z3.Or(z3.Length(e) == 1, z3.Length(e) == 2)))
        plain_ok = z3.And(e != q, e != bs, e != cr) if ml else z3.And(e != q, e != bs, e != cr, e != lf)
        obs.append(Obligation(f'no_raw.{tag}.plain_unit_is_not_quote_backslash_or_break', pre,
                              z3.Implies(z3.Length(e) == 1, plain_ok)))
        obs.append(Obligation(f'no_raw.{tag}.escaped_unit_is_backslash_plus_non_break', pre,
                              z3.Implies(z3.Length(e) == 2, z3.And(first == bs, second != cr, second != lf))))
    return smt.discharge(obs, timeout_ms=20000)


STATIC.append(static_no_raw)

# ------------------------------------------------------------------------------------------------ _escape_matcher
matcher = REG.add(Contract(f'{M}:_escape_matcher', PROP))


@matcher.setup
def _(h):
    from pyvc.symexec import Builtin
    g = h.char('g')
    _, inv, _, _ = tables()
    h.assume(z3.Or(*[g == z3.StringVal(k) for k in inv]))
    m = Obj('Match', {'group': Builtin('group', lambda: g)}, module='')
    return {'args': [m], 'ghost': {'g': g}}


@native
def inv_lookup(I, g):
    _, inv, _, _ = tables()
    g = to_z3(g)
    e = z3.StringVal('')
    for k, v in inv.items():
        e = z3.If(g == z3.StringVal(k), z3.StringVal(v), e)
    return e


@matcher.ensures
def returns_table_entry(result, g):
    return result == inv_lookup(g)


PROOFS = [step, close, matcher]


# ------------------------------------------------------------------------------------------------ bounded differential
ALPHA = ['\\', '"', "'", '\r', '\n', '\t', '\v', '\b', '\f', '\a', '?', '/', 'n', 't', 'a', '\U0001F600']


def _roundtrip(s, multiline, prefix='', suffix=''):
    from srctools.tokenizer import Tokenizer, Token, escape_text
    esc = escape_text(s, multiline)
    i = 0
    while i < len(esc):       # a character is raw unless it directly follows an (unescaped) backslash
        if esc[i] == '\\':
            i += 2
            continue
        if esc[i] == '"':
            return f'escaped text contains a raw quote at {i}: {esc!r}'
        if esc[i] == '\r' or (esc[i] == '\n' and not multiline):
            return f'escaped text contains a raw line break at {i}: {esc!r}'
        i += 1
    toks = list(Tokenizer(prefix + '"' + esc + '"' + suffix, allow_escapes=True))
    want = [(Token.STRING, s)]
    if prefix:
        want = [(Token.STRING, 'key')] + want
    if suffix:
        want = want + [(Token.NEWLINE, '\n')]
    if toks != want:
        return f'tokens {toks!r} != {want!r} for escaped {esc!r}'
    t = Tokenizer('"' + esc + '"')
    t()
    if [t(), t(), t()] != [(Token.EOF, '')] * 3:
        return 'no endless EOF after the string'
    return None


@bounded('C02.B-differential', bound='all strings of length <= 4 (thorough: <= 5) over a 16-character alphabet (every '
         'escape character, ? / n t a, one non-BMP character), both modes, bare and embedded in a "key" ... line; every '
         'code point 0..0x2FF and a sample of planes as single characters',
         rule='one case per (string, mode); non-trivial when the string contains a character that escape_text changes')
def b_differential(ctx):
    from srctools.tokenizer import escape_text
    n = 5 if ctx.thorough else 4
    for length in range(0, n + 1):
        for t in itertools.product(ALPHA, repeat=length):
            s = ''.join(t)
            for ml in (False, True):
                ctx.case((s, ml), nontrivial=escape_text(s, ml) != s)
                bad = _roundtrip(s, ml)
                if not bad and length <= 3:
                    bad = _roundtrip(s, ml, prefix='key ', suffix='\n')
                if bad:
                    ctx.violation(f'string={s!r}.ml={ml}', bad, [s, ml])
        if ctx.out_of_time():
            break
    for cp in list(range(0, 0x300)) + list(range(0x2000, 0x2100)) + [0xFEFF, 0xFFFF, 0x10000, 0x10FFFF]:
        s = 'x' + chr(cp) + 'y'
        for ml in (False, True):
            ctx.case((s, ml), nontrivial=False)
            bad = _roundtrip(s, ml)
            if bad:
                ctx.violation(f'codepoint={cp:#x}.ml={ml}', bad, [s, ml])


b_differential.replay = lambda inp: (lambda r: {'failed': bool(r), 'observation': r})(_roundtrip(inp[0], inp[1]))
BOUNDED = [b_differential]


def _witness(model, obligation):
    for length in range(0, 4):
        for t in itertools.product(ALPHA, repeat=length):
            for ml in (False, True):
                bad = _roundtrip(''.join(t), ml)
                if bad:
                    return {'failed': True, 'string': ''.join(t), 'multiline': ml, 'observation': bad}
    return {'failed': False}


for _c in (step, close, matcher):
    _c.replay_fn = _witness


# ------------------------------------------------------------------------------------------------ escape_text itself
from pyvc.symexec import Builtin, FuncVal, UninterpFn, Unsupported  # noqa: E402

SUB = UninterpFn('re_sub_with_escape_matcher', z3.IntSort(), z3.StringSort(), z3.StringSort())
HAS = UninterpFn('re_search_matches', z3.IntSort(), z3.StringSort(), z3.BoolSort())


def _pattern(pid):
    """Model of a compiled pattern object: .sub(f, s) and .search(s) as uninterpreted functions of (pattern, s),
    with the one law used: no match => sub leaves the text unchanged."""
    def sub(func, text, *rest):
        if rest or not (isinstance(func, FuncVal) and func.qualname == '_escape_matcher'):
            raise Unsupported('escape_text must substitute with _escape_matcher over the whole text')
        return SUB.decl(z3.IntVal(pid), to_z3(text))

    def search(text, *rest):
        if rest:
            raise Unsupported('search with position arguments')
        return HAS.decl(z3.IntVal(pid), to_z3(text))
    return Obj('Pattern', {'sub': Builtin('sub', sub), 'search': Builtin('search', search), 'pid': pid}, module='')


esc_text = REG.add(Contract(f'{M}:escape_text', PROP))
esc_text.globals['ESCAPE_RE'] = _pattern(0)
esc_text.globals['ESCAPE_MULTILINE_RE'] = _pattern(1)


@esc_text.setup
def _(h):
    text = h.str('text')
    for pid in (0, 1):
        t = z3.String('law!t')
        h.assume(z3.ForAll([t], z3.Implies(z3.Not(HAS.decl(z3.IntVal(pid), t)), SUB.decl(z3.IntVal(pid), t) == t)))
    return {'args': [text, h.bool('multiline')]}


@native
def sub_of(I, multiline, text):
    return SUB.decl(z3.If(to_z3(multiline), 1, 0), to_z3(text))


@esc_text.ensures
def is_the_substitution_with_the_modes_own_pattern(text, multiline, result):
    return result == sub_of(multiline, text)


esc_text.replay_fn = _witness
PROOFS.append(esc_text)

MUTATIONS = [
    dict(name='drop_escape_r', file='tokenizer.py', old="    'r': '\\r',\n", new="", expect='C02'),
    dict(name='regex_without_apostrophe', file='tokenizer.py', old="    if c not in '?/'\n))", new="    if c not in \"?/'\"\n))",
         expect='tables'),
    dict(name='cr_flag_left_set', file='tokenizer.py',
         old="                self.line_num += 1\n            else:\n                last_was_cr = False\n\n            if next_char == '\\\\' and self.allow_escapes:",
         new="                self.line_num += 1\n            else:\n                last_was_cr = True\n\n            if next_char == '\\\\' and self.allow_escapes:",
         expect='handle_string.one_character'),
    dict(name='escaped_newline_not_counted', file='tokenizer.py',
         old="                if last_was_cr:\n                    last_was_cr = False\n                    continue\n                self.line_num += 1\n            else:\n                last_was_cr = False",
         new="                if last_was_cr:\n                    last_was_cr = False\n                    continue\n            else:\n                last_was_cr = False",
         expect='line_number'),
    dict(name='escape_fast_path_wrong_regex', file='tokenizer.py',
         old="    return (ESCAPE_MULTILINE_RE if multiline else ESCAPE_RE).sub(_escape_matcher, text)",
         new="    if not ESCAPE_MULTILINE_RE.search(text):\n        return text\n    return (ESCAPE_MULTILINE_RE if multiline else ESCAPE_RE).sub(_escape_matcher, text)",
         expect='escape_text'),
]
HARMLESS = [
    dict(name='escape_fast_path_right_regex', file='tokenizer.py',
         old="    return (ESCAPE_MULTILINE_RE if multiline else ESCAPE_RE).sub(_escape_matcher, text)",
         new="    pattern = ESCAPE_MULTILINE_RE if multiline else ESCAPE_RE\n    if not pattern.search(text):\n        return text\n    return pattern.sub(_escape_matcher, text)"),
    dict(name='append_as_iadd', file='tokenizer.py',
         old="            if next_char is None:\n                raise self.error('Unterminated string!')\n            else:\n                value_chars.append(next_char)",
         new="            if next_char is None:\n                raise self.error('Unterminated string!')\n            else:\n                value_chars += [next_char]"),
]
