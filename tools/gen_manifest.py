#!/usr/bin/env python3
"""Regenerate MANIFEST.json from the property table below (kept in one place so it stays valid)."""
import json, os, sys
HERE = os.path.dirname(os.path.dirname(os.path.abspath(__file__)))
sys.path.insert(0, HERE)
from tools.manifest_table import CHECKS, NOT_APPLICABLE  # noqa

BASE = json.load(open('/root/.vp/BASELINE.json'))['cmd'] if os.path.exists('/root/.vp/BASELINE.json') else \
    'cd /repo && /venv/bin/python -m pytest -ra -q -p no:cacheprovider --timeout=900 --continue-on-collection-errors'
BASE = BASE.replace(' --junitxml=<file>', '')
checks = []
for pid, c in sorted(CHECKS.items()):
    checks.append({
        'property_id': pid,
        'quick_cmd': f'./check {pid} --tier quick',
        'thorough_cmd': f'./check {pid} --tier thorough',
        'evidence_file': f'/verif/evidence/{pid}.json',
        'replay_cmd_template': f'./check {pid} --replay {{path}}',
        'engine': 'pyvc',
        'level_claimed': {'category': c['category'], 'text': c['text'], 'design_ref': c.get('design_ref', f'DESIGN.md section 3/{pid}')},
        'level_note': c['note'],
        'technique': c['technique'],
    })
manifest = {
    'version': 1,
    'setup_cmd': './setup.sh',
    'hooks': {
        'guard': 'SRCTOOLS_VERIF',
        'enable': 'no instrumentation is added to /repo: contracts live in sidecar files under /verif/contracts and '
                  'the functions are re-read from /repo/src on every run; the guard is therefore unused',
        'baseline_off_cmd': BASE,
        'source_commits': [],
        'add_only': True,
    },
    'engines': [
        {'name': 'pyvc', 'path': '/verif/pyvc', 'serves_properties': sorted(CHECKS),
         'kind_free_text': 'verification-condition generator for Python (ast -> symbolic execution against sidecar '
                           'contracts -> z3, cvc5 fall-back) plus the bounded stand-in tier (contracts evaluated on '
                           'the real functions over enumerated inputs)'},
    ],
    'checks': checks,
    'not_applicable': [{'property_id': k, 'reason': v} for k, v in sorted(NOT_APPLICABLE.items())],
    'notes': 'Exit codes of ./check: 0 held, 1 violation (VIOLATION line), 2 undecided (never reported as a '
             'violation), 3 checker crash. Known findings: /verif/KNOWN_FINDINGS.txt. The pinned baseline suite '
             'imports the installed srctools 2.7.0 wheel, not /repo/src; the checks always read and run /repo/src.',
}
json.dump(manifest, open(os.path.join(HERE, 'MANIFEST.json'), 'w'), indent=1)
print('wrote MANIFEST.json with', len(checks), 'checks,', len(NOT_APPLICABLE), 'not applicable')
