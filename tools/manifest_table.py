"""Per-property manifest entries (source of MANIFEST.json; run tools/gen_manifest.py after editing)."""
CHECKS = {
    'C08': dict(
        category='proof',
        technique='contract-based deductive verification: pyvc VCs from the real AST discharged by z3; syntactic '
                  'ownership obligations; bounded history stand-in',
        text='IDMan (get_id/discard/remove/clear/__init__/__contains__), NullIDMan.get_id and the EntityFixup '
             'lowest-unused-index loop are proved against contracts for all states and all iterations (quantified '
             'representation invariant, loop invariant and variant); the ownership discipline that lifts this to '
             '"no two live objects share an id" is decided as syntactic obligations over every .id store and every '
             'release site; the composition over operation histories is exercised by a bounded stand-in on the real '
             'classes (not counted as proved).',
        note='trusted: pyvc encoding, z3/cvc5, attrs-generated __init__ reconstruction, finiteness of Python sets, '
             'CPython finaliser timing; node-id ownership is bounded-only (one known finding recorded).'),
}
CHECKS['C14'] = dict(
    category='other',
    technique='contract-based deductive verification of the wire kernels (pyvc lemmas over statement fragments of '
              'export_binary/parse_bin located in the AST on every run, TIME conversion, from_kv1 loop iterations; AST '
              'obligations for string table, formats, escaping, encodings); bounded generator-based graph round trips',
    text='Proved on the real code: the type byte written by export_binary is decoded by parse_bin to the same value type '
         'and scalar/array shape for all 14 types (encoder statements followed by decoder statements, full finite domain); '
         'the TIME tick conversion is the identity on every 32-bit tick count and within half a tick otherwise (real '
         'arithmetic); from_kv1 stores a leaf as an attribute only when its folded name is neither reserved nor repeated '
         '(per-iteration lemmas + AST glue). AST obligations: every string looked up in the binary string table was '
         'collected under the same conditions (guards evaluated exhaustively over version x type x shape), both '
         'directions use the same struct formats per version, every KeyValues2 text goes through escape_text, every '
         'string is decoded with the encoding it was written in, stub markers carry their UUID. The graph isomorphism '
         'itself (sharing, cycles, stubs, NULLs, order, all types x versions 1-5 x unicode modes, KeyValues2 nested/flat x '
         'cull_uuid, KV1 bridge also through files) is a bounded stand-in over generated graphs - not counted as proved.',
    note='trusted: struct pack/unpack, uuid, float arithmetic as real arithmetic in the TIME lemma (IEEE behaviour sampled '
         'natively), escape/unescape inverse from C02.')
CHECKS['C15'] = dict(
    category='other',
    technique='contract-based deductive verification of the pixel-codec kernels (pyvc bit-vector VCs over the real '
              'loop bodies and slice assignments, z3); bounded container round trip and frame-to-frame copies as stand-in',
    text='For all 20 writable uncompressed formats the real save and load code is executed symbolically in sequence '
         'on buffers of arbitrary size: save-then-load equals the documented quantisation, load-then-save reproduces '
         'the stored bytes, each iteration touches only its own pixel, every stored value fits a byte; Frame pixel '
         'access is proved bounds-checked and scale_down (bilinear) proved to average exactly the four parent texels '
         'with all indices in range. The VTF container (header, resources, frame order, sheets, lazy loading) is only '
         'exercised by a bounded round-trip stand-in and is not counted as proved - hence category other.',
    note='trusted: pyvc encoding (64-bit vectors with no-overflow obligations), z3, memoryview slice semantics, '
         'non-overlap of pixel and data buffers; unverified: Cython twin, DXT decoders, nearest-neighbour filters.')
CHECKS['C11'] = dict(
    category='other',
    technique='contract-based deductive verification of the codec kernels (pyvc segment lemmas over the real '
              'encoder/decoder loop bodies, quantified array obligations, z3); bounded write->read pairs, hand-built '
              'face / node / entity cases as stand-in',
    text='Texture name block: one arbitrary iteration of the real _lmp_write_textures loop followed by the reader\'s '
         'terminator search is proved, for every name without NUL and every earlier block content, to read back exactly '
         'the name from the offset written, to only append to the block, and to reject exactly the names of 128+ '
         'characters. '
         'Run-length codec: one arbitrary iteration of the real runlength_encode / runlength_decode loops is proved '
         'to emit / consume exactly a literal run plus zero-run markers whose counts are in 1..255 and add up to the '
         'run length (inner loops by invariant + variant); find_or_insert proved to return a stable index of an '
         'equal-keyed element and keep its index map consistent. The whole-buffer round trip is the structural '
         'induction over these segments (stated, not mechanised). Structured lumps (static props in 13 format '
         'versions, detail props, overlays, visibility, cubemaps, planes, vertexes, textures, leaf water, primitives), '
         'find_or_extend, LZMA header and rejection of unrepresentable values are bounded stand-ins on the sample BSP.',
    note='trusted: bytes.index summary, struct/lzma modules, pyvc encoding; the sample BSP has no faces/edges/'
         'physics data, so nodes/leafs/faces/bmodels cross references are not exercised by the bounded tier.')
CHECKS['C10'] = dict(
    category='other',
    technique='contract-based deductive verification: pyvc proof of the ParsedLump get/set protocol + syntactic '
              'effect/ordering obligations for every lump reader and writer + the run-length codec lemmas of C11 re-run '
              '(visibility rows); bounded access-subset stand-in on the sample and a hand-enriched map',
    text='ParsedLump.__get__/__set__ are proved against the lazy-view contract (cached value returned with no effect; '
         'first access parses the raw data once, caches, empties exactly the view\'s own lumps). For all 21 views the '
         'frame obligations that make access order irrelevant are decided on the AST: each writer takes its value from '
         'its argument, reads only views rebuilt later in LUMP_REBUILD_ORDER, reassigns every secondary lump it owns '
         'and no foreign one; each reader reads raw data only of its own lumps or of lumps no view clears. The '
         'byte-level statement (unparsed lumps identical, parsed views equal, second save idempotent) is a bounded '
         'stand-in over the empty set, all single views, sampled ordered pairs and seeded larger subsets on the sample '
         'BSP and an enriched copy - not counted as proved.',
    note='trusted: AST effect analysis follows self.<helper>() calls one level; zipfile/lzma; only one BSP layout '
         '(the sample file) is exercised by the bounded tier; BSP.read/save header arithmetic is bounded-only.')
CHECKS['C01'] = dict(
    category='proof',
    technique='contract-based deductive verification: pyvc contracts of Keyvalues._serialise against a recursive text '
              'specification (modulo indentation), per-iteration lemmas of the Keyvalues.parse token loop over a scripted '
              'tokenizer model, frame obligations; C02/C03 tokenizer contracts as dependencies; bounded round trips',
    text='Writer: every path of _serialise (leaf, named block of width 0-3, root, one arbitrary iteration of each child '
         'loop) emits exactly SER = quoted escape_text(name) [quoted escape_text(value)] / brace lines / the children\'s '
         'SER, compared after erasing the indentation parameters; serialise() passes the options only into indentation '
         'and brace lines; _serialise stores nothing into the tree. Parser: from an arbitrary loop state each token '
         'pattern SER produces (name value NL / name NL / NL / { / }) appends exactly the node with the token\'s exact '
         'name and value, or pushes / pops the block stack, and is rejected only for a line break in a name. With C02 '
         '(quoted escape_text(s) tokenizes to STRING s) and C03 (chunk independence) the all-trees round trip is the '
         'structural induction over the tree - a meta-argument; the bounded tier runs generated trees x options x input '
         'kinds (str, chunks, characters, file object) on the real code.',
    note='trusted: C02/C03 tokenizer contracts, the structural induction, StringIO.write appends.')
CHECKS['C02'] = dict(
    category='proof',
    technique='contract-based deductive verification: pyvc step lemma over the real _handle_string loop body (z3 '
              'strings), table obligations evaluated from the AST, contract on escape_text; induction over the string '
              'as fixed meta-argument; exhaustive differential stand-in',
    text='For every character c and both modes one iteration of the real Tokenizer._handle_string loop, started on '
         'input beginning with the escaped form e(c) (tables and regexes read from the AST), appends exactly c, consumes '
         'exactly |e(c)| characters, leaves the CR flag clear and counts raw line feeds; a following quote returns '
         '(STRING, joined value) with the cursor just behind it, for arbitrary surrounding text and tokenizer state; '
         'escape_text is proved to be the substitution by _escape_matcher over the mode\'s own pattern, _escape_matcher '
         'the table lookup, and every e(c) a one- or two-character unit that can contain neither a raw quote nor (single '
         'line) a raw line break. The statement for all strings is the induction over |s| on these lemmas.',
    note='trusted: pyvc/z3 string encoding, the re.sub summary for single-character alternations (character sets '
         'established by matching every code point), the _next_char contract (discharged in C03); Cython twin unverified.')
CHECKS['C03'] = dict(
    category='proof',
    technique='contract-based deductive verification: pyvc refinement proof of _next_char against the remaining text '
              '(loop invariant over the chunk iterator), frame/rewind obligations on the AST, totality and progress '
              'lemmas over every tokenizer loop body for symbolic options; cut/uncut differential stand-in',
    text='Tokenizer._next_char is proved, for any sequence of chunks (empty ones included), to return the first character '
         'of the remaining concatenated text and leave its tail - hence every token, value, line number and error is a '
         'function of the text alone, however it is cut; the chunk state is shown private to _next_char and the one-step '
         'rewind idiom, and each rewind follows a read. _handle_string, _handle_comment and one arbitrary iteration of '
         '_get_token are executed symbolically for arbitrary characters with all seven options symbolic: nothing but '
         'self.error() escapes (error templates checked for arity at every call site) and every continuing iteration '
         'advances the position (linear bound). Keyvalues.parse totality and the literal cut/uncut comparison are '
         'bounded stand-ins.',
    note='trusted: pyvc/z3 encoding, uninterpreted concatenation of unread chunks with its two axioms, error() summary, '
         'enum members as values; Keyvalues.parse and IterTokenizer sources are bounded-only; Cython tokenizer unverified.')
CHECKS['C05'] = dict(
    category='proof',
    technique='contract-based deductive verification: class-invariant obligations on every angle-slot store found by '
              'an AST scan + two Float64 lemmas (z3 FP theory); frame obligations for frozen classes by fresh-object '
              'analysis; symbolic execution of format_float over a numeral-shape model; bounded API histories',
    text='Invariant 0 <= pitch,yaw,roll < 360: every store to an angle slot in math.py is enumerated and shown to be a '
         'double modulo, a copy of another angle slot or an in-range literal, and the IEEE-754 facts behind the double '
         'modulo are proved (a single modulo can return exactly 360.0 - also proved, as a vacuity guard). Frozen values: '
         'every slot store and every call of the in-place helpers is shown to target self of a mutable class or an '
         'object created in the same function. format_float: the real body is executed on every shape of a '
         'fixed-point numeral (sign, integer part, number of trailing zeros): never "-0", no trailing zeros or bare '
         'dot, significant digits kept. Operation histories and str/from_str round trips over the public API are a '
         'bounded stand-in.',
    note='trusted: the float-modulo model (fmod axioms), the shape of f"{x:.6f}", freshness of constructor results, '
         'pyvc/z3; NaN/infinity excluded by the property; Cython twin unverified.')
CHECKS['C12'] = dict(
    category='proof',
    technique='contract-based deductive verification: pyvc lemmas that run the real AtomicWriter.__enter__ / '
              'make_tempfile / __exit__ on an axiomatised directory (name -> content, owned temp set) with a '
              'non-deterministic OSError at every primitive; obligations on every primitive (crash points); AST '
              'obligations for BSP.save; bounded native fault injection',
    text='Eight lemmas (commit, empty commit, body abandoned by Exception / KeyboardInterrupt / SystemExit, re-entering '
         'without exit, re-use after commit and after abandon) execute the real make_tempfile/__enter__/__exit__ bodies '
         'against a file-system model in which any one primitive (mkdir, open, write, close, unlink, rename) may fail '
         'and any tmp_N may belong to another writer. Proved for all names and fault choices: before every primitive '
         '(= at every kill point) the destination holds the old or the complete new content; the destination changes '
         'only through one rename of an own, successfully closed temp after the body completed; open is exclusive and '
         'never on the destination; unlink/rename touch only temps this writer currently owns; after success the new '
         'content is in place and no temp is left; after an abandoned or failed write the old content remains and no '
         'temp is left (except when the injected failure is the cleanup unlink itself). BSP.save is shown (AST) to '
         'touch the file system only inside one `with AtomicWriter(filename or self.filename)` block. Native fault '
         'injection (single faults x body exits x taken temp names, two interleaved writers, BSP.save with every '
         'write torn) is a bounded stand-in.',
    note='trusted: the directory model (exclusive create and rename are atomic, a failed primitive changes nothing); '
         'durability/fsync is outside the property; side condition: the destination is not itself named tmp_N.')
CHECKS['C13'] = dict(
    category='other',
    technique='contract-based deductive verification: pyvc lemmas running the real FileInfo.write then read/verify '
              'over a file-system model (z3/cvc5 strings), all placements and limits; bounded archive histories with '
              'an independent directory decoder',
    text='For directory and single-file archives, preload limit None / 0 / symbolic n, archive index None / 0 / 1, '
         'arbitrary data and arbitrary previous entry state, the real FileInfo.write followed by the real read(), '
         'verify() and size is executed symbolically over a model of the archive files and the in-memory footer: read() '
         'returns exactly the data, the checksum verifies, size is its length and the preload fits the 16-bit field; a '
         'read-only archive raises ValueError and changes nothing; _join_file_parts proved. (Quick tier: all directory '
         'cases + one single-file case; thorough: all.) Directory tree encoding, reopen in r/w/a, deletion and the three '
         'name forms are bounded stand-ins on real archives, cross-checked with an independent decoder.',
    note='trusted: file model (append/seek/read), CRC32 uninterpreted, bytes as z3 strings, pyvc; write_dirfile / '
         'load_dirfile and _get_file_parts are bounded-only; Cython iter_nullstr twin unverified.')
CHECKS['C16'] = dict(
    category='other',
    technique='contract-based deductive verification of the string-splitting kernel _write_longstring (pyvc loop-iteration '
              'and tail lemmas over z3 strings with rfind/rstrip models, symbolic limit) + AST obligations on the FGD and '
              'engine-database writers; bounded generator-based round trips incl. the whole bundled database',
    text='Proved for texts of every length and every limit >= 2: each iteration of the _write_longstring loop appends one '
         'quoted, non-empty section of at most LIMIT characters that is a prefix of the remaining text and keeps exactly '
         'the rest (nothing lost or duplicated, progress), a cut at the limit never ends in an odd run of backslashes, and '
         'after the loop at least one quoted section is written (the empty string becomes ""), joined by " +" NL indent. '
         'AST obligations: every quoted text KVDef.export writes is escaped with the caller\'s syntax flag, choices values '
         'are bare only when plain numbers, aliases are written as aliasof(), build_blocks drops no block before the '
         'overflow entities are placed, the binary entity header counts what is written. Whole-definition round trips '
         '(text x custom_syntax x label_spawnflags, binary format, the complete bundled database through text, lazy '
         'lookups in pseudo-random orders) are a bounded stand-in - not counted as proved.',
    note='trusted: escape pairs are two characters starting with a backslash (C02); rfind modelled as "some occurrence in '
         'the window or -1". One known finding (resource types without a text keyword).')
CHECKS['C17'] = dict(
    category='other',
    technique='contract-based deductive verification (pyvc): Instance.fixup_name over z3 strings, Vec.localise, '
              'Side.localise (displacement face) and UVAxis.localise over the reals (texture-coordinate invariance as a polynomial identity in the orthonormality '
              'defect), C09 copy contracts re-run for the template frame, AST effect / termination obligations on '
              'collapse_one / collapse_all; bounded generator-based collapses',
    text='Proved on the real code: fixup_name leaves blank, @ and ! names alone and otherwise applies NONE / PREFIX / '
         'SUFFIX exactly, for all names; Vec.localise(origin, R) is p @ R + origin for all p, R, origin (the in-place '
         'operators generated by exec templates are reconstructed from the template text); UVAxis.localise keeps the '
         'texture coordinate of every moved point: u\'(P@R+O) - u(P) equals sum_ij P_i vec_j (row_i.row_j - delta_ij) / '
         'scale for all reals, which is zero for every rotation; Side.localise on a displacement face moves plane '
         'points and the start position, rotates vertex offsets / normals / offset normals and turns the texture axes. '
         'The template frame is the C09 copy contracts (coverage '
         'and freshness of Entity / Solid / Side / Output / fixup copies, re-run here) plus an effect obligation: every '
         'store and mutating call of collapse_one goes to the target map, the Instance or a fresh copy. AST obligations: '
         'placement of brushes / origins / angles, substitution before name fix-up, collapse_all bounded by recur_limit, '
         'no other unbounded loop or recursion. The composition over whole maps (every visible brush/entity placed, names, '
         '$variables, repeated and interleaved collapses differing only by placement, cyclic graphs ending in '
         'RecursionError) is a bounded stand-in on generated templates - not counted as proved.',
    note='trusted: C04, C05, C09 as dependencies; floats as reals; FGD value types of the bundled database.')
CHECKS['C18'] = dict(
    category='proof',
    technique='contract-based deductive verification: pyvc proof of RawFileSystem._resolve_path for every input string '
              '(z3 strings, abspath/join uninterpreted) + syntactic obligations that every file-system primitive receives '
              'a resolved path and that no lookup is memoised across filesystems; bounded directory-tree stand-in',
    text='With path constraint on, _resolve_path is proved to return only the root itself or a path that starts with '
         'root + separator, and to raise RootEscapeError exactly otherwise - for every input string, with os.path.abspath '
         'and join left uninterpreted. Every open/os.walk/os.path.isfile in RawFileSystem is shown (AST) to take its '
         'path from _resolve_path, and the root to be stored as os.path.abspath(path) and never reassigned. Real-tree '
         'enumeration (sibling directory extending the root name, ".." chains, absolute prefixes, both separators, '
         'chained filesystems with subfolder prefix) and packlist.unify_path are bounded stand-ins.',
    note='trusted: abspath yields normalised absolute paths (so prefix containment means located inside), symlinks '
         'outside the property, POSIX semantics; unify_path bounded-only.')
CHECKS['C20'] = dict(
    category='other',
    technique='contract-based deductive verification of the field codecs (pyvc lemmas: cmdseq pad_string/strip_cstring over '
              'z3 strings, the quantisation statements of binary scenes located in the AST, real arithmetic) + AST '
              'obligations on the writers; bounded generator-based write/read/write round trips of all six formats',
    text='Proved on the real code: strip_cstring(pad_string(text, n)) == text for every NUL-free text that fits, the field '
         'is exactly n long, longer texts are rejected, junk after the terminator is ignored; the quantisation statement '
         'of Tag / AbsoluteTag / Curve.export_binary maps k / FACTOR back to k for every storable k (re-writing what was '
         'read is byte-identical), always yields a storable value and is within half a step of the input. AST '
         'obligations: constants of the lemmas, decoder divides by the same factor, AbsoluteTag range declared, the '
         'relative-tag record layout agrees between writer and reader, scenes.image entries are sorted by checksum before '
         'writing, quoted strings of the VCD text writer are escaped, soundscript ranges quoted, VMT written without '
         'escapes, SMD link count separated, reproducible bone order, PCF attribute names keep their case. The whole-file '
         'round trips (cmdseq, soundscript, VMT, SMD, PCF, scenes in text / binary / scenes.image v2+v3) are a bounded '
         'stand-in over generated values - not counted as proved.',
    note='trusted: bytes as latin-1 strings, struct, float arithmetic as real arithmetic in the quantisation lemmas. Two '
         'known findings (soundscript names/waves needing escapes; flex animation tracks in text scenes).')
CHECKS['C19'] = dict(
    category='other',
    technique='contract-based deductive verification of the lookup kernels (pyvc, z3/cvc5 strings with str.replace_all '
              'and an uninterpreted casefold), of chain priority lookup and of add_sys search order; bounded differential test of the four backends',
    text='Zip, VPK and in-memory _file_exists/_get_file are proved, for every name and every table, to look the file up under the '
         'single normal form fold(name with backslashes turned into slashes; the in-memory backend through its real _clean_path with os.path.normpath uninterpreted, and proved to hand back the stored entry of that key; AST shape obligations tie its constructor and both opens to the same key function) and to raise FileNotFoundError exactly when '
         'that key is absent; FileSystemChain._get_file is proved (three symbolic members with arbitrary prefixes) to '
         'return the first member, in order, that has the prefix-joined name, and add_sys to put a priority member first '
         'in the search order (also when it is already mounted) and any other last; zip, VPK and in-memory walk_folder are proved per table entry (pre-loop statements + one arbitrary iteration) to list the entry exactly when its key lies inside the normalised folder, once. The de-duplicating loop of the chain walk is proved per file (listed iff its folded name was not listed before; the listed set grows by exactly it). walk_folder_repeat is proved to hand on every member file once under relpath(name, member prefix) (relpath uninterpreted). Directory walks, byte agreement between the '
         'in-memory / zip / VPK / directory backends, listed-name-looks-up-to-that-file and de-duplicated chain walks are '
         'a bounded differential stand-in over generated file sets - not counted as proved.',
    note='trusted: casefold uninterpreted, os.path.normpath uninterpreted (identity on the names of the property), zipfile and VPK I/O, pyvc; for names differing only in case the backends '
         'may keep different candidates (container order) - accepted; backslash spellings on a real directory are host '
         'dependent and not required. One known finding (chain walk of a member whose prefix differs in case or slash from its stored names lists ../ names).')
CHECKS['C06'] = dict(
    category='other',
    technique='contract-style AST obligations over every export/parse pair of vmf.py (type-directed escaping obligation, '
              'array-shape agreement for displacement data, fixup key/index agreement discharged by z3 over strings, editor '
              'key coverage, ordering); bounded generator-based round trip of whole maps',
    text='Decided deductively on the real source: every interpolation of every write in every export method is '
         'classified by the declared type of what it prints, and str-typed data must pass through escape_text; the '
         'writer key replace{id:02} and the reader slice convert every id >= 0 back to itself (z3 strings); for powers '
         '1-4 every displacement array is written with the row count and width its reader requires, inside dispinfo; '
         'every editor key written by Solid/Entity/EntityGroup.export is read by the matching parse; id sets are written '
         'sorted; entities are read in file order. The round-trip laws over whole maps (second export identical, same '
         'object graph within 5e-7 / six significant digits, options minimal / disp_multiblend / preserve_ids, the .vmf '
         'files under tests/) are a bounded stand-in over generated maps - not counted as proved.',
    note='trusted: escape/unescape inverse (C02), number printing/parsing within tolerance (C05), annotations describe '
         'attribute values.')
CHECKS['C07'] = dict(
    category='proof',
    technique='contract-based deductive verification: pyvc proof that the index invariant is preserved by the real '
              'Entity.__setitem__ / __delitem__ and VMF.add_ent / remove_ent code over symbolic index maps (quantified '
              'arrays, uninterpreted casefold; '
              'z3 4.8 / 5.1 / cvc5); bounded operation histories',
    text='Invariant I - by_class / by_target, read case-insensitively with missing keys as empty sets, equal the sets '
         'computed from every entity\'s current classname / targetname - is proved to be preserved by the real '
         'Entity.__setitem__ (classname and targetname, any key spelling, entity in the map / not in the map / the '
         'worldspawn entity, which is also proved to stay worldspawn or raise), Entity.__delitem__, VMF.add_ent and '
         'VMF.remove_ent (entity in the map / already removed), for arbitrary '
         'symbolic index maps, other entities, old and new values. add_ents, pop, clear, update, '
         'setdefault, make_unique, copies across maps, parsing, search() and iteration while mutating are covered by '
         'bounded operation histories comparing the indexes with a scan after every step.',
    note='trusted: casefold as an uninterpreted idempotent function agreeing with str.casefold on the literals used, '
         'defaultdict(CopySet) abstracted as a total map, membership in vmf.entities as a set (duplicates in the list '
         'are invisible), pyvc; vacuity covers under the quantified invariant are decided with candidate witnesses; CopySet iteration and VMF.parse bounded-only.')
CHECKS['C09'] = dict(
    category='proof',
    technique='contract-based deductive verification: coverage and freshness contracts of every copy() decided on the '
              'AST against the class\'s own field list; pyvc symbolic execution of Keyvalues.copy (allocation-based '
              'freshness); frame obligation for Keyvalues.__add__; bounded mutation stand-in',
    text='For Side (incl. every DispVertex field), Solid, Entity, Output, VisGroup, EntityGroup, Camera, Cordon, UVAxis '
         'and Keyvalues the copy method is checked against its contract: every field of the class is carried over, '
         'no mutable field is handed over bare, and containers of mutable elements are rebuilt from copied elements. '
         'Keyvalues.copy is executed symbolically on every tree shape up to depth 2: all nodes and child lists of the '
         'result are allocated in the call and equal the source field by field; Keyvalues.__add__ is shown to assign or '
         'append to nothing reachable from its operands. Independence under later mutation follows from freshness and '
         'is additionally exercised on generated objects (every reachable vector, list, set, key, output, fixup, vertex).',
    note='trusted: freshness of .copy()/constructor/comprehension results and of attrs converters; the field lists come '
         'from __slots__/annotations/__init__; deeper aliasing through helper methods other than copy_values is covered '
         'only by the bounded tier.')
CHECKS['C04'] = dict(
    category='proof',
    technique='contract-based deductive verification over the reals: pyvc symbolic execution of the real matrix / '
              'vector code, polynomial obligations discharged by z3 (NRA) with sin^2+cos^2=1 as the only trigonometric '
              'fact; IEEE-level bounded stand-in for Euler extraction, inverse() and operand dispatch',
    text='from_angle / from_pitch / from_yaw / from_roll are proved to return orthonormal rows with determinant +1; '
         'from_angle(p, y, r) is proved equal to from_roll(r) . from_pitch(p) . from_yaw(y) computed with the real '
         '_mat_mul; (v @ A) @ B = v @ (A @ B) and (A @ B) @ C = A @ (B @ C) are proved for the real _vec_rot / _mat_mul '
         'on arbitrary matrices; transpose() . M = I for rotations; Vec @ Angle is proved to rotate by '
         'Matrix.from_angle(angle) without touching the operand. Matrix -> Angle -> Matrix (incl. the gimbal bound 2h), '
         'inverse() = transpose() and the full operand-type / operator-form table are checked in IEEE arithmetic on all '
         'multiples of 15 degrees (45 in the quick tier), near-pole pitches and seeded values.',
    note='trusted: floats as reals ("up to rounding" in the property), sin/cos as functions of radians(angle) with '
         'sin^2+cos^2=1, rows-orthonormal <=> columns-orthonormal for square matrices, pyvc/z3; _to_angle and inverse() '
         'are bounded-only; Cython twin unverified.')
_PENDING = 'not yet built in this session (planned, see DESIGN.md section 3); no check is registered so nothing is claimed'
NOT_APPLICABLE = {f'C{i:02d}': _PENDING for i in range(1, 21) if f'C{i:02d}' not in CHECKS}
