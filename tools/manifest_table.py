"""Per-property manifest entries (source of MANIFEST.json; run tools/gen_manifest.py after editing)."""
CHECKS = {
    'C08': dict(
        category='proof',
        technique='contract-based deductive verification: pyvc VCs from the real AST discharged by z3; syntactic '
                  'ownership obligations; bounded history stand-in',
        text='IDMan (get_id/discard/remove/clear/__init__/__contains__), NullIDMan.get_id and the EntityFixup '
             'lowest-unused-index loop are proved against contracts for all states and all iterations (quantified '
             'representation invariant, loop invariant and variant); the ownership discipline that lifts this to '
             '"no two live objects share an id" is decided as syntactic obligations over every .id store and every '
             'release site; the composition over operation histories is exercised by a bounded stand-in on the real '
             'classes (not counted as proved).',
        note='trusted: pyvc encoding, z3/cvc5, attrs-generated __init__ reconstruction, finiteness of Python sets, '
             'CPython finaliser timing; node-id ownership is bounded-only (one known finding recorded).'),
}
_PENDING = 'not yet built in this session (planned, see DESIGN.md section 3); no check is registered so nothing is claimed'
NOT_APPLICABLE = {f'C{i:02d}': _PENDING for i in range(1, 21) if f'C{i:02d}' not in CHECKS}
