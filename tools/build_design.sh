#!/bin/sh
# Assemble /verif/DESIGN.md from docs/design_head.md + generated per-property sections + docs/design_tail.md
# (with seeded/RESULTS.md spliced in).  Run after editing a sidecar, manifest_table.py or KNOWN_FINDINGS.txt.
cd /verif || exit 3
.venv/bin/python tools/gen_design_sections.py > /tmp/design_props.md 2>/dev/null || exit 3
python3 - <<'PY'
head = open('/verif/docs/design_head.md').read()
props = open('/tmp/design_props.md').read()
tail = open('/verif/docs/design_tail.md').read()
res = open('/verif/seeded/RESULTS.md').read().split('\n', 2)[2] if open('/verif/seeded/RESULTS.md').read().count('\n') > 2 else ''
tail = tail.replace('SEEDED_RESULTS_PLACEHOLDER', res.strip())
open('/verif/DESIGN.md', 'w').write(head + props + tail)
PY
wc -l /verif/DESIGN.md
