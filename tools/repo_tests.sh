#!/bin/sh
# Secondary sanity check for fix: commits -- run the repository's own tests against <repo>/src (pure Python; the
# pinned baseline command imports the installed 2.7.0 package instead and cannot see /repo/src).
# usage: tools/repo_tests.sh [repo] ; prints the summary line and the failing test ids.
REPO=${1:-/repo}
cd "$REPO" || exit 3
PYTHONPATH="$REPO/src:/verif/shim" /venv/bin/python -m pytest tests -q -p no:cacheprovider -x --co -q >/dev/null 2>&1
PYTHONPATH="$REPO/src:/verif/shim" /venv/bin/python -m pytest tests -q -p no:cacheprovider --timeout=900 -n 8 2>&1 | tail -25
git -C "$REPO" status --short | grep '^??' | awk '{print $2}' | while read f; do case "$f" in tests/*) rm -rf "$REPO/$f";; esac; done
