#!/bin/sh
# usage: tools/confirm_seeded.sh <prop> <mK>
# Confirms an independently produced breaking change in its scratch worktree /tmp/wt_<prop>:
#   demo passes on clean source, fails with the patch, and the repo's own tests (run against the worktree source)
#   fail exactly the same test ids with and without the patch.
# On success stores it as /verif/seeded/<prop>_<mK>/.
PROP=$1; M=$2; WT=/tmp/wt_$PROP; SRC=/tmp/mut_$PROP/$M
[ -d "$WT" ] || { echo "no worktree $WT"; exit 3; }
cd "$WT" && git checkout -q -- . && git clean -fdq
run_demo() { PYTHONPATH=$WT/src:/tmp/mutshim timeout 900 /venv/bin/python "$SRC/demo.py" >/tmp/demo_${PROP}_$M.out 2>&1; echo $?; }
run_tests() { PYTHONPATH=$WT/src:/tmp/mutshim /venv/bin/python -m pytest tests -q -p no:cacheprovider --timeout=900 -n 6 2>&1 | grep -E "^FAILED|^ERROR" | sed 's/ - .*//' | sort; }
if [ ! -f /tmp/wt_$PROP.clean_failures ]; then run_tests > /tmp/wt_$PROP.clean_failures; git clean -fdq; fi
CLEAN=$(run_demo)
git apply "$SRC/patch.diff" || { echo "$PROP $M: patch does not apply"; exit 4; }
MUT=$(run_demo)
run_tests > /tmp/wt_$PROP.$M.failures
git checkout -q -- . && git clean -fdq
if cmp -s /tmp/wt_$PROP.clean_failures /tmp/wt_$PROP.$M.failures; then T_OK=1; else T_OK=0; fi
NF=$(wc -l < /tmp/wt_$PROP.clean_failures)
echo "$PROP $M: demo clean=$CLEAN mutated=$MUT; failing test ids identical to clean worktree: $T_OK ($NF ids)"
if [ "$CLEAN" = 0 ] && [ "$MUT" = 1 ] && [ "$T_OK" = 1 ]; then
  D=/verif/seeded/${PROP}_$M; mkdir -p $D; cp "$SRC/patch.diff" "$SRC/demo.py" $D/
  /venv/bin/python - "$SRC/meta.json" "$D/meta.json" "$CLEAN" "$MUT" "$NF" "$(git rev-parse --short HEAD)" <<'PY'
import json, sys
src, dst, clean, mut, nf, head = sys.argv[1:7]
try: meta = json.load(open(src))
except Exception: meta = {}
meta['confirmed_by_verifier'] = {'demo_exit_clean': int(clean), 'demo_exit_mutated': int(mut),
  'repo_tests': f'identical set of {nf} failing test ids with and without the patch (no-Cython failures and regression snapshots that predate fix: commits)',
  'worktree_head': head,
  'how': 'tools/confirm_seeded.sh: scratch worktree of /repo under /tmp, PYTHONPATH=<worktree>/src, demo.py before/after git apply, pytest tests -n 6'}
json.dump(meta, open(dst, 'w'), indent=1)
PY
  echo "  stored in $D"
else
  echo "  NOT CONFIRMED"
fi
