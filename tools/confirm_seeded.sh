#!/bin/sh
# usage: tools/confirm_seeded.sh <prop> <mK>
# Confirms an independently produced breaking change in its scratch worktree /tmp/wt_<prop>:
#   demo passes on clean source, fails with the patch, repo tests unchanged (12 failed / 2103 passed, no-Cython only).
# On success stores it as /verif/seeded/<prop>_<mK>/.
PROP=$1; M=$2; WT=/tmp/wt_$PROP; SRC=/tmp/mut_$PROP/$M
[ -d "$WT" ] || { echo "no worktree $WT"; exit 3; }
cd "$WT" && git checkout -q -- . && git clean -fdq
run_demo() { PYTHONPATH=$WT/src:/tmp/mutshim timeout 600 /venv/bin/python "$SRC/demo.py" >/tmp/demo_$PROP_$M.out 2>&1; echo $?; }
CLEAN=$(run_demo)
git apply "$SRC/patch.diff" || { echo "patch does not apply"; exit 4; }
MUT=$(run_demo)
TESTS=$(PYTHONPATH=$WT/src:/tmp/mutshim /venv/bin/python -m pytest tests -q -p no:cacheprovider --timeout=900 -n 6 2>&1 | tail -1)
git checkout -q -- . && git clean -fdq
echo "$PROP $M: demo clean=$CLEAN mutated=$MUT tests: $TESTS"
case "$TESTS" in *"12 failed, 2103 passed"*) T_OK=1;; *) T_OK=0;; esac
if [ "$CLEAN" = 0 ] && [ "$MUT" = 1 ] && [ "$T_OK" = 1 ]; then
  D=/verif/seeded/${PROP}_$M; mkdir -p $D; cp "$SRC/patch.diff" "$SRC/demo.py" $D/
  /venv/bin/python - "$SRC/meta.json" "$D/meta.json" "$CLEAN" "$MUT" "$TESTS" <<'PY'
import json, sys
src, dst, clean, mut, tests = sys.argv[1:6]
try: meta = json.load(open(src))
except Exception: meta = {}
meta['confirmed_by_verifier'] = {'demo_exit_clean': int(clean), 'demo_exit_mutated': int(mut), 'repo_tests_with_patch': tests.strip(),
  'how': 'tools/confirm_seeded.sh: scratch worktree of /repo under /tmp, PYTHONPATH=<worktree>/src, demo.py before/after git apply, pytest tests -n 6'}
json.dump(meta, open(dst, 'w'), indent=1)
PY
  echo "  stored in $D"
else
  echo "  NOT CONFIRMED"
fi
