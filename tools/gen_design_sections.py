"""Emit the per-property part of DESIGN.md from the sidecars (EXPLANATION / TRUSTED / UNVERIFIED / bounded meta /
MUTATIONS), tools/manifest_table.py and KNOWN_FINDINGS.txt.  Usage: .venv/bin/python tools/gen_design_sections.py"""
import importlib
import json
import os
import re
import sys

sys.path.insert(0, '/verif')
sys.path.insert(0, '/verif/tools')
from manifest_table import CHECKS       # noqa: E402

props = {json.loads(l)['id']: json.loads(l) for l in open('/verif/properties.jsonl')}
known = [l.strip() for l in open('/verif/KNOWN_FINDINGS.txt') if re.match(r'(known|fixed):', l)]
lock = json.load(open('/verif/obligations.lock.json'))
out = []
for pid in sorted(props):
    fname = [f for f in os.listdir('/verif/contracts') if f.startswith(pid + '_')][0]
    mod = importlib.import_module('contracts.' + fname[:-3])
    ch = CHECKS[pid]
    out.append(f'### {pid} — {props[pid]["title"]}\n')
    out.append(f'*Level claimed:* `{ch["category"]}` · *sidecar:* `contracts/{fname}` · *locked obligations:* {len(lock.get(pid, []))}\n')
    out.append(f'**Deciding method.** {ch["technique"]}.\n')
    out.append(f'**What is decided, and how far.** {ch["text"]}\n')
    bl = []
    for fn in getattr(mod, 'BOUNDED', []):
        m = fn._bounded
        bl.append(f'  * `{m["name"]}` — {m["bound"]}')
    if bl:
        out.append('**Bounded stand-ins (labelled `bounded` in the evidence, never counted as proved).**\n' + '\n'.join(bl) + '\n')
    tr = getattr(mod, 'TRUSTED', [])
    un = getattr(mod, 'UNVERIFIED', [])
    if tr:
        out.append('**Assumptions left unchecked.** ' + '; '.join(tr) + '.\n')
    if un:
        out.append('**Not verified.** ' + '; '.join(un) + '.\n')
    muts = [m['name'] for m in getattr(mod, 'MUTATIONS', [])]
    harm = [m['name'] for m in getattr(mod, 'HARMLESS', [])]
    if muts:
        out.append(f'**Self-test catalogue** (`./check {pid} --selftest`; each breaking change must give exit 1 naming the expected '
                   f'obligation/check, each harmless one exit 0): breaking — {", ".join(muts)}; harmless — {", ".join(harm) or "none"}.\n')
    fx = [k for k in known if f'property={pid} ' in k]
    if fx:
        out.append('**Findings on the pinned tree.**\n' + '\n'.join('  * ' + k for k in fx) + '\n')
print('\n'.join(out))
