#!/bin/sh
# usage: tools/try_seeded.sh <prop> <dir with patch.diff> [tier]  -- apply to /repo, run the check, undo.
PROP=$1; DIR=$(cd /verif && realpath $2); TIER=${3:-quick}
cd /repo || exit 3
if ! git diff --quiet; then echo "/repo has uncommitted changes"; exit 3; fi
if ! git apply --check "$DIR/patch.diff" 2>/dev/null; then
  if ! git apply --3way "$DIR/patch.diff" 2>/dev/null; then echo "PATCH DOES NOT APPLY: $DIR"; git checkout HEAD -- . 2>/dev/null; git reset -q; git checkout -- . ; exit 4; fi
  git reset -q
else
  git apply "$DIR/patch.diff"
fi
cd /verif && cp evidence/$PROP.json /tmp/ev_$PROP.bak 2>/dev/null
./check $PROP --tier $TIER 2>&1 | grep -v conda | grep -E "VIOLATION|KNOWN|UNDECIDED|CRASH|obligations" | cut -c1-300 | head -8
echo "exit=$?"
cp /tmp/ev_$PROP.bak evidence/$PROP.json 2>/dev/null
git -C /repo checkout -- .
